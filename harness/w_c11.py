"""C11 worker: serializable / JSON / bytes / pickle / copy round trips of BQMs and sample sets,
COO text, Variables.to_serializable, serialize_ndarray.

Coverage of the property text, clause by clause (stream = `kind` of the generated case):

  to_serializable -> from_serializable of a BQM            bqm, routes ser / ser_json / ser_json_decoder / ser_bytes
    labels incl. nested tuples, ints beyond 2^53, floats,    pick_labels styles int / str / float / tuple / mixed / sparse / perm / range
      exact ranges, shuffled and sparse integer sets
    vartype, offset, all biases                              compared in Coq (KBqm: coefficients + emitted vectors)
    dtype float64 / float32 / object (Python ints/floats)    dtype, obj_ints
    use_bytes, bytes_type=bytearray, bias_dtype (deprecated) ser_bytes + bytes_type / bias_dtype keys
    .spin / .binary views (pure-Python to_numpy_vectors)     view key (ser*, deepcopy, method_copy)
  DimodDecoder on a BQM document                            ser_json_decoder          (DimodEncoder does not encode BQMs)
  pickle protocols 2-5, copy.deepcopy, copy.copy, .copy()   bqm / ss routes pickle2..5, deepcopy, copy, method_copy
  SampleSet to/from_serializable                            ss: vartypes SPIN/BINARY/INTEGER/DISCRETE/REAL x sample dtypes x
                                                            use_bytes x bytes_type x pack_samples x JSON text; 0-70 (130) variables, 0-5 rows
    every labelled value, energies, num_occurrences,         worker (exact ==, dtype, shape) + Coq (KSS rows / packed words, KLabels)
      extra 1-d / 2-d vectors
    info incl. arrays, nested dicts/lists, NumPy scalars     gen_info (KInfo walk in Coq); bool / 'type' marker dicts: corpus (open findings)
    empty sample sets (no rows / no variables)               n = 0, nrows = 0
  DimodEncoder / DimodDecoder on a SampleSet                route encoder; `wrap`: nested inside other JSON data
  deferred (future-backed) sample sets                      defer: future / future_id (wait_id) / hook / late / relabel_inplace /
                                                            relabel_copy / change_vartype / nested; defer_main (to_serializable on the
                                                            untouched deferred set), touch (resolved before the route)
  COO text                                                  coo (+ KCooText / KCooLines at character level)
  Variables.to_serializable (int, float, str, nested tuple) labels (incl. NumPy scalar labels)
  serialize_ndarray (float -> int compaction)               arr
  other model classes (not named by the property)           model: QM / CQM / DQM / BinaryPolynomial / Variables through the copy and
                                                            pickle routes each class offers (worker-compared)
  independence of what came back (round 5)                 every bqm / ss route: the result is relabelled, grown, shrunk, its numbers
                                                            changed; the original is compared with its snapshot (mutate_*_copy)
  NumPy / Fraction members inside tuple labels (round 5)    npify: labels kind (any depth), ('k', i) / ('m', i) labels of bqm / ss
  caller-assembled record, other field order (round 5)      ss: rec_order
Not reached: bytes_type other than bytes/bytearray (e.g. bson.Binary); sample sets with more than 130 variables;
to_file/from_file (C13); legacy (< 3.0.0) documents (refused by from_serializable).
"""
import copy
import concurrent.futures
import json
import pickle
import warnings
from fractions import Fraction

import numpy as np
import dimod
from dimod.serialization.json import DimodEncoder, DimodDecoder
from dimod.serialization import coo
from dimod.serialization.utils import serialize_ndarray, deserialize_ndarray
from dimod.variables import Variables, iter_deserialize_variables

import wlib
from wlib import cq, clist, cnat, cz, cbool, copt, cpair
import gen
from gen import F, enc_label, dec_label, LabelTable, coq_obs, fs

def dec_label(j):
    """JSON label -> Python label; {"np": dtype, "v": x} is a NumPy scalar, {"fr": "n/d"} a Fraction (both
    also INSIDE nested tuples), {"t": [...]} a tuple"""
    if isinstance(j, dict):
        if "np" in j:
            return np.dtype(j["np"]).type(j["v"])
        if "fr" in j:
            return Fraction(j["fr"])
        return tuple(dec_label(x) for x in j["t"])
    if isinstance(j, list):
        return tuple(dec_label(x) for x in j)
    return j


def npify(rng, j, p=0.5, top=False, only_km=False):
    """numbers INSIDE tuple labels become NumPy scalars / Fractions of the same value (equal, same hash):
    serialize_variable has to convert them recursively"""
    if isinstance(j, dict) and "t" in j:
        if only_km and not (len(j["t"]) == 2 and j["t"][0] in ('k', 'm') and isinstance(j["t"][1], int)):
            return j
        return {"t": [npify(rng, x, p) for x in j["t"]]}
    if top or isinstance(j, bool) or rng.random() > p:
        return j
    if isinstance(j, int) and -2 ** 63 <= j < 2 ** 63:
        r = rng.random()
        if r < 0.2 and abs(j) < 2 ** 53:     # a Fraction is serialised as a float
            return {"fr": f"{j}/1"}
        return {"np": rng.choice(['int64', 'int64', 'int32', 'int8', 'uint16']) if 0 <= j < 100 else 'int64', "v": j}
    if isinstance(j, float):
        return {"np": 'float64', "v": j} if rng.random() < 0.7 else {"fr": str(Fraction(j))}
    return j


def npify_labels(rng, encs, only_km=False):
    # only_km: SampleSet.from_samples and BQM.to_numpy_vectors(sort_labels=True) sort the labels, and a NumPy scalar compared
    # with a tuple at the same position of two tuple labels makes that raise ValueError (reported finding np_member_label_sort):
    # for sample sets and BQMs only the generated ('k', i) / ('m', i) labels get NumPy / Fraction members
    return [npify(rng, e, top=True, only_km=only_km) for e in encs] if rng.random() < 0.5 else encs


BIG = 2 ** 53 + 1     # smallest positive integer a float64 cannot hold
# |label| < 2^63: Variables raises OverflowError for integer labels outside the ssize_t range (e.g. Variables([2**64+1]))
INT_LABELS = [0, 1, 2, 5, -3, 10 ** 12, 33, BIG, -BIG, 2 ** 60 + 3, -(10 ** 18 + 1), 2 ** 63 - 1, 3 ** 39]
STR_LABELS = ['a', 'b', 'x0', '', 'with space', 'a"b', 'q\\n', 'é']
FLT_LABELS = [2.5, -0.5, 0.001, 7.0]
TUP_LABELS = [('t', 1), ('t', (1, 2)), ('a', ('b', ('c', 3))), (), (4,), ((),), ('x', 2.5), (('u', 'v'), ('w',)),
              ('t', BIG), (BIG + 2, ('y', -(2 ** 60 + 1))), (-7, 0)]
BQM_ROUTES = ['ser', 'ser_json', 'ser_json_decoder', 'ser_bytes', 'pickle2', 'pickle3', 'pickle4', 'pickle5',
              'deepcopy', 'copy', 'method_copy']
SS_ROUTES = ['none', 'encoder', 'pickle2', 'pickle3', 'pickle4', 'pickle5', 'deepcopy', 'copy', 'method_copy']
# deferred sample sets (SampleSet.from_future): plain future, future with wait_id, custom result hook,
# hooks installed on a not-yet-done set by relabel_variables (in place / copy) and change_vartype
DEFER_MODES = ['future', 'future_id', 'hook', 'late', 'relabel_inplace', 'relabel_copy', 'change_vartype', 'nested']
SS_DTYPES = {'BINARY': ['int8', 'int8', 'int32', 'int64', 'uint8', 'bool', 'float32', 'float64', 'int16'],
             'SPIN': ['int8', 'int8', 'int32', 'int64', 'float32', 'float64', 'int16'],
             'INTEGER': ['int8', 'int32', 'int64', 'float64', 'int16', 'float32'],
             'REAL': ['float64', 'float64', 'float32', 'int32']}


# ----------------------------------------------------------------------------
# generation

def pick_labels(rng, n, style=None):
    style = style or rng.choice(['int', 'str', 'mixed', 'tuple', 'mixed', 'float', 'sparse', 'sparse', 'sparse', 'perm', 'range'])
    if style == 'sparse':
        # small non-negative integers that are not 0..n-1 (qubit-index-like): dense enough that labels fall
        # among the indices and just above them, where relabelling has to go through intermediate labels
        k = rng.choice([1, 2, 3, 3, 4, 10])
        lo = rng.choice([0, 0, 1, 2, n])
        pool = list(range(lo, lo + k * n + 2))
        labels = rng.sample(pool, min(n, len(pool)))
        return labels if rng.random() < 0.5 else sorted(labels)
    if style == 'perm':
        # 0..n-1 (or a shifted range) in a shuffled insertion order
        lo = rng.choice([0, 0, 1, 5])
        labels = list(range(lo, lo + n))
        rng.shuffle(labels)
        return labels
    if style == 'int':
        pool = list(INT_LABELS) + list(range(40, 40 + max(0, n)))
    elif style == 'range':
        return list(range(n))
    elif style == 'str':
        pool = list(STR_LABELS) + ['s%d' % i for i in range(max(0, n))]
    elif style == 'float':
        pool = list(FLT_LABELS) + ['f%d' % i for i in range(max(0, n))]
    elif style == 'tuple':
        pool = list(TUP_LABELS) + [('k', i) for i in range(max(0, n))]
    else:
        pool = INT_LABELS[:4] + INT_LABELS[7:10] + STR_LABELS + FLT_LABELS[:3] + TUP_LABELS + [('m', i) for i in range(max(0, n))]
    rng.shuffle(pool)
    return pool[:n]


def gen_bqm_desc(rng, labels, vartype, kmax, jmax):
    n = len(labels)
    lin = [[enc_label(l), str(rng.dyadic(kmax, jmax) if rng.random() > 0.2 else Fraction(0))] for l in labels]
    quad = []
    for i in range(n):
        for j in range(i + 1, n):
            if rng.random() < (0.5 if n < 8 else 0.1):
                b = rng.dyadic(kmax, jmax) if rng.random() > 0.15 else Fraction(0)
                u, v = (labels[i], labels[j]) if rng.random() < 0.5 else (labels[j], labels[i])
                quad.append([enc_label(u), enc_label(v), str(b)])
    off = rng.dyadic(kmax, jmax) if rng.random() < 0.7 else Fraction(0)
    return {"vartype": vartype, "labels": npify_labels(rng, [enc_label(l) for l in labels], only_km=True), "lin": lin, "quad": quad, "off": str(off)}


def gen_info(rng, depth=0):
    r = rng.random()
    if depth > 2 or r < 0.25:
        # no booleans: serialize_ndarrays turns True into 1 (reported separately, corpus info_bool)
        if rng.random() < 0.3:
            # NumPy scalars (solver timing fields are often np.float64 / np.int64): Number -> float, Integral -> int
            dt = rng.choice(['float64', 'float32', 'int64', 'int8', 'uint16', 'float16'])
            if dt == 'float64' and rng.random() < 0.5:
                return {"__np__": dt, "v": rng.choice(["3602879701896397/36028797018963968", "1/3", "2476979795053773/2251799813685248"])}
            return {"__np__": dt, "v": str(rng.dyadic(9, 2)) if dt.startswith('float') else rng.randint(0, 100)}
        return rng.choice([1, -7, 2.5, 2.0, "s", None, 10 ** 15, "", 0.001])
    if r < 0.5:
        shape = rng.choice([[3], [2, 2], [0], [2, 0], [1, 3, 2], []])
        dt = rng.choice(['float64', 'float32', 'int64', 'int8', 'bool', 'uint16'])
        if shape == [] and dt.startswith('float'):
            dt = 'int64'    # serialize_ndarray of a 0-d float array raises (reported separately)
        size = int(np.prod(shape)) if shape else 1
        vals = [str(rng.dyadic(9, 2)) if dt.startswith('float') else rng.randint(0, 1) if dt == 'bool'
                else rng.randint(0, 100) if dt.startswith('u') else rng.randint(-100, 100) for _ in range(size)]
        return {"__arr__": vals, "shape": shape, "dtype": dt}
    if r < 0.75:
        return [gen_info(rng, depth + 1) for _ in range(rng.randint(0, 3))]
    return {rng.choice(['a', 'b', 'timing', 'k k', 'type_', '']): gen_info(rng, depth + 1) for _ in range(rng.randint(0, 3))}


MODEL_ROUTES = ['pickle2', 'pickle3', 'pickle4', 'pickle5', 'deepcopy', 'copy', 'method_copy']


def gen_model(rng):
    """pickle / copy / deepcopy of the other model classes: QuadraticModel, ConstrainedQuadraticModel,
    DiscreteQuadraticModel, BinaryPolynomial, Variables (compared field by field by the worker)"""
    cls = rng.choice(['qm', 'qm', 'cqm', 'cqm', 'dqm', 'poly', 'vars'])
    n = rng.choice([0, 1, 2, 3, 5])
    labels = pick_labels(rng, n, rng.choice(['int', 'str', 'mixed', 'tuple', 'sparse', 'perm', 'range']))
    vts = []
    for _ in labels:
        vt = rng.choice(['BINARY', 'SPIN', 'INTEGER', 'REAL'])
        lb, ub = None, None
        if vt in ('INTEGER', 'REAL') and rng.random() < 0.7:
            lb = rng.choice([0, -3, 1, -7]); ub = lb + rng.choice([0, 1, 5, 100])
        vts.append([vt, lb, ub])

    def expr():
        lin = [[enc_label(l), str(rng.dyadic(8, 2))] for l in labels if rng.random() < 0.7]
        quad = []
        for i in range(n):
            for j in range(i, n):
                if (i != j and rng.random() < 0.4 and 'REAL' not in (vts[i][0], vts[j][0])) or \
                        (i == j and vts[i][0] == 'INTEGER' and rng.random() < 0.3):
                    quad.append([enc_label(labels[i]), enc_label(labels[j]), str(rng.dyadic(8, 2))])
        return {"lin": lin, "quad": quad, "off": str(rng.dyadic(8, 2) if rng.random() < 0.6 else Fraction(0))}
    d = {"kind": "model", "cls": cls, "labels": [enc_label(l) for l in labels], "vts": vts, "obj": expr(),
         "route": rng.choice(MODEL_ROUTES), "dtype": rng.choice(['float64', 'float64', 'float32'])}
    # pickling is not offered by QuadraticModel / ConstrainedQuadraticModel / DiscreteQuadraticModel (TypeError from
    # the extension types), nor copy.copy / .copy() by the CQM, nor deepcopy by the DQM: only the offered routes
    offered = {'qm': ['deepcopy', 'copy', 'method_copy'], 'cqm': ['deepcopy'], 'dqm': ['copy', 'method_copy']}
    if cls in offered:
        d["route"] = rng.choice(offered[cls])
    if cls == 'cqm':
        d["cons"] = [dict(expr(), sense=rng.choice(['<=', '>=', '==']), rhs=str(rng.dyadic(8, 1)),
                          label=rng.choice([None, 'c%d' % k, k, ('c', k)]),
                          weight=rng.choice([None, None, "3/2"]), penalty=rng.choice(['linear', 'quadratic']))
                     for k in range(rng.randint(0, 3))]
        d["discrete"] = rng.random() < 0.3
    if cls == 'dqm':
        d["ncases"] = [rng.randint(1, 3) for _ in labels]
        d["dlin"] = [[str(rng.dyadic(8, 1)) for _ in range(k)] for k in d["ncases"]]
        d["dquad"] = [[i, j, [[a, b, str(rng.dyadic(8, 1))] for a in range(d["ncases"][i]) for b in range(d["ncases"][j])
                               if rng.random() < 0.5]]
                      for i in range(n) for j in range(i + 1, n) if rng.random() < 0.5]
    if cls == 'poly':
        d["terms"] = [[[enc_label(l) for l in rng.sample(labels, rng.randint(0, min(n, 3)))], str(rng.dyadic(8, 2))]
                      for _ in range(rng.randint(0, 5))]
        d["vartype"] = rng.choice(['SPIN', 'BINARY'])
    return d


def gen_case(rng, tier):
    r = rng.random()
    if r < 0.36:
        n = rng.choice([0, 1, 2, 3, 4, 5, 6, 12])
        dtype = rng.choice(['float64', 'float64', 'float32', 'object'])
        labels = pick_labels(rng, n)
        kmax, jmax = (8, 2) if dtype != 'float32' else (6, 1)
        d = gen_bqm_desc(rng, labels, rng.choice(['SPIN', 'BINARY']), kmax, jmax)
        # object-dtype models hold Python ints for integral biases half of the time (mixed int/float
        # vectors, fractional offsets over all-int biases, all-int models)
        d.update({"kind": "bqm", "dtype": dtype, "route": rng.choice(BQM_ROUTES),
                  "obj_ints": dtype == 'object' and rng.random() < 0.5})
        # keyword options of to_serializable and the vartype views (which serialise through the pure-Python
        # to_numpy_vectors like object-dtype models do)
        d["view"] = rng.choice([None, None, None, 'spin', 'binary']) if d["route"].startswith('ser') or d["route"] in ('deepcopy', 'method_copy') else None
        d["bytes_type"] = rng.choice(['bytes', 'bytes', 'bytearray'])
        d["bias_dtype"] = rng.random() < 0.1
        # one copy.deepcopy / pickle over a container that holds the model TOGETHER WITH its .spin / .binary views (one shared
        # memo: the views' copies must not convert the model's copy; round-6 miss C11 r6m1)
        d["boxed"] = d["route"] in ('deepcopy', 'pickle4', 'pickle5') and rng.random() < 0.5
        if (d["obj_ints"] and d["route"] == 'ser_bytes' and d["quad"] and Fraction(d["off"]).denominator == 1
                and all(Fraction(x[-1]).denominator == 1 for x in d["lin"] + d["quad"])):
            # all-integer object model as bytes: open finding obj_bqm_bytes_all_int (bias_type int64 is written
            # but from_serializable cannot read it back); kept out of the random stream
            d["off"] = str(Fraction(d["off"]) + Fraction(1, 2))
        return d
    if r < 0.44:
        n = rng.choice([0, 1, 2, 3, 5, 9])
        labels = rng.sample(range(0, 14), n)
        d = gen_bqm_desc(rng, labels, rng.choice(['SPIN', 'BINARY']), 8, 2)

        def coo_bias(old):
            # magnitudes from below 1 to 10^6 (one to seven integer digits), both signs, with fractional
            # parts the %f text prints exactly (quarters); zero biases are kept as generated
            if Fraction(old) == 0 or rng.random() < 0.35:
                return old
            mag = rng.choice([rng.randint(10, 99), rng.randint(100, 9999), rng.randint(10 ** 4, 10 ** 6),
                              10 ** rng.randint(1, 6), rng.randint(1, 9)])
            frac = rng.choice([0, 0, Fraction(1, 2), Fraction(1, 4), Fraction(3, 4)])
            return str(rng.choice([1, -1]) * (mag + frac))
        d["lin"] = [[l, coo_bias(b)] for l, b in d["lin"]]
        d["quad"] = [[u, v, coo_bias(b)] for u, v, b in d["quad"]]
        d.update({"kind": "coo", "header": rng.random() < 0.6})
        return d
    if r < 0.52:
        n = rng.randint(0, 7)
        labels = pick_labels(rng, n)
        if rng.random() < 0.3 and n:
            labels[0] = {"np": rng.choice(['int64', 'int8', 'float32', 'float64']), "v": rng.choice([3, 11, 2.5, 2 ** 53 + 1, -(2 ** 62 + 1)])}
            return {"kind": "labels", "labels": [labels[0]] + [enc_label(l) for l in labels[1:]], "json": rng.random() < 0.6}
        return {"kind": "labels", "labels": npify_labels(rng, [enc_label(l) for l in labels]), "json": rng.random() < 0.6}
    if 0.60 <= r < 0.66:
        return gen_model(rng)
    if r < 0.60:
        shape = rng.choice([[4], [2, 3], [0], [2, 0], [0, 2], [2, 1, 2], [1], [3, 33]])
        dt = rng.choice(['float64', 'float32', 'float16'])
        size = int(np.prod(shape))
        mode = rng.random()
        vals = []
        for _ in range(size):
            if mode < 0.3:
                vals.append(str(rng.randint(-50, 50)))            # all integral
            elif mode < 0.5:
                vals.append(str(Fraction(2 * rng.randint(-9, 9) + 1, 4)))   # none integral
            else:
                vals.append(str(rng.dyadic(40, 2) if rng.random() < 0.9 else Fraction(rng.choice([2 ** 40, -2 ** 52, 2 ** 10]))))
        if dt == 'float16':
            vals = [str(Fraction(v) if abs(Fraction(v)) < 1000 else Fraction(8)) for v in vals]
        return {"kind": "arr", "shape": shape, "dtype": dt, "vals": vals, "bytes": rng.random() < 0.2}
    # sample set
    vt = rng.choice(['SPIN', 'BINARY', 'SPIN', 'BINARY', 'INTEGER', 'REAL', 'DISCRETE'])
    dts = SS_DTYPES['INTEGER' if vt == 'DISCRETE' else vt]
    dtype = rng.choice(dts)
    n = rng.choice([0, 1, 2, 3, 5, 8, 31, 32, 33, 37, 64, 65, 70] if tier == 'quick' else [0, 1, 2, 3, 7, 31, 32, 33, 63, 64, 65, 96, 97, 130])
    nrows = rng.choice([0, 1, 1, 2, 3, 5])
    labels = pick_labels(rng, n, rng.choice(['range', 'int', 'str', 'mixed', 'tuple', 'range', 'sparse', 'sparse', 'perm']))
    rows = []
    for _ in range(nrows):
        row = []
        for _ in range(n):
            if vt == 'BINARY':
                row.append(rng.choice([0, 1]))
            elif vt == 'SPIN':
                row.append(rng.choice([-1, 1]))
            elif vt in ('INTEGER', 'DISCRETE') or dtype.startswith('int'):
                lim = 127 if dtype == 'int8' else 3000
                row.append(rng.choice([0, 1, 2, 3, -1, rng.randint(-lim, lim)]))
            else:
                row.append(str(rng.dyadic(30, 2)))
        rows.append(row)
    vectors = {}
    for name in rng.sample(['extra', 'chain_break_fraction', 'flags', 'mat', 'wide', 'is_feasible'], rng.randint(0, 3)):
        if name == 'mat':
            vectors[name] = {"dtype": rng.choice(['float64', 'int32', 'float32']), "data": [[str(rng.dyadic(9, 1)) for _ in range(2)] for _ in range(nrows)], "shape": [nrows, 2]}
        elif name == 'wide':
            vectors[name] = {"dtype": 'int64', "data": [[rng.randint(-5, 5) for _ in range(3)] for _ in range(nrows)], "shape": [nrows, 3]}
        elif name in ('flags', 'is_feasible'):
            vectors[name] = {"dtype": 'bool', "data": [rng.randint(0, 1) for _ in range(nrows)], "shape": [nrows]}
        else:
            dt = rng.choice(['float64', 'float32', 'int64', 'uint8'])
            vectors[name] = {"dtype": dt, "data": [str(rng.dyadic(9, 2)) if dt.startswith('float') else rng.randint(0, 9) for _ in range(nrows)], "shape": [nrows]}
    info = {}
    if rng.random() < 0.7:
        for k in rng.sample(['timing', 'arr', 'note', 'nested', 'x y'], rng.randint(1, 3)):
            info[k] = gen_info(rng)
    return {"kind": "ss", "vartype": vt, "dtype": dtype, "labels": npify_labels(rng, [enc_label(l) for l in labels], only_km=True), "rows": rows,
            "energy": [str(rng.dyadic(20, 2)) for _ in range(nrows)],
            "nocc": [rng.choice([1, 1, 2, 7, 1000]) for _ in range(nrows)] if rng.random() < 0.6 else None,
            "vectors": vectors, "info": info, "use_bytes": rng.random() < 0.35, "pack": rng.random() < 0.65,
            "json": rng.random() < 0.6, "route": rng.choice(SS_ROUTES),
            # deferred (future-backed) sample sets: how the object handed to the route / to to_serializable is made
            "defer": rng.choice([None, None, None] + DEFER_MODES) if vt in ('SPIN', 'BINARY') or rng.random() < 0.5
            else rng.choice([None] + DEFER_MODES[:4]),
            "defer_main": rng.random() < 0.5, "touch": rng.random() < 0.3,
            "bytes_type": rng.choice(['bytes', 'bytes', 'bytearray']), "wrap": rng.random() < 0.3,
            # the record assembled by the caller with another field order (SampleSet(record, variables, info, vartype))
            "rec_order": rng.choice([None, None, 'energy_first', 'sample_last', 'reversed', 'shuffled']),
            "rec_perm": rng.random()}


# ----------------------------------------------------------------------------
# helpers

def same_label(a, b):
    """equal as labels: Python dict semantics, 7 == 7.0 is one key (Variables itself hands back the
    int 7 for a float label 7.0 stored at position 7), but a number is never a string/tuple/bool"""
    if isinstance(a, tuple) or isinstance(b, tuple):
        return (isinstance(a, tuple) and isinstance(b, tuple) and len(a) == len(b)
                and all(same_label(x, y) for x, y in zip(a, b)))

    def kind(x):
        if isinstance(x, (bool, np.bool_)):
            return 'bool'
        if isinstance(x, (int, np.integer, float, np.floating, Fraction)):
            return 'num'
        return type(x).__name__
    return kind(a) == kind(b) and a == b


def norm_label(l):
    """integral floats (and NumPy numbers) -> int, recursively: one key per Python-equal label"""
    if isinstance(l, tuple):
        return tuple(norm_label(x) for x in l)
    if isinstance(l, (bool, np.bool_)):
        return l
    if isinstance(l, (np.integer,)):
        return int(l)
    if isinstance(l, (float, np.floating, Fraction)):
        return int(l) if float(l).is_integer() else float(l)
    return l


class NormTable(LabelTable):
    def idx(self, l):
        l = dec_label(l) if isinstance(l, (dict, list)) else l
        return super().idx(norm_label(l))


def label_types_ok(o, e, idx=None):
    """e (an entry of an emitted `variable_labels` list) has the value AND the Python type that
    serialize_variable gives the label o: ints stay ints (nested ones too), floats stay floats.
    A top-level float label equal to its own position is handed back by Variables as that int."""
    if isinstance(o, tuple):
        return isinstance(e, (tuple, list)) and len(o) == len(e) and all(label_types_ok(x, y) for x, y in zip(o, e))
    if isinstance(o, (bool, np.bool_)):
        return True
    if isinstance(o, (int, np.integer)):
        return type(e) is int and e == o
    if isinstance(o, (float, np.floating, Fraction)):
        return (type(e) is float and e == o) or (idx is not None and type(e) is int and e == idx and e == o)
    if isinstance(o, str):
        return type(e) is str and e == o
    return True


def as_label(e):
    return tuple(as_label(x) for x in e) if isinstance(e, (tuple, list)) else e


def emitted_labels_fail(orig, emitted, positional):
    """None, or why the emitted label list is not the serialisation of the labels `orig`"""
    orig = list(orig)
    if len(emitted) != len(orig):
        return f"{len(orig)} labels serialised as {len(emitted)} entries"
    for i, e in enumerate(emitted):
        if positional:
            o = orig[i]
            if not same_label(o, as_label(e)):
                return f"label {o!r} serialised as {e!r}"
        else:
            c = [o for o in orig if same_label(o, as_label(e))]
            if not c:
                return f"serialised label {e!r} is none of the variables {orig!r}"
            o = c[0]
        if not label_types_ok(o, e, i):
            return f"label {o!r} ({type(o).__name__}) serialised as {e!r}: integer labels must be emitted as ints, floats as floats"
    return None


def coq_str(s):
    # Coq string literals: bytes; restrict to what round-trips through the literal syntax
    return '"' + s.replace('"', '""') + '"%string'


def coq_lbl(l, j=False):
    L = "J" if j else "L"
    if isinstance(l, (bool, np.bool_)):
        raise AssertionError("boolean label")
    if isinstance(l, (int, np.integer)):
        return f"({L}Int {cz(int(l))})"
    if isinstance(l, (float, np.floating, Fraction)):
        fr = Fraction(float(l))
        return f"({L}Flt {cz(fr.numerator)} {fr.denominator}%positive)"
    if isinstance(l, str):
        return f"({L}Str {coq_str(l)})"
    if isinstance(l, (tuple, list)):
        return f"({'JList' if j else 'LTup'} {clist([coq_lbl(x, j) for x in l])})"
    raise AssertionError(f"unexpected label {l!r}")


def arr_from(spec):
    dt = spec["dtype"] if "dtype" in spec else spec["dt"]
    data = spec.get("__arr__", spec.get("data"))

    def conv(x):
        if isinstance(x, list):
            return [conv(y) for y in x]
        return float(Fraction(x)) if isinstance(x, str) else x
    a = np.array(conv(data), dtype=dt)
    return a.reshape(spec["shape"])


def info_from(j):
    if isinstance(j, dict):
        if "__arr__" in j:
            return arr_from(j)
        if "__np__" in j:
            return np.dtype(j["__np__"]).type(float(Fraction(j["v"])) if isinstance(j["v"], str) else j["v"])
        return {k: info_from(v) for k, v in j.items()}
    if isinstance(j, list):
        return [info_from(x) for x in j]
    return j


def diff_arrays(name, a, b, dtype=True):
    if not isinstance(b, np.ndarray):
        return f"{name}: not an array after the round trip ({type(b).__name__})"
    if a.shape != b.shape:
        return f"{name}: shape {a.shape} -> {b.shape}"
    if dtype and a.dtype != b.dtype:
        return f"{name}: dtype {a.dtype} -> {b.dtype}"
    if a.tolist() != b.tolist():
        return f"{name}: values {a.tolist()!r} -> {b.tolist()!r}"
    return None


def diff_info(path, a, b):
    if isinstance(a, np.ndarray):
        return diff_arrays(path, a, b)
    if isinstance(a, dict):
        if not isinstance(b, dict) or list(a.keys()) != list(b.keys()):
            return f"{path}: keys {list(a) if isinstance(a, dict) else a!r} -> {list(b) if isinstance(b, dict) else b!r}"
        for k in a:
            d = diff_info(f"{path}[{k!r}]", a[k], b[k])
            if d:
                return d
        return None
    if isinstance(a, list):
        if not isinstance(b, list) or len(a) != len(b):
            return f"{path}: list {a!r} -> {b!r}"
        for i, (x, y) in enumerate(zip(a, b)):
            d = diff_info(f"{path}[{i}]", x, y)
            if d:
                return d
        return None
    if isinstance(a, np.generic) and not isinstance(a, np.bool_):
        # a NumPy scalar comes back as the Python number of the same kind and value
        want = int if isinstance(a, np.integer) else float
        if not (type(b) is want or type(b) is type(a)) or b != a:
            return f"{path}: {a!r} ({type(a).__name__}) -> {b!r} ({type(b).__name__})"
        return None
    if type(a) is not type(b) or a != b:
        return f"{path}: {a!r} -> {b!r}"
    return None


def diff_samplesets(a, b, what):
    """field by field, exact values; never SampleSet.__eq__"""
    la, lb = list(a.variables), list(b.variables)
    if len(la) != len(lb) or not all(same_label(x, y) for x, y in zip(la, lb)):
        return f"{what}: variables {la!r} -> {lb!r}"
    if a.vartype is not b.vartype:
        return f"{what}: vartype {a.vartype} -> {b.vartype}"
    if sorted(a.record.dtype.names) != sorted(b.record.dtype.names):    # the order of the fields is the caller's
        return f"{what}: data vectors {a.record.dtype.names} -> {b.record.dtype.names}"
    if len(a) != len(b):
        return f"{what}: rows {len(a)} -> {len(b)}"
    for name in a.record.dtype.names:
        d = diff_arrays(f"{what}: vector {name}", np.asarray(a.record[name]), np.asarray(b.record[name]))
        if d:
            return d
    return diff_info(f"{what}: info", a.info, b.info)


class ArrayTable:
    """numbers arrays: equal dtype, shape and values -> the same number"""
    def __init__(self):
        self.items = []

    def idx(self, a):
        for k, b in enumerate(self.items):
            if a.dtype == b.dtype and a.shape == b.shape and a.tolist() == b.tolist():
                return k
        self.items.append(a)
        return len(self.items) - 1


ARRAY_DOC_KEYS = ["type", "data", "data_type", "shape", "use_bytes"]


def coq_info(x, AT, emitted=False):
    """python info value -> Coq `tree nat nat` term.  In an emitted document a dict with exactly the
    entries of serialize_ndarray's result is rendered as type='array' + the payload leaf of its array."""
    if isinstance(x, np.ndarray):
        return f"(iArr {cnat(AT.idx(x))})"
    if isinstance(x, (bool, np.bool_)):
        return f"(iBool {cbool(bool(x))})"
    if isinstance(x, (int, np.integer)):
        return f"(iInt {cz(int(x))})"
    if isinstance(x, (float, np.floating)):
        return f"(iFloat {cq(Fraction(float(x)))})"
    if isinstance(x, str):
        return f"(iStr {coq_str(x)})"
    if x is None:
        return "iNone"
    if isinstance(x, (list, tuple)):
        return f"(iList {clist([coq_info(y, AT, emitted) for y in x])})"
    if isinstance(x, dict):
        if emitted and list(x.keys()) == ARRAY_DOC_KEYS and x["type"] == "array":
            a = decode_ndarray_doc(x)
            return "(iDict %s)" % clist([cpair(coq_str("type"), "(iStr %s)" % coq_str("array")),
                                         cpair(coq_str("payload"), f"(iDoc {cnat(AT.idx(a))})")])
        for k in x:
            if not isinstance(k, str):
                raise AssertionError(f"non-string key {k!r}")
        return "(iDict %s)" % clist([cpair(coq_str(k), coq_info(v, AT, emitted)) for k, v in x.items()])
    raise AssertionError(f"unexpected info value {x!r}")


def coq_rows(arr):
    return clist([clist([cq(Fraction(x)) for x in row]) for row in arr.tolist()])


def decode_ndarray_doc(doc):
    """the numbers inside a serialize_ndarray document, without dimod's own decoder"""
    if doc["use_bytes"]:
        return np.frombuffer(bytes(doc["data"]), dtype=doc["data_type"]).reshape(doc["shape"])
    return np.asarray(doc["data"], dtype=doc["data_type"]).reshape(doc["shape"])


def words_term(arr, nrows):
    if arr.size == 0:
        return "(Packed %s)" % clist(["[]"] * nrows)
    return "(Packed %s)" % clist([clist([f"{int(w)}%N" for w in row]) for row in arr.reshape(nrows, -1).tolist()])


def vt_name(vt):
    return 'INTEGER' if vt in ('DISCRETE',) else vt


# ----------------------------------------------------------------------------
# independence of what came back: change the copy, the original keeps its earlier snapshot

FRESH = [('__fresh__', 0), ('__fresh__', 1)]


def bqm_snapshot(m):
    return ([repr(norm_label(v)) for v in m.variables], m.vartype.name,
            [(repr(norm_label(v)), float(m.get_linear(v))) for v in m.variables],
            sorted((sorted([repr(norm_label(u)), repr(norm_label(v))]), float(b)) for u, v, b in m.iter_quadratic()),
            float(m.offset))


def mutate_bqm_copy(bqm, new, route):
    """relabel / add / remove a variable and move the offset on what came back; None or why the ORIGINAL changed"""
    before = bqm_snapshot(bqm)
    try:
        if new.num_variables:
            new.relabel_variables({next(iter(new.variables)): FRESH[0]}, inplace=True)
        new.add_variable(FRESH[1], 1.5)
        if new.num_variables > 1:
            new.add_quadratic(FRESH[1], next(iter(new.variables)), -2.0)
        new.offset = new.offset + 1
        if new.num_variables > 2:
            new.remove_variable(list(new.variables)[1])
    except Exception as e:
        return f"the BQM that came back ({route}) cannot be modified: {type(e).__name__}: {e}"
    # labels first: an original whose label table moved under it must not be asked for its biases
    labels_after = [repr(norm_label(v)) for v in bqm.variables]
    if labels_after != before[0] or bqm.num_variables != len(before[0]):
        return (f"changing the BQM that came back ({route}) changed the labels of the original: "
                f"{before[0]!r} -> {labels_after!r} (num_variables {bqm.num_variables})")
    after = bqm_snapshot(bqm)
    if after != before:
        k = next(i for i in range(len(before)) if before[i] != after[i])
        return f"changing the BQM that came back ({route}) changed the original: {before[k]!r} -> {after[k]!r}"
    return None


def mutate_ss_copy(ref, orig, other, route):
    before_vars = list(orig.variables)
    try:
        if len(other.variables):
            other.relabel_variables({other.variables[0]: FRESH[0]})
        other.info['__changed__'] = 1
        try:
            if len(other):
                other.record.energy[0] = other.record.energy[0] + 1
                if len(other.variables):
                    other.record.sample[0, 0] = other.record.sample[0, 0] + 1
        except ValueError:
            pass       # read-only buffers (frombuffer of a bytes payload)
    except Exception as e:
        return f"the sample set that came back ({route}) cannot be modified: {type(e).__name__}: {e}"
    return diff_samplesets(ref, orig, f"the original after the {route} result was modified")


# ----------------------------------------------------------------------------
# BQM

def build_bqm(c):
    dtype = {'float64': np.float64, 'float32': np.float32, 'object': object}[c.get("dtype", 'float64')]
    num = (lambda x: (int(F(x)) if F(x).denominator == 1 else float(F(x)))) if c.get("obj_ints") else (lambda x: float(F(x)))
    bqm = dimod.BinaryQuadraticModel(c["vartype"], dtype=dtype)
    for l in c["labels"]:
        bqm.add_variable(dec_label(l))
    for l, b in c["lin"]:
        bqm.add_linear(dec_label(l), num(b))
    for u, v, b in c["quad"]:
        bqm.add_quadratic(dec_label(u), dec_label(v), num(b))
    bqm.offset = num(c["off"])
    return bqm


def obs_bqm(m, T):
    lin = clist([cpair(cnat(T.idx(v)), cq(F(b))) for v, b in m.linear.items()])
    quad = clist([f"({cnat(T.idx(u))}, {cnat(T.idx(v))}, {cq(F(b))})" for (u, v), b in m.quadratic.items()])
    return f"(mkObs {cq(F(m.offset))} {lin} {quad})"


def run_bqm(c):
    bqm = build_bqm(c)
    route = c["route"]
    root = bqm
    if c.get("view"):
        # the other-vartype view of the model (same adjacency, transformed on the fly); what is
        # serialised / copied must be what the view itself shows
        bqm = bqm.spin if c["view"] == 'spin' else bqm.binary
    feats = {"kind": "bqm", "route": route, "dtype": c["dtype"], "view": c.get("view") or "no",
             "nested_tuple_label": any(isinstance(l, tuple) and any(isinstance(x, tuple) for x in l) for l in bqm.variables),
             "obj_ints": bool(c.get("obj_ints"))}
    if c.get("obj_ints"):
        # descriptive only (the two defects in this region were repaired in 77087ee)
        ld = np.asarray([bqm.get_linear(v) for v in bqm.variables])
        qd = np.asarray([b for _, _, b in bqm.iter_quadratic()])
        feats["int_linear_fractional_offset"] = bool(ld.dtype.kind == 'i' and F(c["off"]).denominator != 1)
        feats["mixed_int_float_vectors"] = bool(ld.dtype != qd.dtype)
        common = np.result_type(*(np.asarray(a).dtype for a in (ld, qd, bqm.offset)))
        feats["obj_bqm_bytes_all_int"] = bool(route == 'ser_bytes' and common.kind in 'iu')
    doc = None
    try:
        if route.startswith('ser'):
            kw = {}
            if c.get("bytes_type") == 'bytearray':
                kw["bytes_type"] = bytearray
            if c.get("bias_dtype"):
                kw["bias_dtype"] = np.float32      # deprecated, documented to do nothing
            with warnings.catch_warnings():
                warnings.simplefilter("ignore", DeprecationWarning)
                doc = bqm.to_serializable(use_bytes=(route == 'ser_bytes'), **kw)
            if route == 'ser':
                new = dimod.BinaryQuadraticModel.from_serializable(doc)
            elif route == 'ser_json':
                new = dimod.BinaryQuadraticModel.from_serializable(json.loads(json.dumps(doc)))
            elif route == 'ser_json_decoder':
                new = json.loads(json.dumps(doc), cls=DimodDecoder)
            else:
                new = dimod.BinaryQuadraticModel.from_serializable(doc)
        elif c.get("boxed") and (route == 'deepcopy' or route.startswith('pickle')):
            feats["boxed"] = True
            box = {"root": root, "s": root.spin, "it": bqm, "b": root.binary, "again": [root, bqm]}
            box2 = copy.deepcopy(box) if route == 'deepcopy' else pickle.loads(pickle.dumps(box, protocol=int(route[6:])))
            new = box2["it"]
            for k_, orig_ in (("root", root), ("s", root.spin), ("b", root.binary)):
                got_ = box2[k_]
                if got_.vartype is not orig_.vartype or not got_.is_equal(orig_) or list(got_.variables) != list(orig_.variables):
                    return {"py_fail": f"copying a container that holds a model and its views ({route}): entry {k_!r} came back as "
                                       f"{got_.vartype.name} {dict(got_.linear)} {got_.offset}, was {orig_.vartype.name} {dict(orig_.linear)} {orig_.offset}",
                            "features": feats}
            if not box2["again"][0].is_equal(root) or not box2["again"][1].is_equal(bqm) or root.vartype is not gen.VT[c["vartype"]]:
                return {"py_fail": f"copying a container that holds a model twice ({route}) changed it", "features": feats}
        elif route.startswith('pickle'):
            new = pickle.loads(pickle.dumps(bqm, protocol=int(route[6:])))
        elif route == 'deepcopy':
            new = copy.deepcopy(bqm)
        elif route == 'copy':
            new = copy.copy(bqm)
        else:
            new = bqm.copy()
    except Exception as e:
        return {"py_fail": f"BQM round trip ({route}) raised {type(e).__name__}: {e}", "features": feats}
    if not isinstance(new, dimod.BinaryQuadraticModel):
        return {"py_fail": f"BQM round trip ({route}) returned a {type(new).__name__}", "features": feats}
    # labels: numbered in the order of the serialised label list when there is one
    if doc is not None:
        try:
            order = list(iter_deserialize_variables(json.loads(json.dumps(doc["variable_labels"]))))
        except TypeError as e:
            return {"py_fail": f"BQM.to_serializable: the variable_labels of the document are not JSON-serialisable: {e}", "features": feats}
        ok = len(order) == len(bqm.variables) and all(any(same_label(x, y) for y in bqm.variables) for x in order)
        if not ok:
            return {"py_fail": f"serialised labels {order!r} are not the variables {list(bqm.variables)!r}", "features": feats}
        bad = emitted_labels_fail(bqm.variables, doc["variable_labels"], False)
        if bad:
            return {"py_fail": "BQM.to_serializable: " + bad, "features": feats}
    else:
        order = list(bqm.variables)
    T = NormTable(order)
    n = len(T)
    py_fail = None
    la, lb = list(bqm.variables), list(new.variables)
    if len(la) != len(lb) or not all(any(same_label(x, y) for y in lb) for x in la):
        py_fail = f"variables {la!r} -> {lb!r} ({route})"
    elif route in ('ser_bytes', 'deepcopy', 'copy', 'method_copy') or route.startswith('pickle'):
        if c["dtype"] != 'object' and not c.get("view") and new.dtype != bqm.dtype:
            py_fail = f"dtype {bqm.dtype} -> {new.dtype} ({route})"
        if route in ('deepcopy', 'copy', 'method_copy') and la != lb:
            py_fail = f"variable order {la!r} -> {lb!r} ({route})"
    vec = "None"
    if doc is not None:
        if doc["use_bytes"]:
            ld = np.frombuffer(bytes(doc["linear_biases"]), dtype=doc["bias_type"])
            qd = np.frombuffer(bytes(doc["quadratic_biases"]), dtype=doc["bias_type"])
            ir = np.frombuffer(bytes(doc["quadratic_head"]), dtype=doc["index_type"])
            ic = np.frombuffer(bytes(doc["quadratic_tail"]), dtype=doc["index_type"])
        else:
            ld, qd, ir, ic = doc["linear_biases"], doc["quadratic_biases"], doc["quadratic_head"], doc["quadratic_tail"]
        if doc["num_variables"] != len(la) or doc["num_interactions"] != bqm.num_interactions or doc["variable_type"] != bqm.vartype.name:
            py_fail = py_fail or f"document header {doc['num_variables']}, {doc['num_interactions']}, {doc['variable_type']}"
        vec = "(Some (mkBvec %s %s %s))" % (
            clist([cq(F(x)) for x in ld]),
            clist([f"({cnat(int(r))}, {cnat(int(k))}, {cq(F(b))})" for r, k, b in zip(ir, ic, qd)]),
            cq(F(doc["offset"])))
    coq = f"(KBqm {cnat(n)} {bqm.vartype.name} {new.vartype.name} {obs_bqm(bqm, T)} {vec} {obs_bqm(new, T)})"
    # multi-step: what came back is then modified; the original must keep its snapshot
    py_fail = py_fail or mutate_bqm_copy(bqm, new, route)
    return {"coq": coq, "py_fail": py_fail, "features": feats, "nontrivial": n > 0}


def run_coo(c):
    c = dict(c, dtype='float64')
    bqm = build_bqm(c)
    feats = {"kind": "coo", "header": c["header"]}
    try:
        s = coo.dumps(bqm, vartype_header=c["header"])
        new = coo.loads(s) if c["header"] else coo.loads(s, vartype=bqm.vartype.name)
    except Exception as e:
        return {"py_fail": f"COO round trip raised {type(e).__name__}: {e}", "features": feats}
    T = NormTable(range(15))
    py_fail = None
    for v in new.variables:
        if not (isinstance(v, int) and v in bqm.variables):
            py_fail = f"COO: new variable {v!r}"
    coq = f"(KCoo 15%nat {bqm.vartype.name} {new.vartype.name} {obs_bqm(bqm, T)} {obs_bqm(new, T)})"
    # line level: the text itself against the Coq printer, the Coq reader on it against the loaded model
    extra = []
    hdr, lines = "None", []
    try:
        for k, line in enumerate(s.split('\n')):
            if line.startswith('#'):
                if k != 0 or line != f"# vartype={bqm.vartype.name}":
                    raise ValueError(f"unexpected header {line!r}")
                hdr = f"(Some {bqm.vartype.name})"
            elif line.strip():
                u, v, b = line.split()
                lines.append(f"({cnat(int(u))}, {cnat(int(v))}, {cq(Fraction(float(b)))})")
        cl = []
        for line in s.split('\n'):
            if line.strip() and not line.startswith('#'):
                u, v, b = line.split()
                m6 = Fraction(float(b)) * 10 ** 6
                if m6.denominator != 1:
                    raise ValueError(f"bias {b!r} has more than six decimals")
                cl.append(f"({coq_str(line)}, {int(u)}%N, {int(v)}%N, {cz(int(m6))})")
        extra.append(f"(KCooLines {clist(cl)})")
        extra.append(f"(KCooText 15%nat {bqm.vartype.name} {cbool(c['header'])} {obs_bqm(bqm, T)} {hdr} {clist(lines)} "
                     f"{new.vartype.name} {obs_bqm(new, T)})")
    except ValueError as e:
        py_fail = py_fail or f"COO text is not made of `u v bias` lines: {e}"
    return {"coq": coq, "extra_coq": extra, "py_fail": py_fail, "features": feats, "nontrivial": bqm.num_variables > 0}


# ----------------------------------------------------------------------------
# labels / arrays

def run_labels(c):
    labels = []
    for j in c["labels"]:
        if isinstance(j, dict) and "np" in j:
            labels.append(np.dtype(j["np"]).type(j["v"]))
        else:
            labels.append(dec_label(j))
    feats = {"kind": "labels", "json": c["json"]}
    try:
        v = Variables(labels)
        ser = v.to_serializable()
        ser_raw = ser
        if c["json"]:
            ser = json.loads(json.dumps(ser))
        back = list(iter_deserialize_variables(ser))
        v2 = Variables(back)
    except Exception as e:
        return {"py_fail": f"Variables.to_serializable round trip raised {type(e).__name__}: {e}", "features": feats}
    py_fail = None
    if list(v2) != list(v) or len(v2) != len(v):   # Variables drops duplicate labels (2.5 and np.float32(2.5) are one label)
        py_fail = f"labels {labels!r} -> {list(v2)!r}"
    py_fail = py_fail or emitted_labels_fail(list(v), ser_raw, True)
    if py_fail is None and not all(same_label(x, y) for x, y in zip(v, v2)):
        py_fail = f"labels {list(v)!r} -> {list(v2)!r}"
    coq = f"(KLabels {clist([coq_lbl(l) for l in v])} {clist([coq_lbl(l, True) for l in ser])} {clist([coq_lbl(l) for l in back])})"
    return {"coq": coq, "py_fail": py_fail, "features": feats, "nontrivial": len(labels) > 0}


def nested(x, kind):
    """python nested list -> farr / jarr term"""
    if len(x) and isinstance(x[0], list):
        return f"({'FNest' if kind == 'f' else 'JNest'} {clist([nested(y, kind) for y in x])})"
    if kind == 'f':
        return f"(FRow {clist([cq(Fraction(y)) for y in x])})"
    return "(JRow %s)" % clist([f"(JI {cz(y)})" if isinstance(y, int) else f"(JF {cq(Fraction(y))})" for y in x])


def run_arr(c):
    a = arr_from({"dtype": c["dtype"], "data": c["vals"], "shape": c["shape"]})
    feats = {"kind": "arr", "bytes": c["bytes"], "dtype": c["dtype"]}
    try:
        doc = serialize_ndarray(a, use_bytes=c["bytes"])
        if not c["bytes"]:
            doc2 = json.loads(json.dumps(doc))
        else:
            doc2 = doc
        back = deserialize_ndarray(doc2)
    except Exception as e:
        return {"py_fail": f"serialize_ndarray round trip raised {type(e).__name__}: {e}", "features": feats}
    py_fail = diff_arrays("array", a, back)
    if c["bytes"]:
        return {"coq": None, "py_fail": py_fail, "features": feats, "nontrivial": a.size > 0}
    coq = f"(KArr {nested(a.tolist(), 'f')} {nested(doc['data'], 'j')} {nested(back.tolist(), 'f')})"
    return {"coq": coq, "py_fail": py_fail, "features": feats, "nontrivial": a.size > 0}


# ----------------------------------------------------------------------------
# sample sets

def build_ss(c):
    labels = [dec_label(l) for l in c["labels"]]
    n = len(labels)
    rows = [[float(Fraction(x)) if isinstance(x, str) else x for x in row] for row in c["rows"]]
    arr = np.array(rows, dtype=c["dtype"]).reshape(len(rows), n)
    vt = getattr(dimod, 'DISCRETE', 'INTEGER') if c["vartype"] == 'DISCRETE' else c["vartype"]
    vectors = {name: arr_from(spec) for name, spec in c["vectors"].items()}
    kw = {}
    if c["nocc"] is not None:
        kw["num_occurrences"] = c["nocc"]
    base = dimod.SampleSet.from_samples((arr, labels), vt, energy=[float(Fraction(e)) for e in c["energy"]],
                                        info=info_from(c["info"]), **kw, **vectors)
    mode = c.get("rec_order")
    if not mode:
        return base
    # the same rows in a record assembled by the caller, fields in another order ('sample' not first)
    names = list(base.record.dtype.names)
    if mode == 'energy_first':
        order = ['energy'] + [x for x in names if x != 'energy']
    elif mode == 'sample_last':
        order = [x for x in names if x != 'sample'] + ['sample']
    elif mode == 'reversed':
        order = names[::-1]
    else:
        k = int(c.get("rec_perm", 0.5) * len(names)) % len(names)
        order = names[k:] + names[:k]
    dt = np.dtype([(x, base.record.dtype.fields[x][0]) for x in order])
    rec = np.empty(base.record.shape, dtype=dt).view(np.recarray)
    for x in order:
        rec[x] = base.record[x]
    return dimod.SampleSet(rec, base.variables, base.info, base.vartype)


class FutId(concurrent.futures.Future):
    def wait_id(self, timeout=None):
        return "0a1b-problem-id"


def build_deferred(c):
    """the sample set of the case behind SampleSet.from_future, never touched"""
    mode = c.get("defer")
    base = build_ss(c)
    if not mode:
        return base
    fut = FutId() if mode == 'future_id' else concurrent.futures.Future()
    if mode == 'hook':
        # the future's result is not a sample set: a lambda hook (unpicklable) builds it
        ss = dimod.SampleSet.from_future(fut, lambda f: dimod.SampleSet(*f.result()))
        fut.set_result((base.record, base.variables, base.info, base.vartype))
        return ss
    ss = dimod.SampleSet.from_future(fut)
    if mode in ('future', 'future_id'):
        fut.set_result(base)
        return ss
    # from here on: operations applied while the future is NOT done (they install further hooks)
    if mode == 'relabel_inplace':
        ss = ss.relabel_variables({}, inplace=True)
    elif mode == 'relabel_copy':
        ss = ss.relabel_variables({}, inplace=False)
    elif mode == 'change_vartype':
        ss = ss.change_vartype(base.vartype, inplace=True)
    elif mode == 'nested':
        ss = dimod.SampleSet.from_future(ss, lambda inner: inner)
    fut.set_result(base)
    return ss


def run_ss(c):
    try:
        ref = build_ss(c)
    except ValueError as e:
        # e.g. labels ('t', np.int64(1)) and ('t', (1, 2)): the label sort of from_samples compares a NumPy scalar with
        # a tuple (reported finding np_member_label_sort; kept out of the random stream by npify(only_km=True))
        return {"py_fail": f"SampleSet.from_samples raised {type(e).__name__}: {e}",
                "features": {"kind": "ss", "np_member_label_sort": "ambiguous" in str(e)}}
    try:
        ss = build_deferred(c) if c.get("defer") and c.get("defer_main") else ref
        route_obj = build_deferred(c) if c.get("defer") else ss
        if c.get("defer") and c.get("touch"):
            len(route_obj), route_obj.record   # used (hence resolved) before it is copied / pickled
    except Exception as e:
        return {"py_fail": f"SampleSet.from_future ({c.get('defer')}) raised {type(e).__name__}: {e}",
                "features": {"kind": "ss", "defer": c.get("defer") or "no"}}
    # (nothing below may touch a deferred `ss` before to_serializable does)
    vtn = ref.vartype.name if ref.vartype.name in ('SPIN', 'BINARY', 'INTEGER', 'REAL') else vt_name(c["vartype"])
    sample = ref.record.sample
    n = len(ref.variables)
    intd = bool(np.issubdtype(sample.dtype, np.integer) or np.issubdtype(sample.dtype, np.bool_))
    def has_bool(j):
        if isinstance(j, dict):
            return any(has_bool(v) for k, v in j.items() if k != "__arr__")
        if isinstance(j, list):
            return any(has_bool(v) for v in j)
        return isinstance(j, bool)
    def has_marker(j):
        if isinstance(j, dict):
            if "__arr__" in j:
                return False
            return j.get("type") in ("array", "SampleSet", "BinaryQuadraticModel") or any(has_marker(v) for v in j.values())
        if isinstance(j, list):
            return any(has_marker(v) for v in j)
        return False
    feats = {"kind": "ss", "info_bool": has_bool(c["info"]), "info_type_marker": has_marker(c["info"]), "vartype": c["vartype"], "use_bytes": c["use_bytes"], "pack": c["pack"], "route": c["route"],
             "two_words": n > 32, "dtype": str(sample.dtype), "defer": c.get("defer") or "no"}
    bt = {"bytes_type": bytearray} if c.get("bytes_type") == 'bytearray' else {}
    try:
        doc = ss.to_serializable(use_bytes=c["use_bytes"], pack_samples=c["pack"], **bt)
        doc2 = json.loads(json.dumps(doc)) if (c["json"] and not c["use_bytes"]) else doc
        new = dimod.SampleSet.from_serializable(doc2)
    except Exception as e:
        return {"py_fail": f"SampleSet serializable round trip raised {type(e).__name__}: {e}", "features": feats}
    py_fail = diff_samplesets(ref, new, "to/from_serializable")
    if ss is not ref:
        py_fail = py_fail or diff_samplesets(ref, ss, "SampleSet.from_future(...) resolved")
    emitted_arr = decode_ndarray_doc(doc["sample_data"])
    if doc["sample_packed"]:
        if emitted_arr.dtype != np.uint32:
            py_fail = py_fail or f"packed words have dtype {emitted_arr.dtype}"
        emitted = words_term(emitted_arr, len(ss))
    else:
        emitted = f"(Raw {coq_rows(emitted_arr.reshape(len(ss), n))})"
    if (doc["num_variables"], doc["num_rows"], doc["variable_type"], doc["sample_type"]) != (n, len(ss), ss.vartype.name, sample.dtype.name):
        py_fail = py_fail or "document header does not describe the sample set"
    bad = emitted_labels_fail(ss.variables, doc["variable_labels"], True)
    if bad:
        py_fail = py_fail or ("SampleSet.to_serializable: " + bad)
    coq = (f"(KSS {vtn} {cbool(intd)} {cbool(c['pack'])} {cnat(n)} {coq_rows(sample)} {emitted} "
           f"{new.vartype.name if new.vartype.name in ('SPIN', 'BINARY', 'INTEGER', 'REAL') else 'INTEGER'} {coq_rows(new.record.sample)})")
    extra = []
    try:
        # the labels through the same document, against the Coq label model (JInt is not JFlt)
        extra.append(f"(KLabels {clist([coq_lbl(l) for l in ss.variables])} "
                     f"{clist([coq_lbl(l, True) for l in doc2['variable_labels']])} {clist([coq_lbl(l) for l in new.variables])})")
    except AssertionError as e:
        py_fail = py_fail or f"labels cannot be rendered: {e}"
    try:
        # the info field, decided by the Coq walk (Model/InfoSer.v) like the samples
        AT = ArrayTable()
        extra.append(f"(KInfo {coq_info(ss.info, AT)} {coq_info(doc2['info'], AT, True)} {coq_info(new.info, AT)})")
    except (AssertionError, KeyError, ValueError, TypeError) as e:
        py_fail = py_fail or f"info cannot be rendered: {type(e).__name__}: {e}"
    route = c["route"]
    if route != 'none':
        try:
            if route == 'encoder':
                if c.get("wrap"):
                    # a sample set nested inside other JSON data
                    wtext = json.dumps({"results": [route_obj, 3], "n": 1}, cls=DimodEncoder)
                    wother = json.loads(wtext, cls=DimodDecoder)
                    other = wother["results"][0]
                    text = json.dumps(json.loads(wtext)["results"][0])
                    if wother["results"][1:] != [3] or wother["n"] != 1:
                        py_fail = py_fail or "DimodDecoder changed the data around a nested sample set"
                else:
                    text = json.dumps(route_obj, cls=DimodEncoder)
                    other = json.loads(text, cls=DimodDecoder)
                d3 = json.loads(text)
                em = decode_ndarray_doc(d3["sample_data"])
                if d3["sample_packed"]:
                    em_t = words_term(em, len(ss))
                else:
                    em_t = f"(Raw {coq_rows(em.reshape(len(ss), n))})"
                extra.append(f"(KSS {vtn} {cbool(intd)} true {cnat(n)} {coq_rows(sample)} {em_t} "
                             f"{other.vartype.name if other.vartype.name in ('SPIN', 'BINARY', 'INTEGER', 'REAL') else 'INTEGER'} {coq_rows(other.record.sample)})")
            elif route.startswith('pickle'):
                other = pickle.loads(pickle.dumps(route_obj, protocol=int(route[6:])))
            elif route == 'deepcopy':
                other = copy.deepcopy(route_obj)
            elif route == 'copy':
                other = copy.copy(route_obj)
            else:
                other = route_obj.copy()
            if not isinstance(other, dimod.SampleSet):
                py_fail = py_fail or f"{route} returned a {type(other).__name__}"
            else:
                py_fail = py_fail or diff_samplesets(ref, other, route)
                if route_obj is not ss:
                    py_fail = py_fail or diff_samplesets(ref, route_obj, f"the deferred original after {route}")
                if route != 'encoder':
                    extra.append(f"(KSS {vtn} {cbool(intd)} false {cnat(n)} {coq_rows(sample)} (Raw {coq_rows(other.record.sample)}) "
                                 f"{other.vartype.name if other.vartype.name in ('SPIN', 'BINARY', 'INTEGER', 'REAL') else 'INTEGER'} {coq_rows(other.record.sample)})")
                # multi-step (after everything has been rendered): modify what came back, the original keeps its snapshot
                if route != 'copy' and py_fail is None:      # copy.copy of a sample set is shallow by design
                    py_fail = mutate_ss_copy(build_ss(c), route_obj, other, route)
        except Exception as e:
            py_fail = py_fail or f"SampleSet round trip ({route}) raised {type(e).__name__}: {e}"
    if py_fail is None:
        py_fail = mutate_ss_copy(build_ss(c), ss, new, "to/from_serializable")
    return {"coq": coq, "extra_coq": extra, "py_fail": py_fail, "features": feats, "nontrivial": len(ss) > 0 and n > 0}


# ----------------------------------------------------------------------------
# the other model classes: pickle / copy / deepcopy

def build_qm(c, e, dtype=None):
    qm = dimod.QuadraticModel(dtype=np.dtype(dtype or c.get("dtype", 'float64')))
    for l, (vt, lb, ub) in zip(c["labels"], c["vts"]):
        kw = {}
        if lb is not None:
            kw = {"lower_bound": lb, "upper_bound": ub}
        qm.add_variable(vt, dec_label(l), **kw)
    for l, b in e["lin"]:
        qm.add_linear(dec_label(l), float(F(b)))
    for u, v, b in e["quad"]:
        qm.add_quadratic(dec_label(u), dec_label(v), float(F(b)))
    qm.offset = float(F(e["off"]))
    return qm


def build_model(c):
    cls = c["cls"]
    if cls == 'qm':
        return build_qm(c, c["obj"])
    if cls == 'cqm':
        cqm = dimod.ConstrainedQuadraticModel()
        cqm.set_objective(build_qm(c, c["obj"], 'float64'))
        for k in c["cons"]:
            kw = {}
            if k["weight"] is not None:
                kw = {"weight": float(F(k["weight"])), "penalty": k["penalty"]}
                if k["penalty"] == 'quadratic' and any(vt[0] not in ('BINARY', 'SPIN') for vt in c["vts"]):
                    kw["penalty"] = 'linear'
            lab = k["label"]
            cqm.add_constraint_from_model(build_qm(c, k, 'float64'), k["sense"], float(F(k["rhs"])),
                                          label=tuple(lab) if isinstance(lab, list) else lab, **kw)
        if c.get("discrete"):
            bins = [dec_label(l) for l, vt in zip(c["labels"], c["vts"]) if vt[0] == 'BINARY']
            if len(bins) >= 2:
                cqm.add_discrete(bins[:2], label='disc')
        return cqm
    if cls == 'dqm':
        dqm = dimod.DiscreteQuadraticModel()
        for l, k in zip(c["labels"], c["ncases"]):
            dqm.add_variable(k, label=dec_label(l))
        labels = [dec_label(l) for l in c["labels"]]
        for l, lin in zip(labels, c["dlin"]):
            dqm.set_linear(l, [float(F(x)) for x in lin])
        for i, j, entries in c["dquad"]:
            if entries:
                dqm.set_quadratic(labels[i], labels[j], {(a, b): float(F(x)) for a, b, x in entries})
        return dqm
    if cls == 'poly':
        terms = {}
        for t, b in c["terms"]:
            terms[tuple(dec_label(l) for l in t)] = float(F(b))
        return dimod.BinaryPolynomial(terms, c["vartype"])
    return Variables([dec_label(l) for l in c["labels"]])


def obs_qm(qm):
    return {"vars": [(norm_label(v), qm.vartype(v).name, float(qm.lower_bound(v)), float(qm.upper_bound(v))) for v in qm.variables],
            "lin": [(norm_label(v), float(qm.get_linear(v))) for v in qm.variables],
            "quad": sorted(((repr(sorted([repr(norm_label(u)), repr(norm_label(v))])), float(b)) for u, v, b in qm.iter_quadratic())),
            "off": float(qm.offset), "dtype": str(qm.dtype)}


def dqm_quad(m, u, v):
    try:
        return m.get_quadratic(u, v)
    except ValueError:      # no interaction between the two variables
        return {}


def obs_model(m):
    if isinstance(m, dimod.QuadraticModel):
        return obs_qm(m)
    if isinstance(m, dimod.ConstrainedQuadraticModel):
        return {"obj": obs_qm(m.objective),
                "vars": [(norm_label(v), m.vartype(v).name, float(m.lower_bound(v)), float(m.upper_bound(v))) for v in m.variables],
                "cons": [(repr(lab), obs_qm(k.lhs), k.sense.value, float(k.rhs)) for lab, k in m.constraints.items()],
                "soft": sorted((repr(lab), float(s.weight), str(s.penalty)) for lab, s in m._soft.items()),
                "discrete": sorted(repr(x) for x in m.discrete)}
    if isinstance(m, dimod.DiscreteQuadraticModel):
        vs = list(m.variables)
        return {"vars": [(norm_label(v), m.num_cases(v)) for v in vs],
                "lin": [[float(x) for x in m.get_linear(v)] for v in vs],
                "quad": [(repr(norm_label(u)), repr(norm_label(v)), sorted((k, float(b)) for k, b in dqm_quad(m, u, v).items()))
                         for i, u in enumerate(vs) for v in vs[i + 1:] if dqm_quad(m, u, v)],
                "off": float(m.offset)}
    if isinstance(m, dimod.BinaryPolynomial):
        return {"terms": sorted((sorted(repr(norm_label(v)) for v in t), float(b)) for t, b in m.items()), "vartype": m.vartype.name}
    return {"labels": [norm_label(v) for v in m], "types": [type(v).__name__ for v in m]}


def run_model(c):
    feats = {"kind": "model", "cls": c["cls"], "route": c["route"]}
    m = build_model(c)
    before = obs_model(m)
    route = c["route"]
    try:
        if route.startswith('pickle'):
            new = pickle.loads(pickle.dumps(m, protocol=int(route[6:])))
        elif route == 'deepcopy':
            new = copy.deepcopy(m)
        elif route == 'copy':
            new = copy.copy(m)
        else:
            new = m.copy()
    except Exception as e:
        return {"py_fail": f"{type(m).__name__} round trip ({route}) raised {type(e).__name__}: {e}", "features": feats}
    if type(new) is not type(m):
        return {"py_fail": f"{type(m).__name__} ({route}) came back as {type(new).__name__}", "features": feats}
    try:
        after = obs_model(new)
        again = obs_model(m)
    except Exception as e:
        return {"py_fail": f"the {type(m).__name__} that came back ({route}) cannot be observed: {type(e).__name__}: {e}", "features": feats}
    py_fail = None
    if after != before:
        k = next(k for k in before if before[k] != after.get(k))
        py_fail = f"{type(m).__name__} ({route}): {k} {before[k]!r} -> {after.get(k)!r}"
    elif again != before:
        py_fail = f"{type(m).__name__} ({route}) changed the original"
    elif route != 'copy' and not isinstance(m, (Variables, dimod.BinaryPolynomial)) and len(before.get("vars", [])):
        # independence of the copy: a change to it does not reach the original
        try:
            if isinstance(new, dimod.QuadraticModel):
                new.offset = new.offset + 1
                new.set_linear(new.variables[0], 77.0)
                new.relabel_variables({new.variables[0]: FRESH[0]}, inplace=True)
                new.add_variable('BINARY', FRESH[1])
            elif isinstance(new, dimod.ConstrainedQuadraticModel):
                new.objective.offset = new.objective.offset + 1
                new.relabel_variables({new.variables[0]: FRESH[0]}, inplace=True)
                new.add_variable('BINARY', FRESH[1])
            elif isinstance(new, dimod.DiscreteQuadraticModel):
                new.offset = new.offset + 1
                new.relabel_variables({new.variables[0]: FRESH[0]}, inplace=True)
                new.add_variable(2, label=FRESH[1])
            if obs_model(m) != before:
                py_fail = f"{type(m).__name__} ({route}): changing the copy changed the original"
        except Exception as e:
            py_fail = f"{type(m).__name__} ({route}): the copy cannot be modified: {type(e).__name__}: {e}"
    return {"coq": None, "py_fail": py_fail, "features": feats, "nontrivial": bool(c["labels"])}


def run_case(c):
    k = c["kind"]
    if k == "model":
        return run_model(c)
    if k == "bqm":
        # the original model must be observable (else: harness error); a failure while observing what
        # came back is a property failure (e.g. an internally inconsistent label table)
        b0 = build_bqm(c)
        [b0.get_linear(v) for v in b0.variables], list(b0.iter_quadratic())
        try:
            return run_bqm(c)
        except (KeyError, ValueError, IndexError) as e:
            import traceback
            return {"py_fail": f"the BQM that came back ({c['route']}) cannot be observed: {type(e).__name__}: {e} | "
                               + traceback.format_exc().strip().splitlines()[-3].strip(),
                    "features": {"kind": "bqm", "route": c["route"], "dtype": c["dtype"], "unobservable": True}}
    if k == "coo":
        return run_coo(c)
    if k == "labels":
        return run_labels(c)
    if k == "arr":
        return run_arr(c)
    return run_ss(c)


if __name__ == "__main__":
    wlib.main(gen_case, run_case)
