PID = "C18"
WORKER = "w_c18"
HEADER = "From Coq Require Import List ZArith QArith Qcanon.\nFrom Dimod Require Import Base.Util Model.Poly Model.Equal Model.ChkC18.\nImport ListNotations."
CHECK_FN = "check"
N_QUICK = 4000
N_THOROUGH = 100000
SHRINK_KEYS = []
SHARD = 250
RULE = ("ordered pairs from {BQM float64/float32/object dtype, BQM vartype views (identity and converting), QM float64/float32, "
        "CQM, CQM objective view, CQM constraint view, numbers, foreign objects}: the same content in another representation, "
        "single-field mutations of a copy (offset, one linear bias, one quadratic bias, one label, one vartype, a zero-bias "
        "interaction on one side, a dropped variable / interaction, permuted variable order; for a CQM one sense, one rhs, one "
        "constraint label, permuted constraints, one lhs bias, a dropped / added constraint, a soft weight, differing weights / penalty kinds, a discrete mark on one side only, an unused CQM variable), equal shapes with "
        "disjoint labels, unrelated models, empty and constant models against numbers; observes a.is_equal(b), b.is_equal(a), "
        "== and != on BQM receivers, is_almost_equal for places 0, 3, 7; any exception is a violation; "
        "a case is non-trivial when the receiver is a model; distinct by canonical JSON of the case")
TRUSTED = ["model: coq/theories/Model/Equal.v, ChkC18.v (hand written, tied by this correspondence)",
           "float arithmetic / rounding of the implementation is exact on the generated dyadic data (not verified)"]
ASSUMPTIONS = ["the coefficients, labels and vartypes a model reports are the ones equality is about",
               "variable bounds, soft-constraint weights and discrete markers are outside the documented scope of equality",
               "round(a - b, places) is modelled on exact rationals (rounds to zero iff |a - b| * 10^places <= 1/2, ties to even); the float subtraction and numpy's multiply-rint-divide rounding are exact on the generated dyadic data"]
PARTIAL = []
