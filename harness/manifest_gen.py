#!/usr/bin/env python3
"""Regenerates /verif/MANIFEST.json from the table below (run after adding a check)."""
import json, os, importlib, sys
ROOT = os.path.dirname(os.path.dirname(os.path.abspath(__file__)))
sys.path.insert(0, os.path.join(ROOT, "harness"))
props = [json.loads(l) for l in open(os.path.join(ROOT, "properties.jsonl"))]

CLAIMS = json.load(open(os.path.join(ROOT, "harness", "claims.json")))

checks, na = [], []
for p in props:
    pid = p["id"]
    c = CLAIMS.get(pid)
    if not c:
        na.append({"property_id": pid, "reason": "check not built yet (work in progress; the property is intended to be claimed, see DESIGN.md section 3)"})
        continue
    checks.append({
        "property_id": pid,
        "quick_cmd": f"./check {pid} --tier quick",
        "thorough_cmd": f"./check {pid} --tier thorough",
        "evidence_file": f"evidence/{pid}.json",
        "replay_cmd_template": f"./check {pid} --replay {{path}}",
        "engine": "coq-proof+correspondence",
        "level_claimed": {"category": "proof", "text": c["text"], "design_ref": c.get("design_ref", "DESIGN.md section 3, " + pid)},
        "level_note": c["note"],
        "technique": c.get("technique", "machine-checked proof in Coq 8.16 of the property on a hand-written executable model, tied to the code by a correspondence check evaluated inside Coq (vm_compute) on observations of the freshly built implementation"),
    })
m = {"version": 1, "setup_cmd": "./check --setup",
     "hooks": {"guard": "DIMOD_VERIF",
               "enable": "no source hooks in /repo: checks build a scratch copy of /repo's working tree (setup.py build_ext) under /var/tmp/dimod-verif, export DIMOD_VERIF=1 to the workers and observe internal state through existing private accessors (_ineighborhood, _ivarinfo, _iindices, Variables.__reduce__)",
               "baseline_off_cmd": "cd /repo && /venv/bin/python -m pytest -ra -q -p no:cacheprovider --timeout=900 --continue-on-collection-errors",
               "source_commits": [], "add_only": True},
     "engines": [{"name": "coq-proof+correspondence", "path": "check", "serves_properties": [c["property_id"] for c in checks],
                  "kind_free_text": "Coq 8.16 development under coq/ (models, proofs, property theorems) + Python harness that observes the implementation and has Coq evaluate model and oracle on the observations"}],
     "checks": checks, "not_applicable": na,
     "notes": "KNOWN_FINDINGS.json lists repaired defects (fix: commits in /repo) and open findings. See DESIGN.md."}
json.dump(m, open(os.path.join(ROOT, "MANIFEST.json"), "w"), indent=1)
print(len(checks), "checks,", len(na), "not yet claimed")
