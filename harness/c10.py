PID = "C10"
WORKER = "w_c10"
HEADER = ("From Coq Require Import List NArith ZArith.\n"
          "From Dimod Require Import Base.Util Gen.Gen_Codec Model.Codec Model.ChkC09 Model.ChkC10.\nImport ListNotations.")
CHECK_FN = "check"
N_QUICK = 160
N_THOROUGH = 1500
SHARD = 10
TIMEOUT = 3000
SHRINK_KEYS = []
RULE = ("random BQM (v1/v2, float32/float64, ignore_labels), QM, CQM (zip, stored/deflated) and DQM (.npz) files of at most "
        "2 KiB (3 KiB for the zip containers); EVERY prefix length 0..len-1 is loaded by the implementation in child processes "
        "(exit by signal = crash, per-prefix 10 s SIGALRM = hang) through from_file(bytes), from_file(file object) or "
        "fileview.load and bucketed {exception, equal, different, crash, hang}; BQM and QM prefixes are also decoded by the Coq "
        "model and the buckets compared; cqm_member cases keep the zip container VALID and cut one member handled by a raw-buffer "
        "loader (varinfo, objective, a constraint's lhs) at every length: ordinary exception or equal model required, and the Coq "
        "expression / varinfo decoder must agree on the bucket; cqm_legacy / cqm_legacy_member: the same two streams on CQM "
        "serialization versions 1.0-1.3 written by hand (codecgen.legacy_cqm_bytes; read by _from_file_legacy), the cut member "
        "being a whole QM or BQM file (objective, a constraint's lhs) decoded by the Coq QM / BQM decoder; "
        "a case is non-trivial when the file is longer than one header block")
TRUSTED = ["model: coq/theories/Model/Codec.v, ChkC10.v", "translators/codec_constants.py -> Gen/Gen_Codec.v",
           "harness/prefix_runner.py + harness/codecgen.py state_of(): the equality used for the 'equal model' bucket",
           "zip / npz containers are not modelled: their truncation behaviour is observed on the implementation only; cqm_member "
           "cases rebuild a valid zip with Python's zipfile (harness/codecgen.py cut_member)",
           "an out-of-bounds read that neither crashes nor changes the outcome is invisible to the bucket comparison; the memcheck "
           "corpus cases (valgrind, run in every tier) cover the item-aligned cuts of the QM VTYP section and of the CQM zip members"]
ASSUMPTIONS = ["truncation is a prefix of the written file (interrupted write or transfer); other corruptions are out of scope",
               "QM LINB only: LinearSection.loads_data / add_linear_from_array accept a short but item-aligned payload and the failure "
               "surfaces at the next section read; the model fails at once - same bucket for every truncated file (all other raw "
               "loaders raise at the same point as the model since 89f7dc3)"]
PARTIAL = ['decode_reads_in_bounds is not a theorem: the model reads through take/firstn only; on the implementation it is checked by the valgrind corpus cases', 'zip / npz containers and DQM files are not modelled (central directory located from the end of the file; CRC; deflate): their truncation behaviour is observed on the implementation at every prefix length']
