PID = "C16"
WORKER = "w_c16"
HEADER = "From Coq Require Import List ZArith QArith Qcanon.\nFrom Dimod Require Import Base.Util Model.Poly Model.Comb Model.Penalty Model.CqmBqm Model.DqmAdj Model.ChkC16.\nImport ListNotations."
CHECK_FN = "check_eq"
N_QUICK = 1920
N_THOROUGH = 12000
SHARD = 40
SHRINK_KEYS = ["terms", "cons"]
RULE = ("linear constraints with integer coefficients/constants/bounds in +-12 over <= 5 variables: BQM equality on float64/float32/object "
        "models and through .spin/.binary views (repeated labels on every back-end), BQM inequality on BINARY models (all four "
        "outcomes: skipped, refused, equality, slack; cross_zero; penalization_method='unbalanced'), DQM equality/inequality (log2, linear, log10 with exactly covering digit ranges), "
        "binary_encoding(ub) for ub in 2..300, CQMs with binary/spin/zero-lower-bound integer variables and <= 3 linear integer "
        "constraints of all senses through cqm_to_bqm and its inverter; non-trivial = at least one term / slack variable / constraint; "
        "distinct by canonical JSON of the case")
TRUSTED = ["coefficients of every equality expansion (native BQM, DQM, python fallback), the slack construction rules and the 'unbalanced' terms are GENERATED "
           "from cybqm_template.pyx.pxi / cydiscrete_quadratic_model.pyx / binary_quadratic_model.py by translators/penalty_formulas.py (Gen/Gen_Penalty.v, fail-closed)",
           "the PYTHON side of DQM.add_linear_inequality_constraint (bound tightening, always-feasible test, refusal, equality shortcut, cross_zero test, "
           "the cases of every log2 / log10 / linear slack variable) is GENERATED from discrete_quadratic_model.py by translators/dqm_inequality.py "
           "(Gen/Gen_DqmIneq.v, fail-closed template match), evaluated by the check (dqm_ineq_generated_ok) and proved equal to the hand-written plan (C16_dqm_generated_plan_is_plan)",
           "model: coq/theories/Model/Penalty.v, CqmBqm.v, DqmAdj.v, Comb.v, Poly.v, ChkC16.v (hand written, tied by this correspondence)",
           "BQM and DQM kinds: all assignments x all slack assignments are enumerated INSIDE Coq on the coefficients the implementation reports",
           "cqm kind: the worker enumerates all BQM samples with bqm.energies (exact on the dyadic data) and the Python inverter, and feeds "
           "per-CQM-assignment minima to Coq, which computes objective, feasibility and the comparison",
           "float arithmetic of the implementation is exact on the generated dyadic data (not verified)"]
ASSUMPTIONS = ["the coefficients a model reports (linear, quadratic, offset) define its energy (property C01)",
               "IEEE-754 arithmetic is exact on the small dyadic coefficients generated",
               "inequality constraints are generated for BINARY BQMs only (on SPIN BQMs the bound computation is a known defect, kept as corpus case)",
               "cross_zero is covered for the BQM and the DQM method, penalization_method='unbalanced' for the BQM (for 'unbalanced' only the exact added polynomial is claimed)"]
PARTIAL = []
