PID = "C02"
WORKER = "w_c02"
HEADER = "From Coq Require Import List ZArith QArith Qcanon.\nFrom Dimod Require Import Base.Util Model.Poly Model.HPoly Model.ChkC02.\nFrom Dimod Require Model.Adj Model.SSet Model.PyBqm Gen.Gen_PyBQM Model.Expr Model.VartypeOps.\nImport ListNotations."
CHECK_FN = "check"
N_QUICK = 2400
N_THOROUGH = 60000
SHRINK_KEYS = ["ops", "exprs", "terms"]
RULE = ("random models with dyadic coefficients converted through every entry point (BQM.change_vartype in/out of place on 3 dtypes, "
        "live .spin/.binary views read and written incl. after the base changed vartype in place, QM/CQM change_vartype and "
        "spin_to_binary, BinaryPolynomial.to_spin/to_binary, to_ising/to_qubo/from_*/ising_to_qubo/qubo_to_ising, "
        "flip_variable on QM / BQM / CQM incl. refused flips and discrete constraints, refused SampleSet conversions, SampleSet.change_vartype over signed / unsigned / bool / float sample storage), plus the raw internal state (adjacency structures, varinfo, pyBQM dicts, expression vectors, the dicts given to and returned by "
        "ising_to_qubo / qubo_to_ising) before and after each conversion fed to the code-shaped models; non-trivial = something is converted and the model has terms; distinct by case JSON")
TRUSTED = ["model: coq/theories/Model/{Poly,HPoly,View,ChkC02}.v; code-shaped models Model/{AdjSubstAll,PyBqm,IsingQubo,SSetVartype}.v (abc.h substitute_variables on the raw adjacency structure, pyBQM.change_vartype over multipliers generated from pybqm.py by translators/pybqm_multipliers.py, the dict loops of ising_to_qubo/qubo_to_ising, SampleSet.change_vartype), each proved energy preserving and compared with the observed raw state / dicts / rows inside Coq",
           "float arithmetic of the implementation is exact on the generated dyadic data (not verified)",
           "SampleSet.change_vartype rows/energies are compared in Python with exact integers/fractions and, as SSConv cases, with Model/SSetVartype.v inside Coq"]
ASSUMPTIONS = ["IEEE-754 arithmetic is exact on the small dyadic coefficients generated; 'up to floating-point rounding' is not examined beyond that"]
PARTIAL = []
