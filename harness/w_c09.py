"""C09 worker: to_file / from_file round trips on the implementation (exact, field by field) and
byte-level observations for the Coq codec model.

Coverage: clause of the property -> stream (kind) that reaches it
  BQM  to_file/from_file, fileview.load      kind bqm: dtypes float64/float32/object, format versions 1 and 2 (int or tuple),
                                             ignore_labels, both vartypes, 0..6 variables; Coq: CBqm (encoder == bytes,
                                             decoder(bytes) == state, loader replay restores the adjacency)
       a file of an OLDER writer             corpus legacy_all: tests/data/fileview/5x5_v1.bqm (itype uint32 / ntype uint64,
                                             labels in the header) against an independent by-hand reader (codecgen.indep_bqm_state)
  QM                                         kind qm: float64/float32, all four vartypes with bounds, self loops, REAL
                                             interactions; Coq: CQm + CAdj (lower triangles -> loaded adjacency)
  CQM  format version 2.0                    kind cqm: objective present/absent, variables only in the objective / only in
                                             constraints / unused, hard + soft (linear, quadratic) constraints, discrete marks
                                             in every API-reachable combination with the one-hot shape, constant-only
                                             constraints, constraint labels with '/', compress, check_header on/off;
                                             Coq: CExpr per member, CVarinfo, CLabels, CCqm2 (whole archive: names, order, optional
                                             members, reader model), CCqm2H (the header with its seven counts)
       bundled version 2.0 files             corpus legacy_all: members decoded by the Coq codec (CExprDec: written by an older
                                             release whose QUAD length field was 4 bytes), CVarinfo, CLabels
       format versions 1.0-1.3 (_from_file_legacy)
                                             corpus legacy_all: the 14 bundled v1.x archives read INDEPENDENTLY by
                                             CqmFile.legacy_read (variables in file order, vartypes, bounds, objective,
                                             constraints, soft, discrete) = CLegacy;
                                             kind legacy_synth: random CQMs written BY HAND in the 1.0/1.1/1.2/1.3 layout
                                             (codecgen.legacy_cqm_bytes: header counts computed by hand, objective member listing
                                             every variable, QM or BQM (v1/v2, float32) lhs members, weight/penalty, deflate),
                                             expected state from the description incl. variable ORDER, + CLegacy;
                                             kind widen: the float32 -> float64 widening of the Coq model against NumPy
  DQM  index dtype of the payload            kind dqm / dqm_hand with "wide": 2-4 variables whose TOTAL number of cases sits on either
                                             side of 2**16 (uint16 -> uint32 in to_numpy_vectors), biases and interactions on the
                                             last cases, a variable starting beyond 2**16; corpus dqm_wide_*; corpus dqm_dense:
                                             < 2**16 cases but >= 2**16 case interactions.  (BQM / QM / expression writers use a
                                             fixed int32 index type and 4/8-byte length fields: no data-dependent dtype there)
  DQM  data section, member level            every dqm / dqm_hand case: the .npy members decoded by the Coq model (CDqm; CNpyInts for
                                             the integer members of wide models) against the vectors of the saved / loaded model
  DQM  format version 1.1                    kind dqm: compress, deprecated `compressed=` alias, ignore_labels; caselabel
                                             (CaseLabelDQM: to_file must refuse without ignore_labels); dqm_big (> 64 KiB labels)
       format versions 1.0 / 1.1, any index dtype
                                             kind dqm_hand: the file written by hand without dimod (codecgen.dqm_bytes_by_hand,
                                             1.0 has no offset entry), expected state from the description
  labels                                     ints (negative, > 2^32, > 2^53, NumPy), floats, strings ('', '/', quotes, backslash,
                                             non-ASCII, control characters), nested tuples; exactly range(n), permutations,
                                             and index-LIKE labelings that must not take the `is_range` fast path (gap, shifted,
                                             last label a string, two swapped, NumPy integers at their own index, i + 0.5)
  options                                    spool_size default/1/100; input as bytes, bytearray, memoryview, file, fileview.load
                                             of bytes / of a file
Not reached (reported): file objects positioned away from offset 0; BQM v1 files with non-int32 index types other than
the bundled one; float labels EQUAL to their own index (Variables stores the index label, see codecgen.pick_labels)."""
import glob
import json
import os
import traceback

import numpy as np
import dimod

import wlib
from wlib import clist
import gen
from gen import F
from codecgen import enc_label, dec_label
import codecgen as G
from codecgen import state_of, diff_state, load_as, cbytes

HOWS = ['bytes', 'bytearray', 'memoryview', 'file', 'load_bytes', 'load_file']
SPOOLS = [None, None, 1, 100]


def gen_case(rng, tier):
    kind = rng.choice(['bqm', 'bqm', 'bqm', 'qm', 'qm', 'cqm', 'cqm', 'dqm', 'caselabel', 'legacy_synth'])
    c = {"kind": kind, "spool": rng.choice(SPOOLS), "how": rng.choice(HOWS)}
    if kind == 'legacy_synth' and rng.random() < 0.1:
        # IEEE-754 binary32 -> binary64 on bit patterns (no NaNs): the widening used for float32 members
        bits = []
        for _ in range(40):
            e = rng.choice([0, 0, 1, 254, 255, 127, 128, rng.randint(0, 255)])
            mant = 0 if e == 255 else rng.choice([0, 1, 2 ** 22, 2 ** 23 - 1, rng.randint(0, 2 ** 23 - 1)])
            bits.append((rng.randint(0, 1) << 31) | (e << 23) | mant)
        return {"kind": "widen", "bits": bits}
    if kind == 'legacy_synth':
        c["cqm"] = G.rand_cqm_desc(rng, shaped_p=0.5, np_p=0.2, real_q_p=0.0, wild_p=0.15)
        c["minor"] = rng.choice([0, 1, 2, 3])
        c["compress"] = rng.random() < 0.3
        c["check_header"] = rng.random() < 0.8
        c["bqm_lhs"] = [rng.random() < 0.5 for _ in range(12)]
        c["bqm_version"] = rng.choice([1, 2])
        c["f32"] = [rng.random() < 0.25 for _ in range(12)]
        return c
    if kind == 'bqm':
        n = rng.randint(0, 6)
        labels = G.pick_labels(rng, n, np_p=0.25, idx_p=0.08)
        c["dtype"] = rng.choice(['float64', 'float64', 'float32', 'object'])
        c["desc"] = G.rand_desc(rng, labels, kinds=('BINARY', 'SPIN'), single_vartype=True,
                                kmax=6 if c["dtype"] == 'float32' else 8, jmax=1 if c["dtype"] == 'float32' else 2)
        c["desc"]["vartype"] = rng.choice(['BINARY', 'SPIN']) if n == 0 else c["desc"]["vars"][0][1]
        c["version"] = rng.choice([1, 2, 2])
        c["version_as_tuple"] = rng.random() < 0.3
        c["ignore_labels"] = rng.random() < 0.25
    elif kind == 'qm':
        n = rng.randint(0, 6)
        labels = G.pick_labels(rng, n, np_p=0.25, idx_p=0.08)
        c["dtype"] = rng.choice(['float64', 'float64', 'float32'])
        c["desc"] = G.rand_desc(rng, labels, kmax=6 if c["dtype"] == 'float32' else 8, jmax=1 if c["dtype"] == 'float32' else 2,
                                real_q=rng.random() < 0.25)
    elif kind == 'cqm':
        c["cqm"] = G.rand_cqm_desc(rng, shaped_p=0.6, np_p=0.3, real_q_p=0.35, idx_p=0.08)
        c["compress"] = rng.random() < 0.4
        c["check_header"] = rng.random() < 0.8
    elif kind == 'dqm':
        c["dqm"] = G.rand_dqm_desc(rng, np_p=0.3, idx_p=0.08)
        c["compress"] = rng.random() < 0.4
        c["ignore_labels"] = rng.random() < 0.3
        c["compressed_kw"] = rng.choice([None, None, None, True, False])      # deprecated alias of compress
        if rng.random() < 0.12:
            # WIDE: few variables, total number of cases on either side of an index-dtype threshold of the payload writer
            # (cyDiscreteQuadraticModel.to_numpy_vectors: uint16 below 2**16 cases, uint32 from there on), linear biases and
            # interactions on the LAST cases, a variable that STARTS beyond the threshold
            c["dqm"] = wide_dqm_desc(rng)
            c["wide"] = True
        if rng.random() < 0.3:
            # the same description written BY HAND (no dimod) as a format-version 1.0 / 1.1 file
            c["kind"] = 'dqm_hand'
            c["minor"] = rng.choice([0, 1])
            c["index_dtype"] = rng.choice(['int64', 'uint32', 'int32'])
    else:
        n = rng.randint(1, 3)
        labels = G.pick_labels(rng, n, wild_p=0.0, range_p=0.0)
        vs = []
        names = ['case_r', 'case_g', 'case_b', 'case_k', 'case_w', 'case_y', 'case_m', 'case_c', 'case_o']
        rng.shuffle(names)
        for i, l in enumerate(labels):
            shared = rng.random() < 0.5
            k = rng.randint(1, 3)
            cases = ['s%d' % j for j in range(k)] if shared else [names.pop() for _ in range(k)]
            vs.append([enc_label(l), cases, shared])
        c["cl"] = vs
        c["off"] = str(rng.dyadic(8, 2))
        c["compress"] = rng.random() < 0.4
    return c


def wide_dqm_desc(rng, total=None, nvars=None):
    total = total or rng.choice([65535, 65536, 65537, 65600, 70000, 2 ** 16 + 2 ** 15, 2 ** 17 + 1])
    nvars = nvars or rng.choice([2, 3, 3, 4])
    cuts = sorted(rng.sample(range(1, total), nvars - 1))
    if nvars >= 3 and rng.random() < 0.7 and total > 65540:
        cuts[-1] = rng.randint(65536, total - 1)          # the last variable starts at a case index >= 2**16
        cuts = sorted(set(cuts))
    ks = [b - a for a, b in zip([0] + cuts, cuts + [total])]
    labels = G.pick_labels(rng, len(ks), wild_p=0.0, range_p=0.5)
    vars_ = [[enc_label(l), k] for l, k in zip(labels, ks)]
    def some_cases(k):
        return sorted({0, k - 1, rng.randrange(k), max(0, k - 2)})
    lin = [[v[0], a, str(rng.dyadic(8, 2))] for v in vars_ for a in some_cases(v[1])]
    quad = []
    for i in range(len(vars_)):
        for j in range(i + 1, len(vars_)):
            if j == len(vars_) - 1 or rng.random() < 0.5:
                for a in some_cases(vars_[i][1])[-2:]:
                    for b in some_cases(vars_[j][1])[-2:]:
                        quad.append([vars_[i][0], a, vars_[j][0], b, str(rng.dyadic(8, 2) or 1)])
    return {"vars": vars_, "lin": lin, "quad": quad, "off": str(rng.dyadic(8, 2))}


def run_dqm_dense(c):
    """few cases, MANY interactions (k1 x k2 >= 2**16 case interactions between two variables, < 2**16 cases): the other
    quantity an index dtype could wrongly be chosen from"""
    m = dimod.DiscreteQuadraticModel()
    u = m.add_variable(c["k1"], label='u')
    v = m.add_variable(c["k2"], label='v')
    a = np.arange(c["k1"]).reshape(-1, 1)
    b = np.arange(c["k2"]).reshape(1, -1)
    m.set_quadratic(u, v, (((7 * a + 3 * b) % 5) - 2) / 2.0 + 0.25)
    m.set_linear_case(v, c["k2"] - 1, 1.5)
    s0 = state_of(m)
    fails = []
    for compress in (False, True):
        data = m.to_file(compress=compress).read()
        try:
            d = diff_state(s0, state_of(load_as('dqm', data, c.get("how", 'bytes'))))
            if d:
                fails.append(f"round trip (compress={compress}) changed the model: {d}")
        except Exception as e:
            fails.append(f"from_file raised {type(e).__name__}: {e}")
    return {"coq": None, "py_fail": "; ".join(fails) if fails else None,
            "features": {"kind": "dqm_dense", "interactions_over_64k": m.num_case_interactions() >= 2 ** 16}, "nontrivial": True,
            "observed": {"case_interactions": int(m.num_case_interactions()), "cases": int(m.num_cases())}}


def dqm_member_terms(m, data, fails, with_offset=True):
    """member level of a DQM file: the .npy members of its data section decoded by the Coq model (Model/Npy.v) must be
    the vectors of model `m` (case starts, linear biases, case interactions, offset).  Models with many cases: only the
    integer members (case_starts, row and column indices) are rendered."""
    try:
        mem = G.npz_members(data)
        if int(m.num_cases()) <= 2000 and int(m.num_case_interactions()) <= 300:
            return f"(CDqm {G.npz_archive_term(mem)} {G.dqmvec_term(m, with_offset)})", []
        if int(m.num_case_interactions()) > 300:
            return None, []
        starts, _, quad = G.dqm_vectors(m)
        # the file lists the interactions in its own order: compare as multisets through sorting by (row, col)
        rows = np.load(__import__('io').BytesIO(mem['quadratic_row_indices.npy']))
        cols = np.load(__import__('io').BytesIO(mem['quadratic_col_indices.npy']))
        order = sorted(range(len(rows)), key=lambda i: (int(rows[i]), int(cols[i])))
        if [(int(rows[i]), int(cols[i])) for i in order] != sorted((r, c) for r, c, _ in quad):
            fails.append("the (row, col) pairs stored in the file are not the case interactions of the model")
        file_order = {(r, c): None for r, c, _ in quad}
        terms = [f"(CNpyInts {cbytes(mem['case_starts.npy'])} {clist([G.cN(x) for x in starts])})",
                 f"(CNpyInts {cbytes(mem['quadratic_row_indices.npy'])} {clist([G.cN(int(x)) for x in rows])})",
                 f"(CNpyInts {cbytes(mem['quadratic_col_indices.npy'])} {clist([G.cN(int(x)) for x in cols])})"]
        return terms[0], terms[1:]
    except Exception:
        fails.append("could not take the data section apart: " + traceback.format_exc()[-400:])
        return None, []


def legacy_files():
    root = os.path.join(os.path.dirname(os.path.dirname(dimod.__file__)), "tests", "data")
    return sorted(glob.glob(os.path.join(root, "cqm", "*.cqm")) + glob.glob(os.path.join(root, "fileview", "*.bqm"))), root


def cqm_v2_terms(m, data, fails, decode_only=False):
    """byte level, serialization version 2.0: every expression member, the varinfo member, the label member of the
    archive in `data` against model `m` (Coq: encoder of the model state == member bytes, decoder of the bytes == state)"""
    mem = G.zip_members(data)
    pv = list(m.variables)
    # decode_only: the archive was written by an OLDER release (bundled files) - only the decoder is compared
    ctor = "CExprDec" if decode_only else "CExpr"
    terms = [f"({ctor} {G.expr_file_term(m.objective, pv)} {cbytes(mem['objective'])})"]
    for lab, con in m.constraints.items():
        lstr = json.dumps(dimod.variables.serialize_variable(lab))
        terms.append(f"({ctor} {G.expr_file_term(con.lhs, pv)} {cbytes(mem['constraints/' + lstr + '/lhs'])})")
    vi = clist([f"(VT_{m.vartype(v).name}, ({cbytes(np.float64(m.lower_bound(v)).tobytes())}, "
                f"{cbytes(np.float64(m.upper_bound(v)).tobytes())}))" for v in pv])
    terms.append(f"(CVarinfo {vi} {cbytes(mem['varinfo'])})")
    if 'variable_labels.json' in mem:
        if all(G.is_modelled_label(v) for v in pv):
            terms.append(f"(CLabels {clist([G.clabel(v) for v in pv])} {cbytes(mem['variable_labels.json'])})")
    elif not G.is_range(pv):
        fails.append("variable_labels.json missing although the labels are not range(n)")
    return terms, mem


def run_legacy(c):
    """every bundled file under tests/data: loaded through from_file and fileview.load (must agree, and re-serialising
    must not change the model), and read INDEPENDENTLY by the Coq model: version 1.x CQM archives by
    CqmFile.legacy_read (variables in file order, vartypes, bounds, objective, constraints), version 2.0 archives and
    the BQM file member by member with the codec model"""
    files, root = legacy_files()
    fails = []
    terms = []
    if len(files) < 20:
        fails.append(f"only {len(files)} bundled legacy files found under {root}")
    n_ok = 0
    for p in files:
        kind = 'cqm' if p.endswith('.cqm') else 'bqm'
        try:
            data = open(p, 'rb').read()
            m = load_as(kind, data, 'file')
            m_b = load_as(kind, data, 'load_bytes')
            d = diff_state(state_of(m), state_of(m_b))
            if d:
                fails.append(f"{os.path.basename(p)}: from_file and fileview.load disagree: {d}")
            again = load_as(kind, m.to_file().read(), 'bytes')
            d = diff_state(state_of(m), state_of(again))
            if d:
                fails.append(f"{os.path.basename(p)}: re-serialising the loaded model changes it: {d}")
            if kind == 'cqm':
                if tuple(data[8:10]) < (2, 0):
                    terms.append(G.legacy_term(data, m))
                else:
                    terms += cqm_v2_terms(m, data, fails, decode_only=True)[0]
            else:
                # read by an independent reader written from the format description (any itype / ntype)
                d = diff_state(G.indep_bqm_state(data), state_of(m))
                if d:
                    fails.append(f"{os.path.basename(p)}: the loaded BQM differs from an independent reading of the file: {d}")
            n_ok += 1
        except Exception as e:
            fails.append(f"{os.path.basename(p)}: {type(e).__name__}: {e}")
    return {"coq": terms[0] if terms else None, "extra_coq": terms[1:], "py_fail": "; ".join(fails) if fails else None,
            "features": {"kind": "legacy"}, "nontrivial": n_ok > 0, "observed": {"files": len(files), "coq_terms": len(terms)}}


def run_legacy_synth(c):
    """a random CQM written BY HAND in the serialization-version-1.x layout (codecgen.legacy_cqm_bytes); the loaded model
    must be the described one (field by field incl. variable order; the objective lists every variable), and the Coq
    reader of the archive must see the loaded model in it"""
    m = G.build_cqm(c["cqm"])
    s0 = state_of(m)
    soft = any(x["soft"] for x in s0["constraints"].values())
    minor = 3 if soft else c["minor"]
    data, members = G.legacy_cqm_bytes(m, minor, compress=c["compress"], bqm_lhs=c["bqm_lhs"], bqm_version=c["bqm_version"],
                                       f32=c.get("f32", ()))
    exp = G.legacy_expected_state(s0)
    fails = []
    coq = None
    feats = {"kind": "legacy_synth", "how": c["how"], "minor": minor, "compress": c["compress"], "soft": soft,
             "check_header": c["check_header"],
             "bqm_member": any(b[:8] == b'DIMODBQM' for n, b in members if n.endswith('/lhs')),
             "f32_member": any(b'"float32"' in b[:64] for n, b in members if n.endswith('/lhs')),
             "objective_subset": len(m.objective.variables) < len(m.variables)}
    try:
        how = c["how"]
        if how.startswith('load') or c["check_header"]:
            m2 = load_as('cqm', data, how)
        else:
            import io
            src = {'bytes': bytes(data), 'bytearray': bytearray(data), 'memoryview': memoryview(data)}.get(how) or io.BytesIO(data)
            m2 = dimod.ConstrainedQuadraticModel.from_file(src, check_header=False)
        d = diff_state(exp, state_of(m2))
        if d:
            fails.append("a version-1.%d file loaded as a different model: %s" % (minor, d))
        if G.cqm_all_modelled(m2) and G.cqm_all_modelled(m):
            coq = G.legacy_term(data, m2)
        # saving the loaded model in today's format and loading that gives the same model again
        again = load_as('cqm', m2.to_file().read(), 'bytes')
        d = diff_state(state_of(m2), state_of(again))
        if d:
            fails.append("re-serialising the model loaded from a version-1.%d file changes it: %s" % (minor, d))
    except Exception as e:
        fails.append(f"from_file raised {type(e).__name__}: {e}")
    return {"coq": coq, "py_fail": "; ".join(fails) if fails else None, "features": feats,
            "nontrivial": len(m.variables) > 0, "observed": {"len": len(data), "members": len(members)}}


def run_dqm_big(c):
    """a DQM whose VARS section (labels) is larger than the 64 KiB window in which zipfile looks for the
       end-of-central-directory record of the .npz member that precedes it"""
    m = dimod.DiscreteQuadraticModel()
    for i in range(c["n"]):
        m.add_variable(2, label=('v' * c["label_len"]) + '%06d' % i)
    m.set_linear_case(('v' * c["label_len"]) + '%06d' % 3, 1, 2.5)
    data = m.to_file().read()
    tail = len(data) - data.rindex(b'VARS')
    fails = []
    try:
        m2 = load_as('dqm', data, 'bytes')
        d = diff_state(state_of(m), state_of(m2))
        if d:
            fails.append("round trip changed the model: " + d)
    except Exception as e:
        fails.append(f"from_file raised {type(e).__name__}: {e} (labels section of {tail} bytes after the .npz data)")
    return {"coq": None, "py_fail": "; ".join(fails) if fails else None,
            "features": {"kind": "dqm_big", "dqm_labels_over_64k": tail > 65535}, "nontrivial": True,
            "observed": {"len": len(data), "vars_section": tail}}


def run_case(c):
    kind = c["kind"]
    if kind == 'legacy_all':
        return run_legacy(c)
    if kind == 'dqm_big':
        return run_dqm_big(c)
    if kind == 'legacy_synth':
        return run_legacy_synth(c)
    if kind == 'dqm_dense':
        return run_dqm_dense(c)
    if kind == 'widen':
        pairs = []
        for x in c["bits"]:
            b = int(x).to_bytes(4, 'little')
            pairs.append(f"({cbytes(b)}, {cbytes(np.float64(np.frombuffer(b, np.float32)[0]).tobytes())})")
        return {"coq": f"(CWiden {clist(pairs)})", "py_fail": None, "features": {"kind": "widen"}, "nontrivial": True}
    feats = {"kind": kind, "how": c.get("how")}
    kw = {} if c.get("spool") is None else {"spool_size": c["spool"]}
    fails = []
    coq, extra = None, []
    observed = {}

    def rt(kind_, m, expect, data):
        try:
            m2 = load_as(kind_, data, c["how"])
        except Exception as e:
            fails.append(f"from_file raised {type(e).__name__}: {e}")
            return None
        d = diff_state(expect, state_of(m2))
        if d:
            fails.append("round trip changed the model: " + d)
        return m2

    if kind == 'bqm':
        m = G.build_bqm(c["desc"], c["dtype"])
        s0 = state_of(m)
        ver = (c["version"], 0) if c.get("version_as_tuple") else c["version"]
        data = m.to_file(version=ver, ignore_labels=c["ignore_labels"], **kw).read()
        if diff_state(s0, state_of(m)):
            fails.append("to_file modified the model")
        exp = dict(s0)
        if c["dtype"] == 'object':
            exp["dtype"] = 'float64'           # documented: object BQMs are serialised as float64
        if c["ignore_labels"]:
            exp = G.relabelled_state(exp, m.num_variables)
        rt('bqm', m, exp, data)
        feats.update(version=c["version"], dtype=c["dtype"], ignore_labels=c["ignore_labels"])
        if c["ignore_labels"] or all(G.is_modelled_label(v) for v in m.variables):
            coq = f"(CBqm {G.bqm_file_term(m, c['version'], c['ignore_labels'])} {cbytes(data)})"
        observed = {"len": len(data)}
        nontrivial = m.num_variables > 0
    elif kind == 'qm':
        m = G.build_qm(c["desc"], c["dtype"])
        s0 = state_of(m)
        data = m.to_file(**kw).read()
        if diff_state(s0, state_of(m)):
            fails.append("to_file modified the model")
        rt('qm', m, s0, data)
        feats.update(dtype=c["dtype"])
        if all(G.is_modelled_label(v) for v in m.variables):
            coq = f"(CQm {G.qm_file_term(m)} {cbytes(data)})"
            m_loaded = load_as('qm', data, 'bytes')
            extra = [f"(CAdj {G.full_adj_term(m_loaded)} {G.neig_term(m)})"]
        observed = {"len": len(data)}
        nontrivial = m.num_variables > 0
    elif kind == 'cqm':
        m = G.build_cqm(c["cqm"])
        s0 = state_of(m)
        data = m.to_file(compress=c["compress"], **kw).read()
        if diff_state(s0, state_of(m)):
            fails.append("to_file modified the model")
        try:
            how = c["how"]
            if how.startswith('load') or c["check_header"]:
                m2 = load_as('cqm', data, how)
            else:
                import io
                src = {'bytes': bytes(data), 'bytearray': bytearray(data), 'memoryview': memoryview(data)}.get(how) or io.BytesIO(data)
                m2 = dimod.ConstrainedQuadraticModel.from_file(src, check_header=False)
            d = diff_state(s0, state_of(m2))
            if d:
                fails.append("round trip changed the model: " + d)
        except Exception as e:
            fails.append(f"from_file raised {type(e).__name__}: {e}")
        labs = list(m.constraints)
        feats.update(compress=c["compress"], slash_label=any('/' in json.dumps(G.tl(l)) for l in labs),
                     soft=any(x["soft"] for x in s0["constraints"].values()),
                     discrete=any(x["discrete"] for x in s0["constraints"].values()),
                     onehot_unmarked=any(x["onehot"] and not x["discrete"] for x in s0["constraints"].values()))
        # byte level: every expression member, the varinfo member, the label member
        try:
            terms, mem = cqm_v2_terms(m, data, fails)
            if G.cqm_all_modelled(m):
                # the whole archive: member names, optional members, their order, and the reader model on it
                terms.append(f"(CCqm2 {G.archive_term(data)} {G.c2model_term(m)})")
                # ... and the header in front of it: the seven counts recomputed by the model from the saved record
                terms.append(f"(CCqm2H {G.c2model_term(m)} {cbytes(data[:G.cqm_header_len(data)])})")
            coq, extra = terms[0], terms[1:]
        except Exception:
            fails.append("could not take the zip apart: " + traceback.format_exc()[-600:])
        observed = {"len": len(data), "members": sorted(mem) if 'mem' in dir() else None}
        nontrivial = len(m.variables) > 0 or len(m.constraints) > 0
    elif kind == 'dqm':
        m = G.build_dqm(c["dqm"])
        s0 = state_of(m)
        if c.get("compressed_kw") is not None:
            kw = dict(kw, compressed=c["compressed_kw"])
        data = m.to_file(compress=c["compress"], ignore_labels=c["ignore_labels"], **kw).read()
        if diff_state(s0, state_of(m)):
            fails.append("to_file modified the model")
        exp = G.relabelled_state(s0, m.num_variables()) if c["ignore_labels"] else s0
        # the file of the same description written by hand denotes the same model
        d = diff_state(s0, G.dqm_bytes_by_hand(c["dqm"])[1])
        if d:
            fails.append("the built DQM differs from its description: " + d)
        rt('dqm', m, exp, data)
        coq, extra = dqm_member_terms(m, data, fails)
        feats.update(compress=c["compress"], ignore_labels=c["ignore_labels"], wide=bool(c.get("wide")),
                     cases_over_64k=int(m.num_cases()) >= 2 ** 16)
        observed = {"len": len(data), "cases": int(m.num_cases())}
        nontrivial = m.num_variables() > 0
    elif kind == 'dqm_hand':
        data, exp = G.dqm_bytes_by_hand(c["dqm"], c["minor"], c["compress"], index_dtype=getattr(np, c["index_dtype"]))
        m2 = rt('dqm', None, exp, data)
        if m2 is not None:
            coq, extra = dqm_member_terms(m2, data, fails, with_offset=c["minor"] >= 1)
        feats.update(minor=c["minor"], compress=c["compress"], wide=bool(c.get("wide")))
        if m2 is not None:
            again = load_as('dqm', m2.to_file().read(), 'bytes')
            d = diff_state(exp, state_of(again))
            if d:
                fails.append("re-serialising the DQM loaded from a hand-written file changes it: " + d)
        observed = {"len": len(data)}
        nontrivial = len(c["dqm"]["vars"]) > 0
    elif kind == 'caselabel':
        m = dimod.CaseLabelDQM()
        for l, cases, shared in c["cl"]:
            m.add_variable(cases, label=dec_label(l), shared_labels=shared)
        m.offset = float(F(c["off"]))
        # numeric content through the plain-DQM interface
        base = dimod.DiscreteQuadraticModel
        vs = list(base.variables.fget(m)) if isinstance(getattr(base, 'variables', None), property) else list(m.variables)
        s0 = state_of(m)
        try:
            m.to_file()
            fails.append("CaseLabelDQM.to_file() without ignore_labels did not raise NotImplementedError")
        except NotImplementedError:
            pass
        data = m.to_file(ignore_labels=True, compress=c["compress"], **kw).read()
        exp = G.relabelled_state(s0, len(s0["vars"]))
        rt('dqm', m, exp, data)
        observed = {"len": len(data)}
        nontrivial = True
    else:
        raise ValueError(kind)
    return {"coq": coq, "extra_coq": extra, "py_fail": "; ".join(fails) if fails else None, "features": feats,
            "nontrivial": nontrivial, "observed": observed}


if __name__ == "__main__":
    wlib.main(gen_case, run_case)
