"""C09 worker: to_file / from_file round trips on the implementation (exact, field by field) and
byte-level observations for the Coq codec model."""
import glob
import json
import os
import traceback

import numpy as np
import dimod

import wlib
from wlib import clist
import gen
from gen import F
from codecgen import enc_label, dec_label
import codecgen as G
from codecgen import state_of, diff_state, load_as, cbytes

HOWS = ['bytes', 'bytearray', 'memoryview', 'file', 'load_bytes', 'load_file']
SPOOLS = [None, None, 1, 100]


def gen_case(rng, tier):
    kind = rng.choice(['bqm', 'bqm', 'bqm', 'qm', 'qm', 'cqm', 'cqm', 'dqm', 'caselabel'])
    c = {"kind": kind, "spool": rng.choice(SPOOLS), "how": rng.choice(HOWS)}
    if kind == 'bqm':
        n = rng.randint(0, 6)
        labels = G.pick_labels(rng, n, np_p=0.25)
        c["dtype"] = rng.choice(['float64', 'float64', 'float32', 'object'])
        c["desc"] = G.rand_desc(rng, labels, kinds=('BINARY', 'SPIN'), single_vartype=True,
                                kmax=6 if c["dtype"] == 'float32' else 8, jmax=1 if c["dtype"] == 'float32' else 2)
        c["desc"]["vartype"] = rng.choice(['BINARY', 'SPIN']) if n == 0 else c["desc"]["vars"][0][1]
        c["version"] = rng.choice([1, 2, 2])
        c["version_as_tuple"] = rng.random() < 0.3
        c["ignore_labels"] = rng.random() < 0.25
    elif kind == 'qm':
        n = rng.randint(0, 6)
        labels = G.pick_labels(rng, n, np_p=0.25)
        c["dtype"] = rng.choice(['float64', 'float64', 'float32'])
        c["desc"] = G.rand_desc(rng, labels, kmax=6 if c["dtype"] == 'float32' else 8, jmax=1 if c["dtype"] == 'float32' else 2,
                                real_q=rng.random() < 0.25)
    elif kind == 'cqm':
        c["cqm"] = G.rand_cqm_desc(rng, shaped_p=0.6, np_p=0.3, real_q_p=0.35)
        c["compress"] = rng.random() < 0.4
        c["check_header"] = rng.random() < 0.8
    elif kind == 'dqm':
        c["dqm"] = G.rand_dqm_desc(rng, np_p=0.3)
        c["compress"] = rng.random() < 0.4
        c["ignore_labels"] = rng.random() < 0.3
    else:
        n = rng.randint(1, 3)
        labels = G.pick_labels(rng, n, wild_p=0.0, range_p=0.0)
        vs = []
        names = ['case_r', 'case_g', 'case_b', 'case_k', 'case_w', 'case_y', 'case_m', 'case_c', 'case_o']
        rng.shuffle(names)
        for i, l in enumerate(labels):
            shared = rng.random() < 0.5
            k = rng.randint(1, 3)
            cases = ['s%d' % j for j in range(k)] if shared else [names.pop() for _ in range(k)]
            vs.append([enc_label(l), cases, shared])
        c["cl"] = vs
        c["off"] = str(rng.dyadic(8, 2))
        c["compress"] = rng.random() < 0.4
    return c


def legacy_files():
    root = os.path.join(os.path.dirname(os.path.dirname(dimod.__file__)), "tests", "data")
    return sorted(glob.glob(os.path.join(root, "cqm", "*.cqm")) + glob.glob(os.path.join(root, "fileview", "*.bqm"))), root


def run_legacy(c):
    files, root = legacy_files()
    fails = []
    if len(files) < 20:
        fails.append(f"only {len(files)} bundled legacy files found under {root}")
    n_ok = 0
    for p in files:
        kind = 'cqm' if p.endswith('.cqm') else 'bqm'
        try:
            data = open(p, 'rb').read()
            m = load_as(kind, data, 'file')
            m_b = load_as(kind, data, 'load_bytes')
            d = diff_state(state_of(m), state_of(m_b))
            if d:
                fails.append(f"{os.path.basename(p)}: from_file and fileview.load disagree: {d}")
            again = load_as(kind, m.to_file().read(), 'bytes')
            d = diff_state(state_of(m), state_of(again))
            if d:
                fails.append(f"{os.path.basename(p)}: re-serialising the loaded model changes it: {d}")
            n_ok += 1
        except Exception as e:
            fails.append(f"{os.path.basename(p)}: {type(e).__name__}: {e}")
    return {"coq": None, "py_fail": "; ".join(fails) if fails else None, "features": {"kind": "legacy"},
            "nontrivial": n_ok > 0, "observed": {"files": len(files)}}


def run_dqm_big(c):
    """a DQM whose VARS section (labels) is larger than the 64 KiB window in which zipfile looks for the
       end-of-central-directory record of the .npz member that precedes it"""
    m = dimod.DiscreteQuadraticModel()
    for i in range(c["n"]):
        m.add_variable(2, label=('v' * c["label_len"]) + '%06d' % i)
    m.set_linear_case(('v' * c["label_len"]) + '%06d' % 3, 1, 2.5)
    data = m.to_file().read()
    tail = len(data) - data.rindex(b'VARS')
    fails = []
    try:
        m2 = load_as('dqm', data, 'bytes')
        d = diff_state(state_of(m), state_of(m2))
        if d:
            fails.append("round trip changed the model: " + d)
    except Exception as e:
        fails.append(f"from_file raised {type(e).__name__}: {e} (labels section of {tail} bytes after the .npz data)")
    return {"coq": None, "py_fail": "; ".join(fails) if fails else None,
            "features": {"kind": "dqm_big", "dqm_labels_over_64k": tail > 65535}, "nontrivial": True,
            "observed": {"len": len(data), "vars_section": tail}}


def run_case(c):
    kind = c["kind"]
    if kind == 'legacy_all':
        return run_legacy(c)
    if kind == 'dqm_big':
        return run_dqm_big(c)
    feats = {"kind": kind, "how": c.get("how")}
    kw = {} if c.get("spool") is None else {"spool_size": c["spool"]}
    fails = []
    coq, extra = None, []
    observed = {}

    def rt(kind_, m, expect, data):
        try:
            m2 = load_as(kind_, data, c["how"])
        except Exception as e:
            fails.append(f"from_file raised {type(e).__name__}: {e}")
            return None
        d = diff_state(expect, state_of(m2))
        if d:
            fails.append("round trip changed the model: " + d)
        return m2

    if kind == 'bqm':
        m = G.build_bqm(c["desc"], c["dtype"])
        s0 = state_of(m)
        ver = (c["version"], 0) if c.get("version_as_tuple") else c["version"]
        data = m.to_file(version=ver, ignore_labels=c["ignore_labels"], **kw).read()
        if diff_state(s0, state_of(m)):
            fails.append("to_file modified the model")
        exp = dict(s0)
        if c["dtype"] == 'object':
            exp["dtype"] = 'float64'           # documented: object BQMs are serialised as float64
        if c["ignore_labels"]:
            exp = G.relabelled_state(exp, m.num_variables)
        rt('bqm', m, exp, data)
        feats.update(version=c["version"], dtype=c["dtype"], ignore_labels=c["ignore_labels"])
        if c["ignore_labels"] or all(G.is_modelled_label(v) for v in m.variables):
            coq = f"(CBqm {G.bqm_file_term(m, c['version'], c['ignore_labels'])} {cbytes(data)})"
        observed = {"len": len(data)}
        nontrivial = m.num_variables > 0
    elif kind == 'qm':
        m = G.build_qm(c["desc"], c["dtype"])
        s0 = state_of(m)
        data = m.to_file(**kw).read()
        if diff_state(s0, state_of(m)):
            fails.append("to_file modified the model")
        rt('qm', m, s0, data)
        feats.update(dtype=c["dtype"])
        if all(G.is_modelled_label(v) for v in m.variables):
            coq = f"(CQm {G.qm_file_term(m)} {cbytes(data)})"
            m_loaded = load_as('qm', data, 'bytes')
            extra = [f"(CAdj {G.full_adj_term(m_loaded)} {G.neig_term(m)})"]
        observed = {"len": len(data)}
        nontrivial = m.num_variables > 0
    elif kind == 'cqm':
        m = G.build_cqm(c["cqm"])
        s0 = state_of(m)
        data = m.to_file(compress=c["compress"], **kw).read()
        if diff_state(s0, state_of(m)):
            fails.append("to_file modified the model")
        try:
            how = c["how"]
            if how.startswith('load') or c["check_header"]:
                m2 = load_as('cqm', data, how)
            else:
                import io
                src = {'bytes': bytes(data), 'bytearray': bytearray(data), 'memoryview': memoryview(data)}.get(how) or io.BytesIO(data)
                m2 = dimod.ConstrainedQuadraticModel.from_file(src, check_header=False)
            d = diff_state(s0, state_of(m2))
            if d:
                fails.append("round trip changed the model: " + d)
        except Exception as e:
            fails.append(f"from_file raised {type(e).__name__}: {e}")
        labs = list(m.constraints)
        feats.update(compress=c["compress"], slash_label=any('/' in json.dumps(G.tl(l)) for l in labs),
                     soft=any(x["soft"] for x in s0["constraints"].values()),
                     discrete=any(x["discrete"] for x in s0["constraints"].values()),
                     onehot_unmarked=any(x["onehot"] and not x["discrete"] for x in s0["constraints"].values()))
        # byte level: every expression member, the varinfo member, the label member
        try:
            mem = G.zip_members(data)
            pv = list(m.variables)
            terms = [f"(CExpr {G.expr_file_term(m.objective, pv)} {cbytes(mem['objective'])})"]
            for lab, con in m.constraints.items():
                lstr = json.dumps(dimod.variables.serialize_variable(lab))
                terms.append(f"(CExpr {G.expr_file_term(con.lhs, pv)} {cbytes(mem['constraints/' + lstr + '/lhs'])})")
            vi = clist([f"(VT_{m.vartype(v).name}, ({cbytes(np.float64(m.lower_bound(v)).tobytes())}, "
                        f"{cbytes(np.float64(m.upper_bound(v)).tobytes())}))" for v in pv])
            terms.append(f"(CVarinfo {vi} {cbytes(mem['varinfo'])})")
            if 'variable_labels.json' in mem:
                if all(G.is_modelled_label(v) for v in pv):
                    terms.append(f"(CLabels {clist([G.clabel(v) for v in pv])} {cbytes(mem['variable_labels.json'])})")
            elif not G.is_range(pv):
                fails.append("variable_labels.json missing although the labels are not range(n)")
            coq, extra = terms[0], terms[1:]
        except Exception:
            fails.append("could not take the zip apart: " + traceback.format_exc()[-600:])
        observed = {"len": len(data), "members": sorted(mem) if 'mem' in dir() else None}
        nontrivial = len(m.variables) > 0 or len(m.constraints) > 0
    elif kind == 'dqm':
        m = G.build_dqm(c["dqm"])
        s0 = state_of(m)
        data = m.to_file(compress=c["compress"], ignore_labels=c["ignore_labels"], **kw).read()
        if diff_state(s0, state_of(m)):
            fails.append("to_file modified the model")
        exp = G.relabelled_state(s0, m.num_variables()) if c["ignore_labels"] else s0
        rt('dqm', m, exp, data)
        feats.update(compress=c["compress"], ignore_labels=c["ignore_labels"])
        observed = {"len": len(data)}
        nontrivial = m.num_variables() > 0
    elif kind == 'caselabel':
        m = dimod.CaseLabelDQM()
        for l, cases, shared in c["cl"]:
            m.add_variable(cases, label=dec_label(l), shared_labels=shared)
        m.offset = float(F(c["off"]))
        # numeric content through the plain-DQM interface
        base = dimod.DiscreteQuadraticModel
        vs = list(base.variables.fget(m)) if isinstance(getattr(base, 'variables', None), property) else list(m.variables)
        s0 = state_of(m)
        try:
            m.to_file()
            fails.append("CaseLabelDQM.to_file() without ignore_labels did not raise NotImplementedError")
        except NotImplementedError:
            pass
        data = m.to_file(ignore_labels=True, compress=c["compress"], **kw).read()
        exp = G.relabelled_state(s0, len(s0["vars"]))
        rt('dqm', m, exp, data)
        observed = {"len": len(data)}
        nontrivial = True
    else:
        raise ValueError(kind)
    return {"coq": coq, "extra_coq": extra, "py_fail": "; ".join(fails) if fails else None, "features": feats,
            "nontrivial": nontrivial, "observed": observed}


if __name__ == "__main__":
    wlib.main(gen_case, run_case)
