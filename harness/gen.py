"""Worker-side generators and observers shared by the checks.

All numeric data is dyadic with small numerators so that float64 (and float32,
with the tighter limits) arithmetic in the implementation is exact; observers
turn reported floats into exact Fractions.
"""
from fractions import Fraction
import numpy as np
import dimod

from wlib import cq, clist, cnat, cz, cbool, cpair, copt

LABEL_POOL = [0, 1, 2, 3, 'a', 'b', 'c', ('t', 1), ('t', 2), 'x0', 5, 7]
VT = {'BINARY': dimod.BINARY, 'SPIN': dimod.SPIN, 'INTEGER': dimod.INTEGER, 'REAL': dimod.REAL}


def enc_label(v):
    """label -> JSON-able"""
    if isinstance(v, tuple):
        return {"t": [enc_label(x) for x in v]}
    if isinstance(v, (np.integer,)):
        return int(v)
    if isinstance(v, (np.floating,)):
        return float(v)
    return v


def dec_label(j):
    if isinstance(j, dict):
        return tuple(dec_label(x) for x in j["t"])
    if isinstance(j, list):
        return tuple(dec_label(x) for x in j)
    return j


def F(x):
    if isinstance(x, Fraction):
        return x
    if isinstance(x, str):
        return Fraction(x)
    if isinstance(x, (int, np.integer)):
        return Fraction(int(x))
    return Fraction(float(x))


def fs(x):
    return str(F(x))


def rand_labels(rng, n):
    pool = list(LABEL_POOL)
    rng.shuffle(pool)
    return pool[:n]


def rand_vartypes(rng, n, kinds):
    return [rng.choice(kinds) for _ in range(n)]


def rand_desc(rng, nmax=5, kinds=('BINARY', 'SPIN', 'INTEGER', 'REAL'), single_vartype=False,
              kmax=8, jmax=2, density=0.5, selfloops=True, nmin=0):
    """A random model description (JSON-able):
       vars: [[label, vartype, lb, ub]], lin: [[label, frac]], quad: [[u, v, frac]], off: frac"""
    n = rng.randint(nmin, nmax)
    labels = rand_labels(rng, n)
    if single_vartype:
        k = rng.choice(kinds)
        vts = [k] * n
    else:
        vts = rand_vartypes(rng, n, kinds)
    vars_ = []
    for l, vt in zip(labels, vts):
        if vt == 'INTEGER':
            lb = rng.choice([0, 0, -3, 1]); ub = lb + rng.choice([1, 2, 5, 7])
        elif vt == 'REAL':
            lb = rng.choice([0, -2, -0.5]); ub = lb + rng.choice([1, 2.5, 4])
        elif vt == 'SPIN':
            lb, ub = -1, 1
        else:
            lb, ub = 0, 1
        vars_.append([enc_label(l), vt, lb, ub])
    lin = []
    for l in labels:
        r = rng.random()
        if r < 0.15:
            b = Fraction(0)
        else:
            b = rng.dyadic(kmax, jmax)
        lin.append([enc_label(l), str(b)])
    quad = []
    for i in range(n):
        for j in range(i, n):
            if i == j:
                if not selfloops or vts[i] in ('BINARY', 'SPIN', 'REAL') or rng.random() > 0.4:
                    continue
            else:
                if rng.random() > density:
                    continue
                if 'REAL' in (vts[i], vts[j]):
                    continue   # REAL interactions are not allowed in CQMs by default; keep models portable
            b = rng.dyadic(kmax, jmax) if rng.random() > 0.1 else Fraction(0)
            u, v = (labels[i], labels[j]) if rng.random() < 0.5 else (labels[j], labels[i])
            quad.append([enc_label(u), enc_label(v), str(b)])
    off = rng.dyadic(kmax, jmax) if rng.random() < 0.7 else Fraction(0)
    return {"vars": vars_, "lin": lin, "quad": quad, "off": str(off)}


def build_bqm(desc, cls=None, dtype=None):
    """BQM from a description whose variables share one vartype"""
    vt = desc["vars"][0][1] if desc["vars"] else desc.get("vartype", "BINARY")
    if cls is None:
        bqm = dimod.BinaryQuadraticModel(VT[vt], dtype=dtype or np.float64)
    else:
        bqm = cls(VT[vt])
    for l, _, _, _ in desc["vars"]:
        bqm.add_variable(dec_label(l))
    for l, b in desc["lin"]:
        bqm.add_linear(dec_label(l), float(F(b)))
    for u, v, b in desc["quad"]:
        bqm.add_quadratic(dec_label(u), dec_label(v), float(F(b)))
    bqm.offset = float(F(desc["off"]))
    return bqm


def build_qm(desc, dtype=None):
    qm = dimod.QuadraticModel(dtype=dtype or np.float64)
    for l, vt, lb, ub in desc["vars"]:
        if vt in ('INTEGER', 'REAL'):
            qm.add_variable(vt, dec_label(l), lower_bound=lb, upper_bound=ub)
        else:
            qm.add_variable(vt, dec_label(l))
    for l, b in desc["lin"]:
        qm.add_linear(dec_label(l), float(F(b)))
    for u, v, b in desc["quad"]:
        qm.add_quadratic(dec_label(u), dec_label(v), float(F(b)))
    qm.offset = float(F(desc["off"]))
    return qm


def observe(m):
    """exact coefficients as the model itself reports them"""
    lin = [[enc_label(v), fs(b)] for v, b in m.linear.items()]
    quad = [[enc_label(u), enc_label(v), fs(b)] for (u, v), b in m.quadratic.items()]
    return {"vars": [enc_label(v) for v in m.variables], "lin": lin, "quad": quad, "off": fs(m.offset)}


class LabelTable:
    """labels (python objects) -> small nats used by the Coq model"""

    def __init__(self, labels=()):
        self.tab = {}
        self.order = []
        for l in labels:
            self.idx(l)

    def idx(self, l):
        l = dec_label(l) if isinstance(l, (dict, list)) else l
        k = (type(l).__name__ if not isinstance(l, (int, np.integer)) else 'int', l if not isinstance(l, np.integer) else int(l))
        if k not in self.tab:
            self.tab[k] = len(self.order)
            self.order.append(l)
        return self.tab[k]

    def __len__(self):
        return len(self.order)


def coq_obs(o, T):
    """observation dict -> Coq `obs` term"""
    lin = clist([cpair(cnat(T.idx(l)), cq(F(b))) for l, b in o["lin"]])
    quad = clist([f"({cnat(T.idx(u))}, {cnat(T.idx(v))}, {cq(F(b))})" for u, v, b in o["quad"]])
    return f"(mkObs {cq(F(o['off']))} {lin} {quad})"


def coq_vt(vt):
    return vt


def coq_vtfun(pairs, T, default='INTEGER'):
    """[(label, vartype)] -> Coq function label -> vartype (as a match on an assoc list)"""
    items = clist([cpair(cnat(T.idx(l)), vt) for l, vt in pairs])
    return f"(vt_of {items})"


def exc_bucket(e):
    for c in (ValueError, TypeError, KeyError, IndexError):
        if isinstance(e, c):
            return c.__name__
    return "other:" + type(e).__name__
