#!/venv/bin/python
"""Development aid (not a registered check): validate a seeded change and run a check against it.

  harness/seed_eval.py <dir with patch.diff demo.py meta.json> <PID> [--keep /verif/seeded/<PID>/<name>] [--tier quick]

Applies the patch to a throw-away worktree of /repo (never to /repo itself), builds it through the
same scratch-build cache the checks use, confirms: demo passes on the unchanged tree, fails on the
changed tree, the repository's test suite still passes on the changed tree; then runs
`VERIF_REPO=<worktree> ./check PID` and reports whether a VIOLATION was raised.
"""
import json
import os
import shutil
import subprocess
import sys

ROOT = os.path.dirname(os.path.dirname(os.path.abspath(__file__)))
sys.path.insert(0, os.path.join(ROOT, "harness"))
import common as C  # noqa


def run(cmd, **kw):
    return subprocess.run(cmd, shell=isinstance(cmd, str), capture_output=True, text=True, **kw)


def main():
    src, pid = sys.argv[1], sys.argv[2]
    keep = sys.argv[sys.argv.index("--keep") + 1] if "--keep" in sys.argv else None
    tier = sys.argv[sys.argv.index("--tier") + 1] if "--tier" in sys.argv else "quick"
    name = os.path.basename(os.path.normpath(src))
    wt = f"/tmp/seed_{pid}_{name}_{os.getpid()}"
    run(["git", "-C", "/repo", "worktree", "add", "-f", "--detach", wt, "HEAD"])
    out = {"pid": pid, "src": src}
    c = None
    try:
        r = run(["git", "-C", wt, "apply", os.path.abspath(os.path.join(src, "patch.diff"))])
        out["applies"] = r.returncode == 0
        if r.returncode != 0:
            out["apply_err"] = r.stderr[-500:]
            print(json.dumps(out, indent=1))
            return 1
        clean = C.ensure_build("/repo")
        try:
            mut = C.ensure_build(wt)
            out["builds"] = True
        except RuntimeError as e:
            out["builds"] = False
            out["build_err"] = str(e)[-800:]
            print(json.dumps(out, indent=1))
            return 1
        demo = os.path.abspath(os.path.join(src, "demo.py"))
        env = dict(os.environ)

        def rundemo(b):
            e = dict(env, PYTHONPATH=b)
            return run(["timeout", "300", C.PY, demo], env=e, cwd="/tmp")
        d0, d1 = rundemo(clean), rundemo(mut)
        out["demo_passes_unchanged"] = d0.returncode == 0
        out["demo_fails_changed"] = d1.returncode != 0
        if d0.returncode != 0:
            out["demo_unchanged_err"] = (d0.stdout + d0.stderr)[-600:]
        t = run(f"cd {mut} && PYTHONPATH={mut} timeout 1200 {C.PY} -m pytest -q -p no:cacheprovider --timeout=900 -x 2>&1 | tail -3", env=env)
        out["tests"] = t.stdout.strip().splitlines()[-1] if t.stdout.strip() else t.stderr[-200:]
        out["tests_pass"] = " passed" in out["tests"] and "failed" not in out["tests"]
        e = dict(env, VERIF_REPO=wt)
        evp = os.path.join(ROOT, "evidence", pid + ".json")
        saved = open(evp).read() if os.path.exists(evp) else None
        c = run([os.path.join(ROOT, "check"), pid, "--tier", tier], env=e, cwd=ROOT)
        if saved is not None:
            open(evp, "w").write(saved)      # evidence must come from /repo itself, not from a seeded tree
        out["check_exit"] = c.returncode
        out["check_lines"] = [l for l in c.stdout.splitlines() if l.startswith(("VIOLATION", "KNOWN", "["))][:6]
        out["caught"] = c.returncode == 1 and any(l.startswith("VIOLATION") for l in c.stdout.splitlines())
        # first replay, for the record
        for l in c.stdout.splitlines():
            if l.startswith("VIOLATION") and "replay=" in l:
                p = os.path.join(ROOT, l.split("replay=")[1].split()[0])
                if os.path.exists(p):
                    d = json.load(open(p))
                    out["first_replay"] = {"reason": str(d.get("reason"))[:300], "features": d.get("features"),
                                           "case": json.dumps(d.get("case"))[:400]}
                break
        if keep and out["demo_passes_unchanged"] and out["demo_fails_changed"] and out["tests_pass"]:
            os.makedirs(keep, exist_ok=True)
            if os.path.realpath(keep) != os.path.realpath(src):
                shutil.copy(os.path.join(src, "patch.diff"), keep)
                shutil.copy(demo, keep)
            meta = {}
            mp = os.path.join(src, "meta.json")
            if os.path.exists(mp):
                try:
                    meta = json.load(open(mp))
                except Exception:
                    meta = {}
            prev = meta.get("check_run")
            if prev and not prev.get("caught") and "first_check_run" not in meta:
                meta["first_check_run"] = dict(prev, note="missed by the check as first built; the check was then strengthened (see DESIGN.md 10.4)")
            meta.update({"property": pid, "validated": {k: out[k] for k in ("applies", "builds", "demo_passes_unchanged", "demo_fails_changed", "tests_pass", "tests")},
                         "check_run": {"cmd": f"VERIF_REPO=<worktree with patch applied> ./check {pid} --tier {tier}",
                                       "caught": out["caught"], "lines": out["check_lines"], "first_replay": out.get("first_replay")}})
            json.dump(meta, open(os.path.join(keep, "meta.json"), "w"), indent=1)
        print(json.dumps(out, indent=1))
    finally:
        run(["git", "-C", "/repo", "worktree", "remove", "--force", wt])
        # drop the mutated scratch build
        try:
            import hashlib
            suffix = hashlib.sha256(os.path.realpath(wt).encode()).hexdigest()[:6]
            for d in os.listdir(C.CACHE):
                if d.endswith("-" + suffix):
                    shutil.rmtree(os.path.join(C.CACHE, d), ignore_errors=True)
        except Exception:
            pass
        # drop the private copy of the Coq development the check made for this tree
        try:
            import hashlib
            shutil.rmtree(os.path.join(C.CACHE + "-coq", hashlib.sha1(os.path.realpath(wt).encode()).hexdigest()[:12]), ignore_errors=True)
        except Exception:
            pass
        # restore evidence produced against the mutated tree
        # (only the replay files of this run: other checks may be running and own the rest of the directory)
        for l in (c.stdout.splitlines() if c is not None else []):
            if l.startswith("VIOLATION") and "replay=" in l:
                try:
                    os.remove(os.path.join(ROOT, l.split("replay=")[1].split()[0]))
                except OSError:
                    pass
    return 0


if __name__ == "__main__":
    sys.exit(main())
