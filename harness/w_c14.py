"""C14 worker: operation histories on dimod.SampleSet, deferred (future-backed) sample sets,
and as_samples under every accepted form.

Coverage (property clause / entry point / option -> stream):
  as_samples, every accepted form ............ kind "as": (array, labels) tuple / list rows / column-permuted / Variables labels /
                                               list of dicts with per-row key order / generator of dicts / iterator of
                                               (array, labels) / SampleSet (sorted or not) / single dict / (dict, labels) /
                                               1-d array / bare array, list of lists, 1-d list (range labels); keywords
                                               dtype, copy, order, labels_type (list / Variables); dtype narrowing (NarrowCase)
  from_samples ............................... every seq case (sort_labels on/off, labels int / str / mixed / range(n));
                                               aggregate_samples=True (spec["agg"], extra SeqCase)
  aggregate .................................. seq op "aggregate" (oracle + both code mirrors)
  first ...................................... seq op "first" (relational + code shape)
  lowest(rtol, atol) ......................... seq op "lowest"
  truncate(n, sorted_by) / slice(...) ........ seq ops "truncate", "slice" (sorted_by None / energy / num_occurrences / extra vector)
  samples(n, sorted_by), iter(sampleset) ..... seq op "samples"   (StepSamples)
  data(sorted_by, reverse, name, sample_dict_cast, index=True) ... seq op "data" (StepData)
  filter(pred) ............................... seq op "filter" (7 predicates)
  relabel_variables(mapping, inplace) ........ seq op "relabel"; deferred: kinds "defer" and "alias"
  keep_variables / drop_variables ............ seq ops "keep", "drop" (list / set / iterator / Variables; bad and duplicate labels)
  append_variables(samples_like, sort_labels)  seq op "append_vars" (tuple / dict / SampleSet; one row or all; out-of-range values)
  concatenate(samplesets, defaults) .......... seq op "concat" (same data vectors; permuted columns, flipped vartype, mismatch),
                                               seq op "concat_d" (DIFFERENT data vectors, defaults given / partial / None,
                                               list or generator argument; StepConcatD)
  append_data_vectors ........................ seq op "append_vec"
  change_vartype(vartype, energy_offset, inplace)  seq op "change_vartype" (vartype given as str / Vartype / set; int and
                                               fractional offsets; int energies; bool / unsigned samples); deferred: "defer", "alias"
  deferred (future-backed) sample sets ....... kind "defer": one handle, value semantics, result set before / after the calls;
                                               kind "alias": the future's RESULT OBJECT, 1-2 SampleSet.from_future on the same
                                               future and every object the calls return, calls and reads interleaved with
                                               set_result at a random point; after every event every resolved object is
                                               dumped (content + which objects share its record) and compared with the heap
                                               model Model/Alias.v
Not reached (reported as partial): from_samples_bqm / from_samples_cqm (C08), to_serializable round trips (C11),
to_pandas_dataframe, SampleSet.wait_id; result_hook= given by the caller and futures without a done() method are
reached only in their simplest forms (alias stream, "newfut").
"""
import copy
import random
import warnings
from fractions import Fraction
from concurrent.futures import Future

import numpy as np
import dimod
from dimod.variables import Variables

import wlib
from wlib import cq, clist, cnat, cz, cbool, cpair, copt
import gen
from gen import F, enc_label, dec_label, LabelTable

warnings.simplefilter("ignore")

POOL = [0, 1, 2, 3, 4, 5, 6, 7, 'a', 'b', 'c', 'x0', ('t', 1), ('t', 2), 'ab', 'ba']     # 4, 6: where resolve_label_conflict starts counting
FRESH = [10, 11, 12, 'n0', 'n1', 'n2', ('t', 3), ('u', 0)]
VTC = {'SPIN': 'SPIN', 'BINARY': 'BINARY', 'INTEGER': 'INTEGER', 'DISCRETE': 'INTEGER', 'REAL': 'REAL'}
FIELD_ID = {'f0': 0, 'f1': 1, 'g0': 10, 'g1': 11, 'g2': 12}
ENERGIES = [Fraction(-1), Fraction(0), Fraction(1, 2), Fraction(1), Fraction(3, 2), Fraction(2), Fraction(-1, 4)]


def lclass(l):
    return 0 if isinstance(l, (int, np.integer)) else 1 if isinstance(l, str) else 2


def coq_K(T):
    """sort keys of every label seen: (class, rank inside class)"""
    items = []
    by = {}
    for i, l in enumerate(T.order):
        by.setdefault(lclass(l), []).append((l, i))
    for c, ls in by.items():
        for rank, (l, i) in enumerate(sorted(ls, key=lambda t: t[0])):
            items.append(cpair(cnat(i), cpair(cnat(c), cnat(rank))))
    return clist(items)


def info_of(k):
    return {} if not k else {'id': k, 'nested': {'a': [k]}}


def info_token(info):
    if info == {}:
        return 0
    k = info.get('id')
    if isinstance(k, int) and info == info_of(k):
        return k
    raise AssertionError("unexpected info %r" % (info,))


def value_for(rng, vt):
    if vt == 'BINARY':
        return rng.choice([0, 1])
    if vt == 'SPIN':
        return rng.choice([-1, 1])
    if vt in ('INTEGER', 'DISCRETE'):
        return rng.randint(-3, 5)
    return float(rng.choice([Fraction(0), Fraction(1, 2), Fraction(-3, 4), Fraction(2), Fraction(5, 4)]))


# values at and around every integer-width boundary (dtype narrowing in _sample_array, casts between sample fields)
BOUNDARY = [127, 128, -127, -128, -129, 255, 256, 32767, 32768, -32767, -32768, -32769, 65535, 65536,
            2 ** 31 - 1, 2 ** 31, -2 ** 31 + 1, -2 ** 31, -2 ** 31 - 1, 2 ** 32]


def append_value(rng, vt):
    """a value for an appended column: also values the receiver's (possibly narrow) sample dtype cannot hold"""
    if vt in ('INTEGER', 'DISCRETE'):
        return rng.choice([rng.randint(-3, 5), rng.randint(-3, 5), 300, -200, 40000, rng.choice(BOUNDARY), rng.choice(BOUNDARY)])
    if vt == 'REAL':
        return float(rng.choice([Fraction(1, 2), Fraction(-3, 4), Fraction(2), Fraction(5, 4), Fraction(300), Fraction(140001, 2)]))
    return value_for(rng, vt)


def rand_labels(rng, n):
    r = rng.random()
    if r < 0.12:
        return list(range(n))         # Variables' range fast path (labels 0..n-1 at their own index)
    if r < 0.35:
        pool = [l for l in POOL if isinstance(l, int)]
    elif r < 0.5:
        pool = [l for l in POOL if isinstance(l, str)]
    else:
        pool = list(POOL)
    rng.shuffle(pool)
    return pool[:n]


def gen_spec(rng, nmax=5, rows=(0, 1, 2, 3, 4, 6, 8)):
    vt = rng.choice(['SPIN', 'BINARY', 'BINARY', 'SPIN', 'INTEGER', 'DISCRETE', 'REAL'])
    n = rng.randint(0, nmax)
    labels = rand_labels(rng, n)
    n = len(labels)
    sdt = {'BINARY': ['int8', 'int8', 'int32', 'int64', 'float64', 'bool', 'uint8'],
           'SPIN': ['int8', 'int8', 'int16', 'int64', 'float64', 'float32'],
           'INTEGER': ['int8', 'int16', 'int64', 'float64'], 'DISCRETE': ['int8', 'int64'],
           'REAL': ['float64', 'float32', 'float64', 'int8', 'int16']}[vt]
    sdtype = rng.choice(sdt)
    # a REAL sample set may be stored in a narrow integer field when its values happen to be integral
    vf = (lambda: rng.randint(-3, 5)) if (vt == 'REAL' and sdtype.startswith('int')) else (lambda: value_for(rng, vt))
    nrows = rng.choice(rows)
    k = rng.randint(1, 3)
    distinct = [[vf() for _ in range(n)] for _ in range(k)]
    srows = [list(rng.choice(distinct)) if rng.random() < 0.8 else [vf() for _ in range(n)] for _ in range(nrows)]
    # unsigned / boolean record fields (round-6 miss C14 r6m1: np.diff wraps on unsigned and is XOR on bool fields, so a
    # 'record already sorted' shortcut misjudges them): energies and num_occurrences as uint, an extra vector as bool / uint8
    edt = rng.choice(['float64', 'float64', 'float64', 'int64', 'float64', 'float64', 'int64', 'uint8'])
    if edt == 'uint8':
        en = [str(rng.randint(0, 5)) for _ in range(nrows)]
    elif edt == 'int64':
        en = [str(rng.randint(-2, 3)) for _ in range(nrows)]
    else:
        en = [str(rng.choice(ENERGIES)) for _ in range(nrows)]
    occ = [rng.choice([1, 1, 2, 3, 0]) for _ in range(nrows)]
    fields = rng.choice([[], [], ['f0'], ['f0', 'f1']])
    extra = {f: [str(rng.choice(ENERGIES)) for _ in range(nrows)] for f in fields}
    fdtype = {}
    for f in fields:
        if rng.random() < 0.3:
            fdtype[f] = rng.choice(['bool', 'uint8'])
            extra[f] = [str(rng.randint(0, 1 if fdtype[f] == 'bool' else 4)) for _ in range(nrows)]
    return {"vartype": vt, "labels": [enc_label(l) for l in labels], "sdtype": sdtype, "edtype": edt,
            "odtype": rng.choice(['int64', 'int64', 'int64', 'uint16', 'uint8']), "fdtype": fdtype,
            "rows": srows, "energy": en, "occ": occ, "fields": fields, "extra": extra,
            "info": rng.choice([0, 0, 7, 9]), "sort_labels": rng.random() < 0.6,
            "agg": rng.random() < 0.15, "vform": rng.choice(['str', 'str', 'enum', 'set'])}


OPS = ['aggregate', 'aggregate', 'slice', 'slice', 'truncate', 'lowest', 'filter', 'relabel', 'relabel', 'keep', 'drop',
       'append_vars', 'change_vartype', 'change_vartype', 'concat', 'append_vec', 'copy', 'first', 'data', 'samples', 'concat_d']


def gen_op(rng, kind=None):
    k = kind or rng.choice(OPS)
    ri = lambda: rng.randint(0, 50)
    if k == 'slice':
        def arg():
            return None if rng.random() < 0.3 else rng.randint(-9, 9)
        step = rng.choice([None, None, 1, 2, -1, -2, 3])
        return {"op": k, "key": rng.choice([None, None, 'energy', 'energy', 'num_occurrences', 'tag', 'extra']),
                "args": [arg(), arg(), step], "nargs": rng.choice([1, 2, 3, 3])}
    if k == 'concat_d':
        return {"op": k, "others": [{"nrows": rng.randint(0, 3), "flip": rng.random() < 0.3, "seed": rng.randint(0, 50),
                                     "fields": rng.sample(['f0', 'f1', 'g0'], rng.randint(0, 3))} for _ in range(rng.randint(1, 2))],
                "defaults": rng.choice([None, ['f0'], ['f0', 'f1', 'g0'], ['g0', 'f1']]),
                "dvals": [str(rng.choice(ENERGIES)) for _ in range(3)], "generator": rng.random() < 0.3}
    if k == 'data':
        return {"op": k, "key": rng.choice([None, 'energy', 'energy', 'num_occurrences', 'tag', 'extra']), "reverse": rng.random() < 0.5,
                "name": rng.choice(['Sample', None]), "cast": rng.random() < 0.5}
    if k == 'samples':
        return {"op": k, "key": rng.choice([None, 'energy', 'energy', 'num_occurrences', 'extra']),
                "n": rng.choice([None, None, rng.randint(-3, 9)]), "iter": rng.random() < 0.3}
    if k == 'truncate':
        return {"op": k, "n": rng.randint(-2, 7), "key": rng.choice([None, 'energy', 'energy', 'extra'])}
    if k == 'lowest':
        tol = lambda: rng.choice(['default', 'default', '0', '1/2', '1', '1/4', '3/2'])
        return {"op": k, "rtol": tol(), "atol": tol()}
    if k == 'filter':
        p = rng.choice(['true', 'false', 'en_le', 'en_le', 'oc_ge', 'val', 'val', 'tag_even', 'extra_le'])
        return {"op": k, "pred": p, "c": str(rng.choice(ENERGIES)), "k": rng.randint(0, 3), "vi": ri(), "x": rng.choice([0, 1, -1, 2])}
    if k == 'relabel':
        mode = rng.choice(['fresh', 'fresh', 'swap', 'cycle', 'conflict', 'absent', 'partial', 'identity', 'absent_to_existing',
                           'gen_clash', 'gen_clash'])
        return {"op": k, "mode": mode, "i": [ri(), ri(), ri()], "fresh": [enc_label(x) for x in rng.sample(FRESH, 3)],
                "inplace": rng.random() < 0.5}
    if k == 'keep':
        return {"op": k, "idx": [ri() for _ in range(rng.randint(0, 4))], "form": rng.choice(['list', 'list', 'set', 'iter', 'vars']),
                "bad": rng.random() < 0.12, "dup": rng.random() < 0.08, "shuffle": ri()}
    if k == 'drop':
        return {"op": k, "idx": [ri() for _ in range(rng.randint(0, 3))], "absent": rng.random() < 0.3,
                # every iterable of labels, a str of one-character labels included ('ab' names 'a' and 'b', not the label
                # 'ab': membership in a str is a substring test; round-6 miss C14 r6m2)
                "form": rng.choice(['list', 'set', 'tuple', 'iter', 'vars', 'dictkeys', 'str', 'str'])}
    if k == 'append_vars':
        return {"op": k, "labels": [enc_label(x) for x in rng.sample(FRESH, rng.randint(0, 3))],
                "rows": rng.choice(['one', 'one', 'all', 'all', 'bad']), "form": rng.choice(['tuple', 'dict', 'sampleset']),
                "sort_labels": rng.random() < 0.5, "overlap": rng.random() < 0.1, "seed": ri()}
    if k == 'change_vartype':
        return {"op": k, "to": rng.choice(['SPIN', 'BINARY', 'flip', 'flip', 'same', 'INTEGER']),
                "off": rng.choice(['0', '0', '1/2', '1', '-3/4', '2']), "inplace": rng.random() < 0.5,
                "vform": rng.choice(['str', 'str', 'enum', 'set'])}
    if k == 'concat':
        return {"op": k, "others": [{"nrows": rng.randint(0, 3), "flip": rng.random() < 0.4, "seed": ri(),
                                     "mismatch": rng.random() < 0.07, "info": rng.choice([0, 5])}
                                    for _ in range(rng.randint(0, 2))]}
    if k == 'append_vec':
        return {"op": k, "name": rng.choice(['g0', 'g1', 'g2', 'f0']), "vals": [str(rng.choice(ENERGIES)) for _ in range(4)],
                "badlen": rng.random() < 0.1}
    return {"op": k}


# The hooks installed by relabel_variables on an unresolved sample set must use the mapping as it was at call time
# (/repo commit 0fea62d copies the dict in both not-done branches; before that the caller's dict was captured by
# reference: `s = SampleSet.from_future(f); m = {'a': 'x'}; s.relabel_variables(m); m['a'] = 'y'; f.set_result(ss_ab)`
# gave ['y', 'b']).  15% of the defer cases change the caller's dict right after each deferred relabel.
MUTATE_MAPPING_STREAM = True


def gen_case(rng, tier):
    r = rng.random()
    if r < 0.12:
        n = rng.randint(0, 4)
        m = rng.choice([0, 1, 1, 2, 3])
        if rng.random() < 0.25:
            labels = list(range(n))
        else:
            labels = rand_labels(rng, n)
        n = len(labels)
        vt = rng.choice(['BINARY', 'SPIN', 'INTEGER', 'REAL'])
        rows = [[rng.choice(BOUNDARY) if (vt == 'INTEGER' and rng.random() < 0.35) else value_for(rng, vt) for _ in range(n)]
                for _ in range(m)]
        perms = []
        for _ in range(m + 1):
            p = list(range(n))
            rng.shuffle(p)
            perms.append(p)
        return {"kind": "as", "labels": [enc_label(l) for l in labels], "rows": rows, "perms": perms,
                "dtype": rng.choice([None, None, 'float64', 'int32']), "copy": rng.random() < 0.5,
                "order": rng.choice(['C', 'F'])}
    if r < 0.2:
        return gen_alias(rng, tier)
    if r < 0.36:
        spec = gen_spec(rng, rows=(0, 1, 2, 3))
        nops = rng.randint(1, 4)
        ops = [gen_op(rng, rng.choice(['relabel', 'change_vartype'])) for _ in range(nops)]
        c = {"kind": "defer", "spec": spec, "steps": ops, "timing": rng.choice(['before', 'before', 'after_set'])}
        if MUTATE_MAPPING_STREAM and rng.random() < 0.15:
            c["mutate_mapping"] = True
        return c
    spec = gen_spec(rng)
    nmax = 6 if tier == 'quick' else 14
    return {"kind": "seq", "spec": spec, "steps": [gen_op(rng) for _ in range(rng.randint(1, nmax))]}


def gen_alias(rng, tier):
    """several handles on ONE future: the result object, 1-2 SampleSet.from_future(fut), and whatever the calls return;
    the result is set at a random point of the history; reads (which resolve) are interleaved"""
    spec = gen_spec(rng, nmax=4, rows=(0, 1, 2, 2, 3))
    n = rng.randint(1, 5 if tier == 'quick' else 9)
    steps = []
    for _ in range(n):
        r = rng.random()
        if r < 0.08:
            steps.append({"ev": "newfut", "style": rng.choice(['plain', 'hook', 'nodone'])})
        elif r < 0.7:
            op = gen_op(rng, rng.choice(['relabel', 'relabel', 'change_vartype']))
            if rng.random() < 0.5:
                op["inplace"] = True
            steps.append({"ev": "call", "h": rng.randint(0, 50), "op": op})
        else:
            steps.append({"ev": "read", "h": rng.randint(0, 50)})
    return {"kind": "alias", "spec": spec, "steps": steps, "nfut": rng.choice([1, 2, 2]), "set_at": rng.randint(0, n),
            "only_relabel": rng.random() < 0.4, "final": [rng.randint(0, 50) for _ in range(8)]}


# ----------------------------------------------------------------------------------------

# forms in which the values reach _sample_array as python lists / tuples (no dtype of their own)
NARROWING_FORMS = {'tuple_lists', 'dicts', 'gen', 'dict', 'dict_labels', 'lists', 'list_1d'}


class Ctx:
    def __init__(self):
        self.T = LabelTable()
        self.next_tag = 0
        self.feats = {}
        self.last_sorted = None
        self.input_changed = None      # set by an op whose OTHER inputs (not the receiver) were changed by the call

    def tags(self, n):
        t = list(range(self.next_tag, self.next_tag + n))
        self.next_tag += n
        return t


def build(spec, ctx, labels=None, vartype=None, sdtype=None, edtype=None, field_order=None, sort_labels=None, **kw):
    labels = [dec_label(l) for l in spec["labels"]] if labels is None else labels
    vt = vartype or spec["vartype"]
    n = len(labels)
    rows = spec["rows"]
    arr = np.array(rows, dtype=sdtype or spec["sdtype"]).reshape(len(rows), n)
    en = np.array([float(F(e)) for e in spec["energy"]], dtype=edtype or spec["edtype"])
    tags = ctx.tags(len(rows))
    vecs = {}
    for name in (field_order or ['tag'] + spec["fields"]):
        if name == 'tag':
            vecs['tag'] = np.array(tags, dtype=np.int64)
        else:
            vecs[name] = np.array([float(F(x)) for x in spec["extra"][name]], dtype=(spec.get("fdtype") or {}).get(name, 'float64'))
    ss = dimod.SampleSet.from_samples((arr, labels), vt, energy=en, num_occurrences=np.array(spec["occ"], dtype=spec.get("odtype", 'int64')),
                                      info=info_of(spec["info"]), sort_labels=spec["sort_labels"] if sort_labels is None else sort_labels,
                                      **kw, **vecs)
    return ss, tags


def logical(spec, tags, ctx):
    """the input of from_samples as a Coq sset (labels in the given order)"""
    T = ctx.T
    labels = [dec_label(l) for l in spec["labels"]]
    rows = []
    for i, r in enumerate(spec["rows"]):
        ex = [cq(F(spec["extra"][f][i])) for f in spec["fields"]]
        rows.append(f"(mkRow {clist([cq(F(x)) for x in r])} {cq(F(spec['energy'][i]))} {cz(spec['occ'][i])} {cnat(tags[i])} {clist(ex)})")
    return (f"(mkSS {clist([cnat(T.idx(l)) for l in labels])} {VTC[spec['vartype']]} {clist(rows)} {cnat(spec['info'])} "
            f"{clist([cnat(FIELD_ID[f]) for f in spec['fields']])})")


def extra_names(ss):
    return [n for n in ss.record.dtype.names if n not in ('sample', 'energy', 'num_occurrences', 'tag')]


def observe(ss):
    rec = ss.record
    names = extra_names(ss)
    rows = []
    for i in range(len(rec)):
        rows.append({"vals": [F(x) for x in rec.sample[i]], "en": F(rec.energy[i]), "oc": int(rec.num_occurrences[i]),
                     "tag": int(rec['tag'][i]), "extra": [F(rec[nm][i]) for nm in names]})
    if rec.sample.shape[1] != len(ss.variables):
        raise AssertionError("record width != number of labels")
    return {"labels": list(ss.variables), "vt": ss.vartype.name, "rows": rows, "info": info_token(ss.info), "fields": names}


def coq_row(r):
    return (f"(mkRow {clist([cq(x) for x in r['vals']])} {cq(r['en'])} {cz(r['oc'])} {cnat(r['tag'])} "
            f"{clist([cq(x) for x in r['extra']])})")


def coq_ss(o, T):
    return (f"(mkSS {clist([cnat(T.idx(l)) for l in o['labels']])} {VTC[o['vt']]} {clist([coq_row(r) for r in o['rows']])} "
            f"{cnat(o['info'])} {clist([cnat(FIELD_ID[f]) for f in o['fields']])})")


def cozl(x):
    return "None" if x is None else f"(Some {cz(x)})"


def tolv(s, default):
    return default if s == 'default' else float(F(s))


class Skip(Exception):
    pass


def resolve_relabel(op, labels):
    """abstract relabel -> concrete mapping (list of pairs, dict order)"""
    n = len(labels)
    fresh = [dec_label(x) for x in op["fresh"]]
    fresh = [x for x in fresh if x not in labels]
    i = [(k % n) if n else 0 for k in op["i"]]
    mode = op["mode"]
    if n == 0 or mode == 'absent':
        return [(fresh[0], fresh[1])] if len(fresh) > 1 else []
    if mode == 'fresh':
        return [(labels[i[0]], fresh[0])] if fresh else []
    if mode == 'partial':
        m = {labels[i[0]]: fresh[0]} if fresh else {}
        if len(fresh) > 1 and labels[i[1]] not in m:
            m[labels[i[1]]] = fresh[1]
        return list(m.items())
    if mode == 'swap':
        a, b = labels[i[0]], labels[i[1]]
        return [(a, b), (b, a)] if a != b else [(a, a)]
    if mode == 'cycle':
        ls = []
        for k in i:
            if labels[k] not in ls:
                ls.append(labels[k])
        return [(ls[j], ls[(j + 1) % len(ls)]) for j in range(len(ls))]
    if mode == 'gen_clash':
        # a swap / cycle (so utilities.resolve_label_conflict has to invent intermediate integer labels, counting up from
        # 2 * len(mapping)) TOGETHER WITH ordinary entries whose targets are exactly the integers it would pick next
        ls = []
        for k in (i[:2] if op["i"][2] % 2 else i):
            if labels[k] not in ls:
                ls.append(labels[k])
        others = [l for l in labels if l not in ls]
        extra = others[:1 + op["i"][0] % 2]
        L = len(ls) + len(extra)
        cands = [x for x in range(2 * L, 2 * L + 5) if x not in labels]
        if op["i"][1] % 3 == 0:
            cands = cands[1:] + cands[:1]
        m = [(ls[j], ls[(j + 1) % len(ls)]) for j in range(len(ls))]
        m = m + list(zip(extra, cands))
        if op["i"][2] % 3 == 0 and len(others) > len(extra):
            m.append((others[len(extra)], others[len(extra)]))      # a self-label: counted by len(mapping), skipped by the loop
        return m
    if mode == 'conflict':
        a, b = labels[i[0]], labels[i[1]]
        if a == b:
            return [(a, fresh[0])] if fresh else []
        return [(a, b)]                     # b exists and is not relabelled -> ValueError
    if mode == 'identity':
        return [(labels[i[0]], labels[i[0]])]
    if mode == 'absent_to_existing':
        return [(fresh[0], labels[i[0]])] if fresh else []
    raise ValueError(mode)


def resolve_vartype(op, cur_vt):
    to = op["to"]
    if to == 'flip':
        to = {'SPIN': 'BINARY', 'BINARY': 'SPIN'}.get(cur_vt, 'SPIN')
    if to == 'same':
        to = cur_vt
    return to


def do_step(op, ss, ctx, case_rng_seed):
    """perform one abstract op on ss. returns (coq_op or None for `first`, result sample set or None if raised,
    raised, first_row)"""
    T = ctx.T
    labels = list(ss.variables)
    n = len(labels)
    nrows = len(ss)
    cur_vt = ss.vartype.name
    names = extra_names(ss)
    k = op["op"]

    def key_term(key):
        if key is None:
            return None, "None"
        if key == 'extra':
            if not names:
                return 'energy', "(Some KEnergy)"
            return names[0], f"(Some (KExtra {cnat(0)}))"
        return key, {"energy": "(Some KEnergy)", "num_occurrences": "(Some KOcc)", "tag": "(Some KTag)"}[key]

    if k == 'aggregate':
        return "OAggregate", (lambda: ss.aggregate())
    if k == 'copy':
        return "OCopy", (lambda: ss.copy())
    if k == 'slice':
        args = op["args"][:op["nargs"]]
        if op["nargs"] == 1:
            sl = slice(args[0])
        else:
            sl = slice(*args)
        if op["nargs"] == 1 and args[0] is None:
            args = []
            sl = slice(None)
        key, kt = key_term(op["key"])
        term = f"(OSlice {kt} {cozl(sl.start)} {cozl(sl.stop)} {cozl(sl.step)})"
        ctx.last_sorted = None if key is None else (key, kt[len("(Some "):-1], cozl(sl.start), cozl(sl.stop), cozl(sl.step))
        return term, (lambda: ss.slice(*args, sorted_by=key))
    if k == 'truncate':
        key, kt = key_term(op["key"])
        ctx.last_sorted = None if key is None else (key, kt[len("(Some "):-1], "None", cozl(op['n']), "None")
        return f"(OSlice {kt} None {cozl(op['n'])} None)", (lambda: ss.truncate(op["n"], sorted_by=key))
    if k == 'lowest':
        rt, at = tolv(op["rtol"], 1.e-5), tolv(op["atol"], 1.e-8)
        kw = {}
        if op["rtol"] != 'default':
            kw['rtol'] = rt
        if op["atol"] != 'default':
            kw['atol'] = at
        return f"(OLowest {cq(F(rt))} {cq(F(at))})", (lambda: ss.lowest(**kw))
    if k == 'filter':
        p = op["pred"]
        c = float(F(op["c"]))
        if p == 'val' and n == 0:
            p = 'true'
        if p == 'extra_le' and not names:
            p = 'en_le'
        if p == 'true':
            return "(OFilter PTrue)", (lambda: ss.filter(lambda d: True))
        if p == 'false':
            return "(OFilter PFalse)", (lambda: ss.filter(lambda d: False))
        if p == 'en_le':
            return f"(OFilter (PEnLe {cq(F(c))}))", (lambda: ss.filter(lambda d: d.energy <= c))
        if p == 'oc_ge':
            kk = op["k"]
            return f"(OFilter (POcGe {cz(kk)}))", (lambda: ss.filter(lambda d: d.num_occurrences >= kk))
        if p == 'val':
            v = labels[op["vi"] % n]
            x = op["x"]
            return f"(OFilter (PVal {cnat(T.idx(v))} {cq(x)}))", (lambda: ss.filter(lambda d: d.sample[v] == x))
        if p == 'tag_even':
            return "(OFilter PTagEven)", (lambda: ss.filter(lambda d: d.tag % 2 == 0))
        if p == 'extra_le':
            nm = names[0]
            return f"(OFilter (PExtraLe {cnat(0)} {cq(F(c))}))", (lambda: ss.filter(lambda d: getattr(d, nm) <= c))
    if k == 'relabel':
        pairs = resolve_relabel(op, labels)
        m = dict(pairs)
        term = "(ORelabel %s)" % clist([cpair(cnat(T.idx(a)), cnat(T.idx(b))) for a, b in m.items()])
        return term, (lambda: ss.relabel_variables(m, inplace=op["inplace"]))
    if k == 'keep':
        vs = [labels[i % n] for i in op["idx"]] if n else []
        seen = []
        for v in vs:
            if v not in seen:
                seen.append(v)
        vs = seen
        if op["dup"] and vs and op["form"] == 'list':
            vs = vs + [vs[0]]
        if op["bad"]:
            vs = vs + [('zz', 9)]
        form = op["form"]
        if form == 'set':
            arg = set(vs)
            vs = list(arg)
            sortl = True
        elif form == 'iter':
            arg = iter(list(vs))
            sortl = False
        elif form == 'vars':
            arg = Variables(vs)
            sortl = False
        else:
            arg = list(vs)
            sortl = False
        term = f"(OKeep {clist([cnat(T.idx(v)) for v in vs])} {cbool(sortl)})"
        return term, (lambda: dimod.keep_variables(ss, arg))
    if k == 'drop':
        vs = [labels[i % n] for i in op["idx"]] if n else []
        if op["absent"]:
            vs = vs + ['nope']
        form = op["form"]
        if form == 'str' and not (vs and all(isinstance(v, str) and len(v) == 1 for v in vs)):
            form = 'list'
        arg = (set(vs) if form == 'set' else tuple(vs) if form == 'tuple' else iter(list(vs)) if form == 'iter'
               else Variables(dict.fromkeys(vs)) if form == 'vars' else dict.fromkeys(vs).keys() if form == 'dictkeys'
               else ''.join(vs) if form == 'str' else list(vs))
        return f"(ODrop {clist([cnat(T.idx(v)) for v in vs])})", (lambda: dimod.drop_variables(ss, arg))
    if k == 'append_vars':
        rng = random.Random(op["seed"] * 7919 + case_rng_seed)
        nls = [dec_label(x) for x in op["labels"]]
        nls = [x for x in nls if x not in labels]
        if op["overlap"] and labels:
            nls = nls + [labels[0]]
        mode = op["rows"]
        m = 1 if mode == 'one' else nrows if mode == 'all' else nrows + 2
        form = op["form"]
        if form == 'dict' and m != 1:
            form = 'tuple'
        vt_vals = cur_vt
        add = [[append_value(rng, vt_vals) for _ in nls] for _ in range(m)]
        if form == 'dict':
            arg = {l: add[0][j] for j, l in enumerate(nls)}
            if len(arg) != len(nls):
                form = 'tuple'
        if form == 'tuple':
            arg = (np.array(add, dtype=float if vt_vals == 'REAL' else np.int64).reshape(m, len(nls)), list(nls))
        elif form == 'sampleset':
            inner = dimod.SampleSet.from_samples((np.array(add, dtype=float if vt_vals == 'REAL' else np.int64).reshape(m, len(nls)), list(nls)),
                                                 'REAL', energy=np.zeros(m), sort_labels=False)
            arg = inner
        term = (f"(OAppendVars {clist([cnat(T.idx(v)) for v in nls])} {clist([clist([cq(F(x)) for x in r]) for r in add])} "
                f"{cbool(op['sort_labels'])})")
        return term, (lambda: dimod.append_variables(ss, arg, sort_labels=op["sort_labels"]))
    if k == 'change_vartype':
        to = resolve_vartype(op, cur_vt)
        off = F(op["off"])
        offv = float(off) if off.denominator != 1 else int(off)
        term = f"(OChangeVt {VTC[to]} {cq(off)} {cbool(op['inplace'])})"
        kw = {} if off == 0 and op["off"] == '0' else {"energy_offset": offv}

        to_arg = to
        vform = op.get("vform", 'str')
        if vform == 'enum':
            to_arg = dimod.as_vartype(to, extended=True)
        elif vform == 'set' and to in ('SPIN', 'BINARY'):
            to_arg = {'SPIN': {-1, 1}, 'BINARY': {0, 1}}[to]

        def run():
            before_en = [F(x) for x in ss.record.energy]
            before_kind = ss.record.sample.dtype.kind
            before_vals = [int(x) for x in ss.record.sample.flat] if before_kind in 'bu' else None
            ekind = ss.record.energy.dtype.kind
            try:
                r = ss.change_vartype(to_arg, inplace=op["inplace"], **kw)
            except ValueError:
                if (op["inplace"] and ekind in 'iu' and off.denominator != 1
                        and [F(x) for x in ss.record.energy] != [e + off for e in before_en]):
                    ctx.feats["int_energy_frac_offset"] = True
                raise
            if ekind in 'iu' and off.denominator != 1 and [F(x) for x in r.record.energy] != [e + off for e in before_en]:
                ctx.feats["int_energy_frac_offset"] = True
            if to == 'SPIN' and cur_vt == 'BINARY' and before_kind in 'bu' and [F(x) for x in r.record.sample.flat] != [2 * x - 1 for x in before_vals]:
                ctx.feats["narrow_sample_dtype"] = True
            return r
        return term, run
    if k == 'concat':
        others = []
        terms = []
        for o in op["others"]:
            rng = random.Random(o["seed"] * 104729 + case_rng_seed)
            ols = list(labels)
            rng.shuffle(ols)
            if o["mismatch"] and ols:
                ols = ols[:-1] + [('zz', 1)]
            ovt = cur_vt
            if o["flip"] and cur_vt in ('SPIN', 'BINARY') and ss.record.sample.dtype.kind not in 'bu':
                ovt = 'BINARY' if cur_vt == 'SPIN' else 'SPIN'
            m = o["nrows"]
            ekind = ss.record.energy.dtype.kind
            spec = {"vartype": ovt, "labels": None, "rows": [[value_for(rng, ovt) for _ in ols] for _ in range(m)],
                    "energy": [str(rng.randint(-2, 2)) if ekind in 'iu' else str(rng.choice(ENERGIES)) for _ in range(m)],
                    "occ": [rng.choice([1, 2]) for _ in range(m)], "fields": names,
                    "extra": {f: [str(rng.choice(ENERGIES)) for _ in range(m)] for f in names},
                    "info": o["info"], "sort_labels": False}
            fo = [nm for nm in ss.record.dtype.names if nm not in ('sample', 'energy', 'num_occurrences')]
            oss, tags = build(spec, ctx, labels=ols, sdtype=ss.record.sample.dtype, edtype=ss.record.energy.dtype, field_order=fo)
            others.append(oss)
            terms.append(coq_ss(observe(oss), T))
        term = f"(OConcat {clist(terms)})"

        def run():
            snaps = [observe(x) for x in others]
            try:
                res = dimod.concatenate([ss] + others)
                # concatenate reads its inputs: every one of them (not only the first) must be left as it was
                # (round-6 miss C14 r6m3: a later caller-owned input re-ordered in place)
                if [observe(x) for x in others] != snaps:
                    ctx.input_changed = "dimod.concatenate changed one of its input sample sets"
                return res
            except TypeError as e:
                if 'Incompatible type' in str(e):
                    raise Skip()
                raise
            except IndexError:
                if n == 0:
                    raise Skip()    # numpy.ma cannot stack the zero-width sample field
                raise
        return term, run
    if k == 'append_vec':
        if n == 0:
            raise Skip()    # numpy's append_fields cannot handle the zero-width sample field (IndexError inside numpy.ma)
        vals = [F(op["vals"][i % 4]) for i in range(nrows + (1 if op["badlen"] else 0))]
        name = op["name"]
        term = f"(OAppendVec {cnat(FIELD_ID[name])} {clist([cq(x) for x in vals])})"
        arr = np.array([float(x) for x in vals], dtype=np.float64)
        return term, (lambda: dimod.append_data_vectors(ss, **{name: arr}))
    raise ValueError(k)


def run_seq(c):
    ctx = Ctx()
    T = ctx.T
    spec = c["spec"]
    seed = sum(len(str(x)) for x in spec["rows"]) + len(c["steps"])
    ss, tags = build(spec, ctx)
    init = logical(spec, tags, ctx)
    seen0 = observe(ss)
    steps = []
    feats = ctx.feats
    feats["kind"] = "seq"
    fail = None
    nontrivial = False
    ancestors = []       # (sample set, what it showed when an operation returned a NEW sample set from it)

    def ancestors_ok():
        for a, snap_a in ancestors:
            if observe(a) != snap_a:
                return False
        return True
    for op in c["steps"]:
        if not ancestors_ok():
            fail = fail or "a sample set changed through a later operation on a sample set derived from it"
            feats["ancestor_changed"] = True
            break
        if op["op"] == 'first':
            try:
                d = ss.first
                names = extra_names(ss)
                r = {"vals": [F(d.sample[v]) for v in ss.variables], "en": F(d.energy), "oc": int(d.num_occurrences),
                     "tag": int(d.tag), "extra": [F(getattr(d, nm)) for nm in names]}
                steps.append(f"(StepFirst (Some {coq_row(r)}))")
                seen_first = f"(Some {coq_row(r)})"
            except ValueError:
                steps.append("(StepFirst None)")
                seen_first = "None"
            # the same argsort call SampleSet.data(sorted_by='energy') makes
            order = np.argsort(ss.record['energy'])
            steps.append(f"(StepFirstAt {clist([cnat(i) for i in order])} {seen_first})")
            continue
        if op["op"] == 'concat_d':
            # read-only: concatenate with sample sets carrying OTHER data vectors, with / without `defaults`
            labels_now = list(ss.variables)
            if not labels_now:
                continue                  # numpy.ma cannot stack the zero-width sample field
            if any(ss.record.dtype[nm].kind in 'bu' for nm in extra_names(ss)):
                continue                  # a fill value is cast to the (bool / unsigned) dtype of the field it fills: NumPy's cast, not modelled
            cur_vt = ss.vartype.name
            others, terms = [], []
            for o in op["others"]:
                orng = random.Random(o["seed"] * 7907 + seed)
                ols = list(labels_now)
                orng.shuffle(ols)
                ovt = cur_vt
                if o["flip"] and cur_vt in ('SPIN', 'BINARY') and ss.record.sample.dtype.kind not in 'bu':
                    ovt = 'BINARY' if cur_vt == 'SPIN' else 'SPIN'
                m = o["nrows"]
                ekind = ss.record.energy.dtype.kind
                ospec = {"vartype": ovt, "labels": None, "rows": [[value_for(orng, ovt) for _ in ols] for _ in range(m)],
                         "energy": [str(orng.randint(-2, 2)) if ekind in 'iu' else str(orng.choice(ENERGIES)) for _ in range(m)],
                         "occ": [orng.choice([1, 2]) for _ in range(m)], "fields": list(o["fields"]),
                         "extra": {f: [str(orng.choice(ENERGIES)) for _ in range(m)] for f in o["fields"]},
                         "info": 5, "sort_labels": False}
                oss, _ = build(ospec, ctx, labels=ols, sdtype=ss.record.sample.dtype, edtype=ss.record.energy.dtype,
                               field_order=['tag'] + list(o["fields"]))
                others.append(oss)
                terms.append(coq_ss(observe(oss), T))
            defaults = None if op["defaults"] is None else {nm: float(F(v)) for nm, v in zip(op["defaults"], op["dvals"])}
            dterm = clist([] if defaults is None else [cpair(cnat(FIELD_ID[nm]), cq(F(v))) for nm, v in zip(op["defaults"], op["dvals"])])
            before = observe(ss)
            arg = [ss] + others
            osnaps = [observe(x) for x in others]
            try:
                res = dimod.concatenate((x for x in arg) if op["generator"] else arg, defaults=defaults)
                if [observe(x) for x in others] != osnaps:
                    fail = fail or "dimod.concatenate changed one of its input sample sets"
                post = coq_ss(observe(res), T)
                nontrivial = nontrivial or len(res) > 0
                if any(np.shares_memory(res.record, x.record) for x in arg):
                    fail = fail or "concatenate returned a record sharing memory with an input"
            except TypeError as e:
                if 'Incompatible type' in str(e):
                    continue
                raise
            except ValueError:
                post = None
            if observe(ss) != before:
                fail = fail or "receiver changed by concatenate"
            steps.append(f"(StepConcatD {clist(terms)} {dterm} {copt(post)})")
            continue
        if op["op"] in ('data', 'samples'):
            names = extra_names(ss)
            key = op["key"]
            if key == 'extra':
                key, kt = (names[0], f"(Some (KExtra {cnat(0)}))") if names else ('energy', "(Some KEnergy)")
            else:
                kt = {None: "None", "energy": "(Some KEnergy)", "num_occurrences": "(Some KOcc)", "tag": "(Some KTag)"}[key]
            if op["op"] == 'data':
                # read-only: data(sorted_by, reverse, index=True) in its keyword variants
                fields = None
                seen = []
                for d in ss.data(sorted_by=key, reverse=op["reverse"], name=op["name"], sample_dict_cast=op["cast"], index=True):
                    if op["name"] is None:
                        all_fields = ['sample', 'energy', 'num_occurrences'] + [f for f in ss.record.dtype.fields
                                                                                 if f not in ('sample', 'energy', 'num_occurrences')] + ['idx']
                        d = dict(zip(all_fields, d))
                    else:
                        d = d._asdict()
                    smp = d['sample']
                    r = {"vals": [F(smp[v]) for v in ss.variables], "en": F(d['energy']), "oc": int(d['num_occurrences']),
                         "tag": int(d['tag']), "extra": [F(d[nm]) for nm in names]}
                    seen.append(cpair(cnat(int(d['idx'])), coq_row(r)))
                steps.append(f"(StepData {kt} {cbool(op['reverse'])} {clist(seen)})")
            else:
                n_ = op["n"]
                if op["iter"] and key == 'energy' and n_ is None:
                    got = [[F(smp[v]) for v in ss.variables] for smp in iter(ss)]
                else:
                    sa = ss.samples(n_, sorted_by=key) if n_ is not None else ss.samples(sorted_by=key)
                    got = [[F(smp[v]) for v in ss.variables] for smp in sa]
                order = list(range(len(ss))) if key is None else [int(i) for i in np.argsort(ss.record[key])]
                steps.append(f"(StepSamples {kt} {cozl(n_)} {clist([cnat(i) for i in order])} "
                             f"{clist([clist([cq(x) for x in r]) for r in got])})")
            nontrivial = nontrivial or len(ss) > 1
            continue
        before = observe(ss)
        ctx.last_sorted = None
        try:
            term, thunk = do_step(op, ss, ctx, seed)
        except Skip:
            continue
        sort_order = None
        if ctx.last_sorted is not None:
            # the same argsort call SampleSet.slice makes on the same key vector
            sort_order = [int(i) for i in np.argsort(ss.record[ctx.last_sorted[0]])]
        inplace = op.get("inplace", False) and op["op"] in ('relabel', 'change_vartype')
        try:
            new = thunk()
            raised = False
        except Skip:
            continue
        except (ValueError, KeyError, TypeError, IndexError) as e:
            new = None
            raised = True
            feats.setdefault("exc", type(e).__name__)
        if new is None:
            post = observe(ss)
            if not inplace and post != before:
                fail = fail or f"receiver changed by a raising non-in-place {op['op']}"
        else:
            nontrivial = nontrivial or len(new) > 0
            if ctx.input_changed:
                fail = fail or ctx.input_changed
            if inplace:
                if new is not ss:
                    fail = fail or f"in-place {op['op']} did not return the receiver"
            else:
                if observe(ss) != before:
                    fail = fail or f"receiver changed by non-in-place {op['op']}"
                    feats["receiver_changed"] = op["op"]
            if new is not ss:
                ancestors.append((ss, observe(ss)))
                ancestors[:] = ancestors[-4:]
            ss = new
            post = observe(ss)
        if sort_order is not None and not raised:
            _, kc, a_, b_, c_ = ctx.last_sorted
            steps.append(f"(StepSorted {kc} {a_} {b_} {c_} {clist([cnat(i) for i in sort_order])} {coq_ss(post, T)})")
        steps.append(f"(Step {term} {cbool(raised)} {coq_ss(post, T)})")
    if not ancestors_ok():
        fail = fail or "a sample set changed through a later operation on a sample set derived from it"
        feats["ancestor_changed"] = True
    feats["ops"] = sorted({o["op"] for o in c["steps"]})[:3] if fail else None
    coq = f"(SeqCase {coq_K(T)} {cbool(spec['sort_labels'])} {init} {coq_ss(seen0, T)} {clist(steps)})"
    extra = []
    if spec.get("agg"):
        # from_samples(..., aggregate_samples=True): the keyword path.  As the code is, it does not pass sort_labels on,
        # so the labels are sorted whatever the caller asked for (recorded as a feature); the rows must be the
        # aggregate of the plainly built set
        ctx.next_tag = 0
        plain, ptags = build(spec, ctx, sort_labels=True)
        ctx.next_tag = 0
        agg, _ = build(spec, ctx, aggregate_samples=True)
        if not spec["sort_labels"] and list(agg.variables) != [dec_label(l) for l in spec["labels"]]:
            feats["aggregate_samples_ignores_sort_labels"] = True
        p0 = observe(plain)
        extra.append(f"(SeqCase {coq_K(T)} true {logical(spec, ptags, ctx)} {coq_ss(p0, T)} "
                     f"[Step OAggregate false {coq_ss(observe(agg), T)}])")
    return {"coq": coq, "extra_coq": extra, "py_fail": fail, "features": feats, "nontrivial": nontrivial}


class Fut(Future):
    """a concurrent.futures.Future whose result() never blocks"""

    def result(self, timeout=None):
        return super().result(timeout=0)


def run_defer(c):
    ctx = Ctx()
    T = ctx.T
    spec = c["spec"]
    feats = ctx.feats
    feats["kind"] = "defer"
    feats["timing"] = c["timing"]
    base, tags = build(spec, ctx)
    ctx.next_tag = 0
    base2, _ = build(spec, ctx)       # the future's result: an equal but separate object
    twin = base
    base_term = coq_ss(observe(base2), T)
    fut = Fut()
    s0 = dimod.SampleSet.from_future(fut)
    cur = s0
    before = c["timing"] == 'before'
    if not before:
        fut.set_result(base2)
    terms = []
    dcalls = []
    twin_failed = False
    cur_failed = False
    all_inplace = True
    fail = None
    for op in c["steps"]:
        if twin_failed or cur_failed:
            break
        labels = list(twin.variables)
        inplace = op["inplace"]
        if op["op"] == 'change_vartype' and before:
            inplace = True      # inplace=False resolves the receiver (self.copy()), i.e. blocks; not usable before the result exists
        all_inplace = all_inplace and inplace
        if op["op"] == 'relabel':
            m = dict(resolve_relabel(op, labels))
            terms.append("(ORelabel %s)" % clist([cpair(cnat(T.idx(a)), cnat(T.idx(b))) for a, b in m.items()]))
            dcalls.append("(DRelabel %s %s)" % (clist([cpair(cnat(T.idx(a)), cnat(T.idx(b))) for a, b in m.items()]), cbool(inplace)))
            call = lambda s: s.relabel_variables(dict(m), inplace=inplace)
            if c.get("mutate_mapping"):
                def call(s, m=m, inplace=inplace):
                    mm = dict(m)
                    r = s.relabel_variables(mm, inplace=inplace)
                    for k in list(mm):          # the caller re-uses its dict afterwards
                        mm[k] = ('mutated', len(mm))
                        break
                    return r
                feats["mapping_mutated_after_call"] = True
        else:
            to = resolve_vartype(op, twin.vartype.name)
            off = F(op["off"])
            offv = float(off) if off.denominator != 1 else int(off)
            terms.append(f"(OChangeVt {VTC[to]} {cq(off)} {cbool(inplace)})")
            dcalls.append(f"(DChangeVt {VTC[to]} {cq(off)} {cbool(inplace)})")
            call = lambda s: s.change_vartype(to, energy_offset=offv, inplace=inplace)
        try:
            twin = call(twin)
        except ValueError:
            twin_failed = True
        try:
            cur = call(cur)
            if before and cur.done():
                fail = fail or "deferred operation resolved the sample set"
        except ValueError:
            cur_failed = True
    if before:
        if s0.done():
            fail = fail or "sample set claims done before the future has a result"
        fut.set_result(base2)
    seen = None
    if not cur_failed:
        try:
            obs_first = observe(s0) if (all_inplace and before) else None
            seen = observe(cur)
            if obs_first is not None and obs_first != seen:
                feats["deferred_inplace_receiver"] = True
                fail = fail or ("after in-place operations on an unresolved sample set the receiver, read after the future "
                                "completed, does not show them")
        except ValueError:
            seen = None
    if (seen is None) != twin_failed:
        fail = fail or "deferred and resolved paths disagree on raising"
    elif seen is not None and seen != observe(twin):
        feats["deferred_mismatch"] = True
        if c.get("mutate_mapping"):
            feats["deferred_mapping_captured"] = True
        fail = fail or "deferred result differs from the operation on the resolved set"
    coq = (f"(DeferCase {coq_K(T)} {base_term} {clist(terms)} {cbool(before)} {clist(dcalls)} "
           f"{copt(coq_ss(seen, T) if seen is not None else None)})")
    return {"coq": coq, "py_fail": fail, "features": feats, "nontrivial": seen is not None and bool(terms)}


class NoDone:
    """a future-like object with result() but no done()"""

    def __init__(self, value):
        self._value = value

    def result(self):
        return self._value


def run_alias_events(c):
    """-> (list of (event term, dump term), py_fail, features, nontrivial).  Objects are numbered in creation order:
    0 = the sample set the future returns, 1.. = from_future sample sets, then every NEW object a call returned."""
    ctx = Ctx()
    T = ctx.T
    spec = c["spec"]
    feats = ctx.feats
    feats["kind"] = "alias"
    base, _ = build(spec, ctx)
    H = [base]
    shadow = [list(base.variables)]          # labels used only to GENERATE mappings
    fut = Fut()
    out = []
    fail = None

    def dump():
        items = []
        res = [i for i, x in enumerate(H) if not hasattr(x, '_future')]
        for i in res:
            x = H[i]
            first = next(j for j in res if H[j]._record is x._record or np.shares_memory(H[j]._record, x._record))
            items.append(cpair(cnat(i), cpair(coq_ss(observe(x), T), cnat(first))))
        return clist(items)

    def emit(term):
        out.append(cpair(term, dump()))

    base0 = observe(base)
    emit(f"(ENewObj {coq_ss(base0, T)} {cbool(base.record.energy.dtype.kind in 'iu')} {cbool(base.record.sample.dtype.kind in 'bu')})")
    for _ in range(c["nfut"]):
        H.append(dimod.SampleSet.from_future(fut))
        shadow.append(list(shadow[0]))
        emit("(EFromFuture 0)")
    isset = False
    ncalls = 0

    def set_result():
        fut.set_result(base)
        emit("ESetResult")

    def read(i):
        x = H[i]
        if not x.done():
            return                      # would block
        try:
            x.record
            x.variables
            ok = True
        except ValueError:
            ok = False
            feats["hook_raised"] = True
        emit(f"(ERead {cnat(i)} {cbool(ok)})")

    for k, st in enumerate(c["steps"]):
        if k == c["set_at"] and not isset:
            set_result()
            isset = True
        if st["ev"] == 'newfut':
            # further sample sets on the same result: the plain form, a caller-supplied result_hook, and a future-like
            # object WITHOUT a done() method (such a sample set counts as done from the start, so it is only built
            # once the result exists)
            if st["style"] == 'nodone' and isset:
                H.append(dimod.SampleSet.from_future(NoDone(base)))
            elif st["style"] == 'plain':
                H.append(dimod.SampleSet.from_future(fut))
            else:
                H.append(dimod.SampleSet.from_future(fut, result_hook=lambda f: f.result()))
            shadow.append(list(shadow[0]))
            emit("(EFromFuture 0)")
            continue
        i = st["h"] % len(H)
        if st["ev"] == 'read':
            read(i)
            continue
        op = st["op"]
        if c["only_relabel"] and op["op"] != 'relabel':
            continue
        x = H[i]
        inplace = op["inplace"]
        if op["op"] == 'relabel':
            m = dict(resolve_relabel(op, shadow[i]))
            mt = clist([cpair(cnat(T.idx(a)), cnat(T.idx(b))) for a, b in m.items()])
            dc = f"(DRelabel {mt} {cbool(inplace)})"
            offf = False
            call = lambda: x.relabel_variables(dict(m), inplace=inplace)
            new_shadow = [m.get(l, l) for l in shadow[i]]
            if len(set(map(repr, new_shadow))) != len(new_shadow):
                new_shadow = list(shadow[i])
        else:
            if not inplace and not x.done():
                inplace = True          # inplace=False copies the receiver, which blocks while the future is pending
            cur_vt = spec["vartype"] if spec["vartype"] != 'DISCRETE' else 'INTEGER'
            if not hasattr(x, '_future'):
                cur_vt = x.vartype.name
            to = resolve_vartype(op, cur_vt)
            off = F(op["off"])
            offv = float(off) if off.denominator != 1 else int(off)
            offf = isinstance(offv, float)
            dc = f"(DChangeVt {VTC[to]} {cq(off)} {cbool(inplace)})"
            call = lambda: x.change_vartype(to, energy_offset=offv, inplace=inplace)
            new_shadow = list(shadow[i])
        was_pending = not x.done()
        try:
            ret = call()
        except ValueError:
            ret = None
            feats.setdefault("exc", "ValueError")
        ncalls += 1
        if ret is None:
            rt = "None"
        else:
            j = next((j for j, y in enumerate(H) if y is ret), None)
            if j is None:
                H.append(ret)
                shadow.append(new_shadow)
                j = len(H) - 1
            elif j == i:
                shadow[i] = new_shadow
            rt = f"(Some {cnat(j)})"
            if was_pending and (hasattr(ret, '_future') is False):
                fail = fail or "an operation on a pending sample set returned a resolved one"
        emit(f"(ECall {cnat(i)} {dc} {cbool(offf)} {rt})")
    if not isset:
        set_result()
    for r in c["final"]:
        read(r % len(H))
    for i in range(len(H)):
        read(i)
    if observe(base) != base0:
        feats["future_result_altered"] = True     # recorded, not a failure: the model says when it happens
    return out, fail, feats, ncalls > 0 and len(base) > 0


def run_alias(c):
    evs, fail, feats, nt = run_alias_events(c)
    return {"coq": f"(AliasCase {clist(evs)})", "py_fail": fail, "features": feats, "nontrivial": nt}


def run_as(c):
    T = LabelTable()
    labels = [dec_label(l) for l in c["labels"]]
    rows = c["rows"]
    n, m = len(labels), len(rows)
    perms = c["perms"]
    isfloat = any(isinstance(x, float) for r in rows for x in r)
    adt = float if isfloat else np.int64
    kw = {"copy": c["copy"], "order": c["order"]}
    big = any(abs(x) > 2 ** 31 - 1 for r in rows for x in r)       # does not fit the requested int32: not a valid request
    if c["dtype"] and not ((isfloat or big) and c["dtype"] == 'int32'):
        kw["dtype"] = c["dtype"]
    else:
        c = dict(c, dtype=None)
    forms = {}
    arr = np.array(rows, dtype=adt).reshape(m, n)
    forms["tuple"] = lambda: (arr.copy(), list(labels))
    forms["tuple_lists"] = lambda: ([list(r) for r in rows], list(labels)) if m and n else (arr.copy(), list(labels))
    p0 = perms[m]
    forms["tuple_perm"] = lambda: (arr[:, p0].copy(), [labels[i] for i in p0])
    forms["tuple_vars"] = lambda: (arr.copy(), Variables(labels))
    if m:
        forms["dicts"] = lambda: [{labels[i]: r[i] for i in p} for r, p in zip(rows, perms)]
        forms["gen"] = lambda: ({labels[i]: r[i] for i in p} for r, p in zip(rows, perms))
        forms["iter_tuples"] = lambda: iter([(np.array([r[i] for i in p], dtype=adt).reshape(1, n), [labels[i] for i in p]) for r, p in zip(rows, perms)])
        forms["sampleset"] = lambda: dimod.SampleSet.from_samples((arr[:, p0].copy(), [labels[i] for i in p0]),
                                                                  'REAL' if isfloat else 'INTEGER', energy=np.zeros(m))
        forms["sampleset_unsorted"] = lambda: dimod.SampleSet.from_samples((arr[:, p0].copy(), [labels[i] for i in p0]),
                                                                           'REAL' if isfloat else 'INTEGER', energy=np.zeros(m), sort_labels=False)
    if m == 1:
        forms["dict"] = lambda: {labels[i]: rows[0][i] for i in perms[0]}
        forms["dict_labels"] = lambda: ({labels[i]: rows[0][i] for i in perms[0]}, [labels[i] for i in p0])
        if n:
            forms["tuple_1d"] = lambda: (np.array(rows[0], dtype=adt), list(labels))
    if labels == list(range(n)) and (n or not m):
        forms["array"] = lambda: arr.copy()
        if m and n:
            forms["lists"] = lambda: [list(r) for r in rows]
        if m == 1 and n:
            forms["list_1d"] = lambda: list(rows[0])
    outs = []
    narrow_terms = []
    feats = {"kind": "as"}
    fail = None
    for name, mk in forms.items():
        for lt in (list, Variables):
            try:
                a, ls = dimod.as_samples(mk(), labels_type=lt, **kw)
            except Exception as e:
                outs.append("None")
                feats["form"] = name
                feats["exc"] = type(e).__name__
                continue
            if not isinstance(ls, lt):
                fail = fail or f"labels_type {lt.__name__} not honoured for form {name}"
            if c["dtype"] and a.dtype != np.dtype(c["dtype"]):
                fail = fail or f"dtype not honoured for form {name}"
            if a.ndim != 2:
                fail = fail or f"as_samples returned a {a.ndim}-d array for form {name}"
                continue
            outs.append("(Some (%s, %s))" % (clist([cnat(T.idx(l)) for l in ls]), clist([clist([cq(F(x)) for x in r]) for r in a])))
            if name in NARROWING_FORMS and "dtype" not in kw and not isfloat and m and n:
                # a list-like input without dtype: _sample_array picks the smallest signed integer type
                width = a.dtype.itemsize * 8 if a.dtype.kind == 'i' else 0
                narrow_terms.append(f"(NarrowCase {clist([cz(x) for r in rows for x in r])} (Some {cnat(width)}))")
                if any(int(x) != int(y) for r, q in zip(a.tolist(), [[rows[k][labels.index(l)] for l in ls] for k in range(m)])
                       for x, y in zip(r, q)):
                    fail = fail or f"as_samples changed a value while narrowing the dtype (form {name})"
    coq = (f"(AsCase {clist([cnat(T.idx(l)) for l in labels])} {clist([clist([cq(F(x)) for x in r]) for r in rows])} {clist(outs)})")
    return {"coq": coq, "extra_coq": narrow_terms[:4], "py_fail": fail, "features": feats, "nontrivial": m > 0 and n > 1}


def run_case(c):
    if c["kind"] == 'seq':
        return run_seq(c)
    if c["kind"] == 'defer':
        return run_defer(c)
    if c["kind"] == 'alias':
        return run_alias(c)
    return run_as(c)


if __name__ == "__main__":
    wlib.main(gen_case, run_case)
