PID = "C14"
WORKER = "w_c14"
HEADER = "From Coq Require Import List ZArith QArith Qcanon.\nFrom Dimod Require Import Base.Util Model.Poly Model.Samples Model.SSet Model.Alias Model.ChkC14.\nImport ListNotations."
CHECK_FN = "check"
N_QUICK = 1600
N_THOROUGH = 40000
SHARD = 100
SHRINK_KEYS = ["steps"]
RULE = ("random sample sets (SPIN/BINARY/INTEGER/DISCRETE/REAL; sample dtypes int8..int64, float32/64, bool, uint8; int or float energies; "
        "labels all-int, all-str or mixed unsortable; duplicate-row patterns; 0-8 rows; 0-5 columns; extra data vectors; sort_labels on/off) "
        "followed by 1-6 (thorough 1-14) operations from aggregate, slice/truncate (sorted_by None/energy/num_occurrences/extra vector, any "
        "start/stop/step), lowest (default and dyadic tolerances), filter (7 predicates), relabel_variables (fresh/swap/cycle/conflict/absent, "
        "in place or not), keep/drop_variables (list/set/iterator/Variables, bad and duplicate labels), append_variables (tuple/dict/SampleSet, "
        "one row or all, appended values beyond the range of the receiver's sample dtype and fractional values for REAL sets stored in int8/int16), change_vartype (with energy offsets, in place or not, impossible targets), concatenate (column-permuted, "
        "vartype-flipped, mismatched others), append_data_vectors, copy, first; the full record (values, energy, num_occurrences, row tag, "
        "extra vectors), labels, vartype and info after each operation are compared with the Coq model applied to the previous observed "
        "state (sorted slices and first relationally); deferred cases capture relabel/change_vartype on a concurrent.futures.Future-backed "
        "sample set before or after the result is set; as_samples cases feed one assignment table in up to 15 forms x 2 label types; "
        "alias cases (Model/Alias.v) put the future's own result object, 1-2 SampleSet.from_future on the same future (also with a caller-given result_hook, "
        "and a future-like object without done()) and every object returned by relabel_variables / change_vartype (in place or not) into one history, with "
        "set_result and reads at random points; after every event every resolved object is dumped (content + which objects share its record) and compared with the "
        "heap model, plus two oracles on the observations alone (relabel-only histories never change another object; inplace=False on a resolved receiver returns an "
        "object sharing no record and leaves everything else as it was); seq cases also read samples(n, sorted_by) / iter() and data(sorted_by, reverse, name, "
        "sample_dict_cast, index=True), concatenate sample sets with DIFFERENT data vectors with/without defaults= (list or generator), build with aggregate_samples=True, "
        "pass the vartype as str / Vartype / set, and use range(n) labels; relabel mode gen_clash joins a swap / cycle with ordinary entries whose targets are the integers "
        "utilities.resolve_label_conflict would generate next (2*len(mapping)...); every sample set an operation derived a new one from is re-read after every later step and must not have changed (shared Variables / record / info); "
        "15% of the defer cases change the caller's mapping dict right after each deferred relabel; "
        "non-trivial = an operation returned a non-empty sample set; distinct by case JSON")
TRUSTED = ["translators/dtype_narrowing.py (fail-closed) -> Gen/Gen_Narrow.v: the candidate list of _sample_array's dtype narrowing",
           "translators/sampleset_hooks.py (fail-closed) -> Gen/Gen_Hooks.v: the statement shapes of SampleSet.from_future / resolve / copy / relabel_variables and the head of change_vartype are matched exactly; the inplace= constants of the three deferred hooks are extracted and proved equal to the variants Model/Alias.v implements (the model itself is hand-written, not parameterised by them)",
           "model: coq/theories/Model/Alias.v (heap of sample-set objects over shared record cells; hand-written mirror of from_future / resolve / done / relabel_variables / change_vartype / copy incl. the two dtype-widening cases that replace the record)", "model: coq/theories/Model/{Samples,SSet,Narrow,ChkC14}.v (hand-written mirror of dimod/sampleset.py; aggregate is mirrored in its code shape (np.unique contract proved for the mirrored definition, argsort un-sorting, accumulation loop) and proved equal to the specification)",
           "NumPy structured-array indexing, np.unique, np.argsort, recfunctions.stack_arrays/append_fields behave as documented",
           "float arithmetic of the implementation is exact on the generated dyadic data (not verified)"]
ASSUMPTIONS = ["IEEE-754 arithmetic is exact on the small dyadic energies, offsets and tolerances generated",
               "np.argsort may return any order of tied keys: the order it returns for the same key vector is observed, checked to be an admissible argsort, and the implementation's slice / first must equal the code shape record[order[selector]] / record[order[0]] exactly (plus the relational check)"]
PARTIAL = ["the heap theorems (C14_alias_*) cover histories of relabel_variables calls; for histories containing change_vartype on future-backed sets the heap model is only compared with the implementation (the code lets an in-place conversion write into the future's own result record, so no frame property holds there - reported)",
           "not reached: from_samples_bqm / from_samples_cqm (C08), serialization (C11), to_pandas_dataframe, wait_id (C19 reaches the cached problem id)",
           "C14_deferred_inplace_change_vartype_receiver_refuted is the open finding C14-deferred-inplace stated on the faithful model: change_vartype(inplace=True) on a pending sample set returns a new wrapper and the receiver, resolved on its own, is unconverted; every other receiver/returned-handle law of the deferred state machine is proved"]
