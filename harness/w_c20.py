"""C20 worker.  Three kinds of cases:
  cpp_models  ops on QuadraticModel / BinaryQuadraticModel through cpp/driver.cpp, every printed state compared with the
              Coq model (Model/ChkC20.v) + native invariant + sanitizers
  cpp_cqm     ops on Expression / Constraint / ConstrainedQuadraticModel: native invariant + sanitizers only
  py          malformed calls on the real extension in short-lived child interpreters (py_vg: under valgrind)
  py_dqm      VALID call histories on a real DiscreteQuadraticModel (wrapper or Cython object), the native state
              (adj_, case_starts_, case-level BQM) after every call compared with Model/DqmNative.v (c20_dqm.py has
              the clause -> stream coverage map)"""
import json
import os

import wlib
from wlib import clist
import c20_cpp as K
import c20_cqm as Q
import c20_py as P
import c20_dqm as D

_DRIVER = None


def driver():
    global _DRIVER
    if _DRIVER is None:
        _DRIVER = K.ensure_driver()
    return _DRIVER


def gen_case(rng, tier):
    r = rng.random()
    thorough = tier != "quick"
    if r < 0.46:
        n = rng.randint(4, 28) if not thorough else rng.randint(4, 60)
        return {"kind": "cpp_models", "ops": K.gen_model_ops(rng, n)}
    if r < 0.73:
        n = rng.randint(4, 30) if not thorough else rng.randint(4, 70)
        return {"kind": "cpp_cqm", "ops": Q.gen_cqm_ops(rng, n)}
    if r < 0.84:
        n = rng.randint(3, 24) if not thorough else rng.randint(3, 50)
        c = D.gen_dqm_ops(rng, n)
        c["kind"] = "py_dqm"
        return c
    if thorough and r > 0.9975:
        return {"kind": "py_vg", "calls": P.gen_py_calls(rng, 6)}
    return {"kind": "py", "calls": P.gen_py_calls(rng, 6)}


def death_record(case, kind, d, ops_done, extra_feat=None):
    cls = K.classify_death(d)
    feat = {"kind": kind, "death": cls}
    feat.update(extra_feat or {})
    first = ""
    for l in d.get("stderr", "").splitlines():
        if ("INVARIANT" in l or "Assertion" in l or "ERROR: AddressSanitizer" in l or "runtime error" in l
                or "LeakSanitizer" in l or "BADINPUT" in l):
            first = l.strip()[:400]
            break
    return {"coq": None, "features": feat, "nontrivial": True,
            "py_fail": f"C++ driver stopped ({cls}, rc={d.get('rc')}) after {ops_done} ops at `{d.get('at')}`: {first}",
            "observed": {"stderr_tail": d.get("stderr", "")[-3000:], "executed": d.get("executed")}}


def run_models(case):
    exe, cxx, err = driver()
    if exe is None:
        return {"py_fail": "cannot compile cpp/driver.cpp against the tree under test:\n" + str(err)[-3000:],
                "features": {"kind": "cpp_models", "compile": True}}
    S = K.Session(exe)
    S.send("case c")
    slots = K.empty_slots()
    steps = []
    executed = []
    skipped = 0
    for op in case["ops"]:
        if not K.model_op_valid(op, slots):
            skipped += 1
            continue
        prev = slots
        d = S.send(K.op_text(op))
        if "dead" in d:
            d["at"] = K.op_text(op)
            d["executed"] = executed
            feat = {}
            if K.has_matching_selfloop(op, prev):
                feat["remints_selfloop"] = True
            if op[0] == "qmofbqm" and op[3] == 1 and prev[op[2]]["n"] == 0:
                feat["qmofbqm_empty_templated"] = True
            return death_record(case, "cpp_models", d, len(executed), feat)
        executed.append(op)
        slots = d["slots"]
        steps.append(f"({K.coq_xop(op)}, {K.coq_ret(op, d.get('ret'))}, {clist([K.coq_obs(x) for x in slots])})")
        if not K.exact_enough(slots):
            break
    end = S.close()
    if end is not None:
        end["at"] = "<exit>"
        end["executed"] = executed
        return death_record(case, "cpp_models", end, len(executed))
    kinds = sorted({o[0] for o in executed})
    return {"coq": clist(steps), "features": {"kind": "cpp_models"}, "nontrivial": len(executed) >= 3,
            "kind": "cpp_models", "observed": {"executed": len(executed), "skipped": skipped, "ops": kinds}}


_DRIVER_GXX = None


def driver_gxx():
    """the GCC build (same flags, same sanitizers) used for the cq.* cases: Model/Expr.v mirrors GCC's
    right-to-left evaluation of add_quadratic(enforce_variable(u), enforce_variable(v))"""
    global _DRIVER_GXX
    if _DRIVER_GXX is None:
        _DRIVER_GXX = K.ensure_driver(compilers=("g++",))
    return _DRIVER_GXX


def run_cqm(case):
    exe, cxx, err = driver_gxx()
    if exe is None:
        return {"py_fail": "cannot compile cpp/driver.cpp (g++) against the tree under test:\n" + str(err)[-3000:],
                "features": {"kind": "cpp_cqm", "compile": True}}
    S = K.Session(exe)
    S.send("case c")
    cqms = Q.empty_cqms()
    executed = []
    steps = []
    skipped = 0
    modelled = 0
    for op in case["ops"]:
        if not Q.cqm_op_valid(op, cqms):
            skipped += 1
            continue
        prev = cqms
        d = S.send(Q.cqm_op_text(op))
        if "dead" in d:
            d["at"] = Q.cqm_op_text(op)
            d["executed"] = executed
            return death_record(case, "cpp_cqm", d, len(executed))
        executed.append(op)
        cqms = d["cqms"]
        qop = Q.coq_qop(op, prev)
        modelled += qop is not None
        steps.append(f"({'None' if qop is None else '(Some ' + qop + ')'}, {Q.coq_qret(op, d.get('ret'))}, "
                     f"{clist([Q.coq_qobs(c) for c in cqms])})")
        if not K.exact_enough([e for c in cqms for e in [c["obj"]] + c["cons"]]):
            break
    end = S.close()
    if end is not None:
        end["at"] = "<exit>"
        end["executed"] = executed
        return death_record(case, "cpp_cqm", end, len(executed))
    return {"coq": clist(steps), "check_fn": "qcheck", "features": {"kind": "cpp_cqm"}, "nontrivial": len(executed) >= 3,
            "kind": "cpp_cqm", "observed": {"executed": len(executed), "skipped": skipped, "modelled": modelled}}


def run_py(case):
    vg = case["kind"] == "py_vg"
    calls = case["calls"]
    for i, c in enumerate(calls):
        c["id"] = i
    recs, vg_notes = P.run_calls(calls, valgrind=vg)
    fails = []
    feats = {"kind": "py"}
    for c, r in zip(calls, recs):
        j = P.judge(c, r)
        if j:
            reason, tag = j
            fails.append(f"{c['target']}.{'.'.join(str(p) for p in c['path'])}{json.dumps(c.get('args'))[:160]} "
                         f"{json.dumps(c.get('kwargs', {}))[:80]}: {reason}")
            if "py_tag" not in feats:      # classify by the first failing call; shrinking isolates it
                fam = "bqm" if c["target"].startswith("bqm") else "qm" if c["target"].startswith("qm") else c["target"]
                feats["py_tag"] = tag
                if '"big"' in json.dumps(c.get("args")):
                    feats["py_big_index"] = True      # an int64 value at or beyond the int32 index range
                feats["py_entry"] = fam + "." + [p for p in c["path"] if isinstance(p, str)][-1]
                feats["py_target"] = c["target"]
                if c.get("fresh"):
                    feats["py_fresh"] = c["fresh"]       # shape of a call that carries a fresh label (c20_py.fresh_call)
    if vg_notes:
        fails.append("valgrind reports memory errors in dimod frames: " + json.dumps(vg_notes)[:1500])
        feats["py_valgrind"] = True
    setup = [r.get("setup_error") for r in recs if r.get("setup_error")]
    if setup:
        return {"py_fail": "harness error: child setup failed: " + str(setup[0]), "features": {"kind": "py", "setup": True}}
    res = {"coq": None, "features": feats, "nontrivial": True, "kind": case["kind"],
           "observed": {"outcomes": [[r.get("exc"), r.get("same")] for r in recs]}}
    if fails:
        res["py_fail"] = " || ".join(fails[:4])
    return res


def run_case(case):
    k = case.get("kind")
    if k == "cpp_models":
        return run_models(case)
    if k == "cpp_cqm":
        return run_cqm(case)
    if k in ("py", "py_vg"):
        return run_py(case)
    if k == "py_dqm":
        return D.run_dqm(case)
    return {"py_fail": "harness error: unknown kind " + str(k)}


if __name__ == "__main__":
    wlib.main(gen_case, run_case)
