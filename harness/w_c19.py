"""C19 worker: histories of copy-producing calls and in-place edits over 2-5 live handles
(BQM float64/float32/object, QM, CQM, SampleSet, Variables, spin/binary views, CQM expression views).
Every handle is snapshotted bit-for-bit after every step; snapshots are interned to small ids and the
store model in Coq says what each handle must show.

Coverage (clause of the property -> kinds / calls):
  copy(), copy.copy, copy.deepcopy ............ every kind (copy.copy only where the class defines __copy__; a DQM has no deepcopy)
  pickling (BQM, SampleSet, Variables) ........ kinds bqm*, ss, vars (+ BinaryPolynomial)
  construction from another model ............. BQM(bqm), QM.from_bqm, Variables(v), BinaryPolynomial(p), SampleSet.from_samples(ss),
                                                DQM.from_numpy_vectors(to_numpy_vectors)
  arithmetic operators ........................ bqm*, qm (incl. neutral operands)
  CQM add with copy=True / False .............. acts "move", "discrete"
  inplace=False methods ....................... relabel_variables, relabel_variables_as_integers, change_vartype, spin_to_binary,
                                                fix_variables (bqm / qm / cqm), SampleSet.relabel_variables / change_vartype (kind ss and,
                                                on future-backed sets before / after resolution, kind ssalias), BinaryPolynomial.relabel_variables,
                                                to_spin / to_binary(copy=True), DQM.relabel_variables / relabel_variables_as_integers
  SampleSet builders .......................... slice, truncate, lowest, filter, aggregate, copy, concatenate (single, [a, a], several live
                                                sets), keep / drop / append_variables, append_data_vectors
  documented aliases .......................... spin / binary views, CQM expression views (act "view")
  later in-place edits on either side ......... act "edit" through any handle incl. views; nested info values
  instance state beyond the data ............... sample sets resolved from a future with wait_id() (cached problem id; every other
                                                instance attribute and wait_id() are compared before / after every copy-producing call)
  structured scenarios (round 6) ............... kind "direct": concatenate over inputs without rows, copies of range-labelled models whose
                                                two sides later acquire non-index labels, one deepcopy / pickle over a model and its views
Not reached: CQM / QM pickling (not claimed by the property), DQM with shared case labels, SampleSet builders on future-backed sets."""
import copy
import json
import pickle
import random
import warnings
from fractions import Fraction

import numpy as np
import dimod
from dimod.variables import Variables

import wlib
from wlib import clist, cnat, cpair
import gen
from gen import F, fs, dec_label, LabelTable
from wlib import cq, cz, cbool

warnings.simplefilter("ignore")

FRESH = ['n0', 'n1', 'n2', 10, 11, ('u', 0)]
DY = [Fraction(1, 2), Fraction(-1), Fraction(3, 2), Fraction(2), Fraction(-1, 4), Fraction(1)]


def gen_case(rng, tier):
    if rng.random() < 0.07:
        # sample sets on ONE future (its result object, from_future handles, whatever relabel_variables /
        # change_vartype return, before and after the result exists): record sharing is observed after every event
        import w_c14
        c = w_c14.gen_alias(rng, tier)
        c["kind"] = "ssalias"
        return c
    if rng.random() < 0.14:
        # structured scenarios decided in the worker with exact values (round-6 misses C19 r6m1-3), see run_direct
        return {"kind": "direct", "what": rng.choice(['concat_empty', 'range_copy', 'range_copy', 'box']), "seed": rng.randint(0, 10 ** 9)}
    kind = rng.choice(['bqm64', 'bqm64', 'bqm32', 'bqmobj', 'qm', 'cqm', 'cqm', 'ss', 'ss', 'ss', 'vars', 'poly', 'dqm'])
    n = rng.randint(2, 7) if tier == 'quick' else rng.randint(2, 14)
    return {"kind": kind, "seed": rng.randint(0, 10 ** 9), "steps": [rng.randint(0, 10 ** 9) for _ in range(n)]}


# ---------------------------------------------------------------------------- snapshots
def lab(v):
    return repr(v)


def obs_model(m):
    return {"vars": [lab(v) for v in m.variables], "lin": [[lab(v), fs(b)] for v, b in m.linear.items()],
            "quad": [[lab(u), lab(v), fs(b)] for (u, v), b in m.quadratic.items()], "off": fs(m.offset)}


def exact_ones_energy(o):
    return F(o["off"]) + sum(F(b) for _, b in o["lin"]) + sum(F(b) for _, _, b in o["quad"])


class ProbeMismatch(Exception):
    pass


def probe(m, o):
    n = len(o["vars"])
    e = m.energies((np.ones((1, n), dtype=np.int8), list(m.variables)))
    if F(e[0]) != exact_ones_energy(o):
        raise ProbeMismatch("energies() of an object disagrees with its own coefficients (method bound to other data?)")


def snap(obj, kind):
    if kind == 'bqm':
        o = obs_model(obj)
        probe(obj, o)
        return {"t": "bqm", "dtype": str(np.dtype(obj.dtype)), "vt": obj.vartype.name, "o": o, "n": obj.num_variables,
                "ni": obj.num_interactions}
    if kind == 'qm':
        o = obs_model(obj)
        probe(obj, o)
        return {"t": "qm", "dtype": str(np.dtype(obj.dtype)), "o": o,
                "vi": [[obj.vartype(v).name, fs(obj.lower_bound(v)), fs(obj.upper_bound(v))] for v in obj.variables]}
    if kind == 'expr':
        o = obs_model(obj)
        return {"t": "expr", "o": o, "vi": [[obj.vartype(v).name, fs(obj.lower_bound(v)), fs(obj.upper_bound(v))] for v in obj.variables]}
    if kind == 'cqm':
        cons = []
        for l, c in obj.constraints.items():
            cons.append([lab(l), obs_model(c.lhs), c.sense.name, fs(c.rhs), bool(c.lhs.is_soft()),
                         fs(c.lhs.weight()) if c.lhs.is_soft() else None, c.lhs.penalty() if c.lhs.is_soft() else None])
        return {"t": "cqm", "obj": obs_model(obj.objective), "cons": cons, "discrete": sorted(lab(l) for l in obj.discrete),
                "vi": [[lab(v), obj.vartype(v).name, fs(obj.lower_bound(v)), fs(obj.upper_bound(v))] for v in obj.variables]}
    if kind == 'ss':
        return {"t": "ss", "rec": obj.record.tobytes().hex(), "dt": str(obj.record.dtype), "labels": [lab(v) for v in obj.variables],
                "info": json.dumps(obj.info, sort_keys=True, default=str), "vt": obj.vartype.name}
    if kind == 'vars':
        return {"t": "vars", "l": [lab(v) for v in obj], "n": len(obj)}
    if kind == 'poly':
        return {"t": "poly", "vt": obj.vartype.name, "vars": sorted(lab(v) for v in obj.variables),
                "terms": sorted([sorted(lab(v) for v in t), fs(b)] for t, b in obj.items())}
    if kind == 'dqm':
        vs = list(obj.variables)
        lin = [[lab(v), [fs(x) for x in obj.get_linear(v)]] for v in vs]
        quad = []
        for i, u in enumerate(vs):
            for v in vs[i + 1:]:
                q = obj.get_quadratic(u, v) if v in obj.adj[u] else None
                if q:
                    quad.append([lab(u), lab(v), sorted([int(a), int(b), fs(x)] for (a, b), x in q.items())])
        return {"t": "dqm", "vars": [lab(v) for v in vs], "cases": [int(obj.num_cases(v)) for v in vs], "lin": lin, "quad": quad,
                "adj": [[lab(u), sorted(lab(w) for w in obj.adj[u])] for u in vs]}
    raise ValueError(kind)


class IdFuture:
    """a finished computation with a problem id (the shape of dwave.cloud's Future that SampleSet.resolve / wait_id look at)"""

    def __init__(self, value, pid):
        self._value, self._pid = value, pid

    def done(self):
        return True

    def result(self):
        return self._value

    def wait_id(self, timeout=None):
        return self._pid


def inst_state(obj, kind):
    """what a sample set instance carries BESIDES its data (record / labels / info / vartype): a sample set resolved from a
    future with wait_id() caches the problem id.  A copy need not carry it, but no copy-producing call may change it on the
    receiver or on any other live object."""
    if kind != 'ss':
        return None
    return [sorted((k, repr(v)) for k, v in obj.__dict__.items() if k not in ('_record', '_variables', '_info', '_vartype')),
            repr(obj.wait_id())]


def clone(obj, kind):
    if kind in ('bqm', 'ss', 'vars'):
        return pickle.loads(pickle.dumps(obj))
    if kind == 'dqm':              # a DQM supports neither pickle nor deepcopy: rebuild it from its vectors
        return dimod.DiscreteQuadraticModel.from_numpy_vectors(*obj.to_numpy_vectors())
    return copy.deepcopy(obj)      # QM / CQM do not pickle


# ---------------------------------------------------------------------------- construction
def build(kind, rng):
    if kind.startswith('bqm'):
        dt = {'bqm64': np.float64, 'bqm32': np.float32, 'bqmobj': object}[kind]
        d = gen.rand_desc(rng, nmax=4, nmin=1, kinds=('BINARY', 'SPIN'), single_vartype=True, kmax=6, jmax=1)
        return gen.build_bqm(d, dtype=dt), 'bqm'
    if kind == 'qm':
        return gen.build_qm(gen.rand_desc(rng, nmax=4, nmin=1, kmax=6, jmax=1)), 'qm'
    if kind == 'cqm':
        c = dimod.ConstrainedQuadraticModel()
        d = gen.rand_desc(rng, nmax=4, nmin=1, kmax=6, jmax=1, kinds=('BINARY', 'SPIN', 'INTEGER'))
        c.set_objective(gen.build_qm(d))
        for k in range(rng.randint(0, 2)):
            sub = {"vars": d["vars"], "lin": [[l, str(rng.dyadic(4, 1))] for l, _, _, _ in d["vars"]], "quad": [], "off": "0"}
            c.add_constraint_from_model(gen.build_qm(sub), rng.choice(['<=', '>=', '==']), rhs=rng.randint(0, 3), label='c%d' % k)
        return c, 'cqm'
    if kind == 'poly':
        labels = gen.rand_labels(rng, rng.randint(1, 4))
        terms = {}
        for _ in range(rng.randint(1, 5)):
            t = tuple(rng.sample(labels, rng.randint(0, min(3, len(labels)))))
            terms[t] = float(rng.choice(DY))
        return dimod.BinaryPolynomial(terms, rng.choice(['SPIN', 'BINARY'])), 'poly'
    if kind == 'dqm':
        d = dimod.DiscreteQuadraticModel()
        labels = gen.rand_labels(rng, rng.randint(1, 3))
        for l in labels:
            d.add_variable(rng.randint(1, 3), label=l)
        for l in labels:
            d.set_linear(l, [float(rng.choice(DY)) for _ in range(d.num_cases(l))])
        for i, u in enumerate(labels):
            for v in labels[i + 1:]:
                if rng.random() < 0.6:
                    d.set_quadratic_case(u, rng.randint(0, d.num_cases(u) - 1), v, rng.randint(0, d.num_cases(v) - 1), float(rng.choice(DY)))
        return d, 'dqm'
    if kind == 'ss':
        vt = rng.choice(['SPIN', 'BINARY', 'INTEGER'])
        labels = gen.rand_labels(rng, rng.randint(1, 4))
        m = rng.randint(1, 5)
        val = {'SPIN': [-1, 1], 'BINARY': [0, 1], 'INTEGER': [0, 1, 2, 3]}[vt]
        pool = [[rng.choice(val) for _ in labels] for _ in range(2)]
        rows = [rng.choice(pool) for _ in range(m)]
        ss = dimod.SampleSet.from_samples((np.array(rows, dtype=np.int8).reshape(m, len(labels)), labels), vt,
                                          energy=[float(rng.choice(DY)) for _ in range(m)],
                                          num_occurrences=[rng.randint(1, 3) for _ in range(m)],
                                          info={'id': 1, 'nested': {'a': [1]}}, tag=np.arange(m), sort_labels=rng.random() < 0.5)
        if rng.random() < 0.35:
            # as a QPU computation delivers it: resolved from a future that has wait_id(); resolution caches the problem id
            # on the instance, and copy-producing calls (pickle, deepcopy, ...) must leave that on the receiver
            ss = dimod.SampleSet.from_future(IdFuture(ss, 'problem-%d' % rng.randint(0, 99)))
            ss.resolve()
        return ss, 'ss'
    if kind == 'vars':
        return Variables(gen.rand_labels(rng, rng.randint(1, 5))), 'vars'
    raise ValueError(kind)


def fresh_label(rng, existing):
    c = [x for x in FRESH if x not in existing]
    return rng.choice(c) if c else ('w', rng.randint(0, 99))


def relabel_map(rng, labels):
    labels = list(labels)
    if not labels:
        return {}
    r = rng.random()
    a = rng.choice(labels)
    if r < 0.5 or len(labels) < 2:
        return {a: fresh_label(rng, labels)}
    b = rng.choice([x for x in labels if x != a])
    return {a: b, b: a}



# ---------------------------------------------------------------------------- Heap.v rendering
HT = None            # LabelTable of the case being run (labels -> nats of the Coq model)
VTC = {'SPIN': 'SPIN', 'BINARY': 'BINARY', 'INTEGER': 'INTEGER', 'DISCRETE': 'INTEGER', 'REAL': 'REAL'}


def L(v):
    return cnat(HT.idx(v))


def pairs_term(m):
    return clist([cpair(L(a), L(b)) for a, b in m.items()])


def poly_term(m):
    lin = clist([cpair(L(v), cq(F(b))) for v, b in m.linear.items()])
    quad = clist([f"({L(u)}, {L(v)}, {cq(F(b))})" for (u, v), b in m.quadratic.items()])
    return f"(mkPoly {cq(F(m.offset))} {lin} {quad})"


class HeapLog:
    """the same history as Heap.v operations; cells exist for owning handles only"""

    def __init__(self):
        self.cell = {}          # handle index -> heap cell
        self.ops = []
        self.hist = []
        self.tok = {}           # info json / constraint labels / field names -> nat

    def token(self, kind, key, first=1):
        d = self.tok.setdefault(kind, {})
        if key not in d:
            d[key] = len(d) + first
        return d[key]

    def render(self, obj, kind):
        if kind in ('bqm', 'qm'):
            return f"(OModel {poly_term(obj)})"
        if kind == 'cqm':
            cons = clist([cpair(cnat(self.token('con', lab(l))), poly_term(c.lhs)) for l, c in obj.constraints.items()])
            return f"(OCqm {poly_term(obj.objective)} {cons})"
        if kind == 'vars':
            return f"(OVars {clist([L(v) for v in obj])})"
        if kind in ('poly', 'dqm'):
            return f"(OOpaque {cnat(self.token('opaque', json.dumps(snap(obj, kind), sort_keys=True)))})"
        if kind == 'ss':
            rec = obj.record
            names = [n for n in rec.dtype.names if n not in ('sample', 'energy', 'num_occurrences', 'tag')]
            rows = []
            for i in range(len(rec)):
                tag = int(rec['tag'][i]) if 'tag' in rec.dtype.names else 0
                rows.append(f"(mkRow {clist([cq(F(x)) for x in rec.sample[i]])} {cq(F(rec.energy[i]))} {cz(int(rec.num_occurrences[i]))} "
                            f"{cnat(tag)} {clist([cq(F(rec[nm][i])) for nm in names])})")
            info = 0 if obj.info == {} else self.token('info', json.dumps(obj.info, sort_keys=True, default=str))
            fields = clist([cnat(1 if nm == 'extra' else self.token('field', nm, first=2)) for nm in names])
            return (f"(OSet (mkSS {clist([L(v) for v in obj.variables])} {VTC[obj.vartype.name]} {clist(rows)} {cnat(info)} {fields}))")
        raise ValueError(kind)

    def new(self, hi, handles):
        self.cell[hi] = len(self.cell)
        self.ops.append(f"(HNew {self.render(handles[hi].obj, handles[hi].kind)})")

    def copy(self, src_hi, new_hi, handles, term=None):
        self.cell[new_hi] = len(self.cell)
        if term is None:
            term = f"(CGiven {self.render(handles[new_hi].obj, handles[new_hi].kind)})"
        self.ops.append(f"(HCopy {cnat(self.cell[src_hi])} {term.replace('@SRC@', cnat(self.cell[src_hi]))})")

    def edit(self, hi, handles, term=None):
        if term is None:
            term = f"(IAny (fun _ => {self.render(handles[hi].obj, handles[hi].kind)}))"
        self.ops.append(f"(HEdit {cnat(self.cell[hi])} {term})")

    def flush(self, handles):
        obs = [cpair(cnat(c), self.render(handles[hi].obj, handles[hi].kind)) for hi, c in self.cell.items()]
        self.hist.append(cpair(clist(self.ops), clist(obs)))
        self.ops = []


def with_terms(out, terms):
    return [(n, f, terms.get(n)) for n, f in out]

# ---------------------------------------------------------------------------- copy-producing calls
def copy_calls(kind, obj, rng):
    """list of (name, f) where f(obj) -> (new object, kind); f is deterministic so it can be replayed on a clone"""
    out = [("copy.deepcopy", lambda o: (copy.deepcopy(o), kind))]
    terms = {"copy.deepcopy": "CCopy", "copy.copy": "CCopy", "pickle": "CCopy", "copy()": "CCopy"}
    if kind in ('bqm', 'vars'):        # classes that define __copy__; copy.copy of the others is Python's attribute-sharing shallow copy
        out.append(("copy.copy", lambda o: (copy.copy(o), kind)))
    if kind in ('bqm', 'ss', 'vars'):
        out.append(("pickle", lambda o: (pickle.loads(pickle.dumps(o)), kind)))
    if kind == 'vars':
        out += [("copy()", lambda o: (o.copy(), kind)), ("Variables(v)", lambda o: (Variables(o), kind))]
        return with_terms(out, {n: "CCopy" for n, _ in out})
    if kind == 'poly':
        m = relabel_map(rng, list(obj.variables))
        out += [("pickle", lambda o: (pickle.loads(pickle.dumps(o)), kind)),
                ("copy()", lambda o: (o.copy(), kind)),
                ("relabel_variables(inplace=False)", lambda o: (o.relabel_variables(dict(m), inplace=False), kind)),
                ("to_spin(copy=True)", lambda o: (o.to_spin(copy=True), kind)),
                ("to_binary(copy=True)", lambda o: (o.to_binary(copy=True), kind)),
                ("BinaryPolynomial(p)", lambda o: (dimod.BinaryPolynomial(o, o.vartype), kind))]
        return with_terms(out, {})
    if kind == 'dqm':
        m = relabel_map(rng, list(obj.variables))
        out = []                       # copy.deepcopy(dqm) raises TypeError (the Cython member cannot be pickled)
        out += [("copy()", lambda o: (o.copy(), kind)),
                ("relabel_variables(inplace=False)", lambda o: (o.relabel_variables(dict(m), inplace=False), kind)),
                ("relabel_variables_as_integers(inplace=False)", lambda o: (o.relabel_variables_as_integers(inplace=False)[0], kind)),
                ("from_numpy_vectors(to_numpy_vectors)", lambda o: (dimod.DiscreteQuadraticModel.from_numpy_vectors(
                    *o.to_numpy_vectors()), kind))]
        return with_terms(out, {})
    if kind in ('bqm', 'qm'):
        m = relabel_map(rng, obj.variables)
        k = rng.choice([2, -1, Fraction(1, 2)])
        out += [("copy()", lambda o: (o.copy(), kind)),
                ("relabel_variables(inplace=False)", lambda o: (o.relabel_variables(dict(m), inplace=False), kind)),
                ("relabel_variables_as_integers(inplace=False)", lambda o: (o.relabel_variables_as_integers(inplace=False)[0], kind)),
                ("a+a", lambda o: (o + o, kind)), ("k*a", lambda o: (float(k) * o, kind)), ("a-1", lambda o: (o - 1, kind)),
                ("-a", lambda o: (-o, kind)), ("a+1", lambda o: (o + 1, kind)),
                # neutral operands on either side: the result must still be a new object
                ("0+a", lambda o: (0 + o, kind)), ("0.0+a", lambda o: (0.0 + o, kind)), ("a+0", lambda o: (o + 0, kind)),
                ("a-0", lambda o: (o - 0, kind)), ("1*a", lambda o: (1 * o, kind)), ("a*1", lambda o: (o * 1, kind)),
                ("1+a", lambda o: (1 + o, kind)), ("1-a", lambda o: (1 - o, kind)), ("0-a", lambda o: (0 - o, kind)),
                ("sum([a])", lambda o: (sum([o]), kind)), ("sum([a,a])", lambda o: (sum([o, o]), kind)),
                ("a/1", lambda o: (o / 1, kind))]
        terms.update({"relabel_variables(inplace=False)": f"(CRelabel (assoc_fn {pairs_term(m)}))",
                      "a+a": "(CAdd @SRC@)", "sum([a,a])": "(CAdd @SRC@)", "k*a": f"(CScale {cq(k)})",
                      "a-1": "(CAddConst (qc (-1) 1))", "a+1": "(CAddConst (qc 1 1))", "1+a": "(CAddConst (qc 1 1))",
                      "-a": "CNeg", "0-a": "CNeg"})
        terms.update({n: "(CAddConst (qc 0 1))" for n in ("0+a", "0.0+a", "a+0", "a-0", "sum([a])")})
        terms.update({n: "(CScale (qc 1 1))" for n in ("1*a", "a*1", "a/1")})
    if kind == 'bqm':
        vt = rng.choice(['SPIN', 'BINARY'])
        allv = clist([L(v) for v in obj.variables])
        terms["BQM(bqm)"] = "CCopy"
        terms["QM.from_bqm"] = "CCopy"
        terms["change_vartype(inplace=False)"] = ("CCopy" if vt == obj.vartype.name else
                                                  f"(CBinaryToSpin {allv})" if vt == 'SPIN' else f"(CSpinToBinary {allv})")
        if obj.num_interactions == 0:
            terms.pop("a+a", None)       # the same name is used for a*a below
        out += [("BQM(bqm)", lambda o: (dimod.BinaryQuadraticModel(o), kind)),
                ("change_vartype(inplace=False)", lambda o: (o.change_vartype(vt, inplace=False), kind)),
                ("QM.from_bqm", lambda o: (dimod.QuadraticModel.from_bqm(o), 'qm')),
                ("a*a" if obj.num_interactions == 0 else "a+a", (lambda o: (o * o, kind)) if obj.num_interactions == 0 else (lambda o: (o + o, kind)))]
    if kind == 'qm':
        spins = clist([L(v) for v in obj.variables if obj.vartype(v) is dimod.SPIN])
        terms["spin_to_binary(inplace=False)"] = f"(CSpinToBinary {spins})"
        out += [("spin_to_binary(inplace=False)", lambda o: (o.spin_to_binary(inplace=False), kind))]
    if kind == 'cqm':
        terms = {"copy.deepcopy": "CCopy"}
        m = relabel_map(rng, obj.variables)
        vs = list(obj.variables)
        fixv = rng.choice(vs) if vs else None
        out += [("relabel_variables(inplace=False)", lambda o: (o.relabel_variables(dict(m), inplace=False), kind)),
                ("spin_to_binary(inplace=False)", lambda o: (o.spin_to_binary(inplace=False), kind))]
        if fixv is not None:
            val = {'BINARY': 1, 'SPIN': -1}.get(obj.vartype(fixv).name, int(obj.lower_bound(fixv)))
            out.append(("fix_variables(inplace=False)", lambda o: (o.fix_variables({fixv: val}, inplace=False), kind)))
    if kind == 'ss':
        m = relabel_map(rng, obj.variables)
        vt = rng.choice(['SPIN', 'BINARY'])
        a, b = rng.randint(0, 2), rng.randint(1, 5)
        vs = list(obj.variables)
        sub = rng.sample(vs, rng.randint(0, len(vs)))
        newl = fresh_label(rng, vs)
        c = float(rng.choice(DY))
        subl = clist([L(v) for v in sub])
        terms.update({
            "relabel_variables(inplace=False)": f"(CSet (ORelabel {pairs_term(m)}))",
            "change_vartype(inplace=False)": f"(CSet (OChangeVt {vt} (qc 1 1) false))",
            "slice(sorted_by=None)": f"(CSet (OSlice None (Some {cz(a)}) (Some {cz(b)}) None))",
            "slice(all,sorted_by=None)": "(CSet (OSlice None None None None))",
            "truncate(sorted_by=None)": f"(CSet (OSlice None None (Some {cz(b)}) None))",
            "lowest": f"(CSet (OLowest {cq(F(1.e-5))} (qc 1 2)))",
            "filter": f"(CSet (OFilter (PEnLe {cq(F(c))})))", "filter(all)": "(CSet (OFilter PTrue))",
            "aggregate": "(CSet OAggregate)", "concatenate([a])": "(CConcat [])", "concatenate([a,a])": "(CConcat [@SRC@])",
            "keep_variables": f"(CSet (OKeep {subl} false))", "drop_variables": f"(CSet (ODrop {subl}))",
            "append_variables": f"(CSet (OAppendVars [{L(newl)}] [[qc 1 1]] true))",
            "append_data_vectors": "(CSet (OAppendVec 1%%nat %s))" % clist([cq(i) for i in range(len(obj))])})
        out += [("copy()", lambda o: (o.copy(), kind)),
                ("relabel_variables(inplace=False)", lambda o: (o.relabel_variables(dict(m), inplace=False), kind)),
                ("change_vartype(inplace=False)", lambda o: (o.change_vartype(vt, energy_offset=1.0, inplace=False), kind)),
                ("slice(sorted_by=None)", lambda o: (o.slice(a, b, sorted_by=None), kind)),
                ("slice(all,sorted_by=None)", lambda o: (o.slice(sorted_by=None), kind)),
                ("slice", lambda o: (o.slice(a, b), kind)),
                ("truncate", lambda o: (o.truncate(b), kind)), ("truncate(sorted_by=None)", lambda o: (o.truncate(b, sorted_by=None), kind)),
                ("lowest", lambda o: (o.lowest(atol=0.5), kind)),
                ("filter", lambda o: (o.filter(lambda d: d.energy <= c), kind)), ("filter(all)", lambda o: (o.filter(lambda d: True), kind)),
                ("aggregate", lambda o: (o.aggregate(), kind)),
                ("concatenate([a])", lambda o: (dimod.concatenate([o]), kind)),
                ("concatenate([a,a])", lambda o: (dimod.concatenate([o, o]), kind)),
                ("keep_variables", lambda o: (dimod.keep_variables(o, list(sub)), kind)),
                ("drop_variables", lambda o: (dimod.drop_variables(o, list(sub)), kind)),
                ("append_variables", lambda o: (dimod.append_variables(o, {newl: 1}), kind)),
                ("append_data_vectors", lambda o: (dimod.append_data_vectors(o, extra=np.arange(len(o), dtype=float)), kind)),
                ("from_samples(ss)", lambda o: (dimod.SampleSet.from_samples(o, o.vartype, energy=o.record.energy), kind))]
    return with_terms(out, terms)


# ---------------------------------------------------------------------------- in-place edits
def edits(kind, obj, rng, is_view=False):
    """list of (name, f, Heap.v term or None) with f(handle object) mutating in place"""
    out = []
    terms = {}
    b = float(rng.choice(DY))
    if kind in ('bqm', 'qm') and not is_view:
        terms.update({"scale": "(IScale (qc 2 1))", "offset": f"(IAddConst {cq(F(b))})"})
    if kind in ('bqm', 'qm', 'expr'):
        vs = list(obj.variables)
        u = rng.choice(vs) if vs else None
        v = rng.choice(vs) if vs else None
        if u is not None:
            out += [("add_linear", lambda o: o.add_linear(u, b)), ("set_linear", lambda o: o.set_linear(u, b))]
            if kind != 'expr':
                out += [("scale", lambda o: o.scale(2))]
            if u != v:
                out += [("add_quadratic", lambda o: o.add_quadratic(u, v, b)), ("set_quadratic", lambda o: o.set_quadratic(u, v, b))]
        out += [("offset", lambda o: setattr(o, 'offset', o.offset + b))]
    if kind in ('bqm', 'qm') and not is_view:
        vs = list(obj.variables)
        nl = fresh_label(rng, vs)
        m = relabel_map(rng, vs)
        if kind == 'bqm':
            vt = rng.choice(['SPIN', 'BINARY'])
            out += [("add_variable", lambda o: o.add_variable(nl, b)), ("change_vartype(inplace=True)", lambda o: o.change_vartype(vt, inplace=True)),
                    ("iadd", lambda o: o.__iadd__(1)), ("imul", lambda o: o.__imul__(2))]
            if vs:
                u = rng.choice(vs)
                out += [("flip_variable", lambda o: o.flip_variable(u)), ("fix_variable", lambda o: o.fix_variable(u, 1)),
                        ("linear[v]=", lambda o: o.linear.__setitem__(u, b))]
        else:
            out += [("add_variable", lambda o: o.add_variable(rng_vt, nl)) for rng_vt in [rng.choice(['BINARY', 'SPIN', 'INTEGER'])]]
            if vs:
                u = rng.choice(vs)
                out += [("fix_variable", lambda o: o.fix_variable(u, 1)), ("set_upper_bound", lambda o: o.set_upper_bound(u, o.upper_bound(u)) if o.vartype(u).name in ('BINARY', 'SPIN') else o.set_upper_bound(u, o.upper_bound(u) + 1))]
        out += [("relabel_variables(inplace=True)", lambda o: o.relabel_variables(dict(m), inplace=True))]
        terms["relabel_variables(inplace=True)"] = f"(IRelabel (assoc_fn {pairs_term(m)}))"
        if vs:
            w = rng.choice(vs)
            out += [("remove_variable", lambda o: o.remove_variable(w))]
    if kind == 'cqm':
        vs = list(obj.variables)
        nl = fresh_label(rng, vs)
        m = relabel_map(rng, vs)
        out += [("add_variable", lambda o: o.add_variable('BINARY', nl)),
                ("relabel_variables(inplace=True)", lambda o: o.relabel_variables(dict(m), inplace=True))]
        if vs:
            u = rng.choice(vs)
            val = {'BINARY': 1, 'SPIN': -1}.get(obj.vartype(u).name, int(obj.lower_bound(u)))
            out += [("objective.add_linear", lambda o: o.objective.add_linear(u, b)),
                    ("fix_variable", lambda o: o.fix_variable(u, val)),
                    ("fix_variables(inplace=True)", lambda o: o.fix_variables({u: val}, inplace=True))]
            q = dimod.QuadraticModel()
            q.add_variable(obj.vartype(u).name, u, lower_bound=obj.lower_bound(u), upper_bound=obj.upper_bound(u)) if obj.vartype(u).name == 'INTEGER' else q.add_variable(obj.vartype(u).name, u)
            q.add_linear(u, b)
            lbl = 'k%d' % rng.randint(0, 99)
            out += [("add_constraint_from_model(new)", lambda o: o.add_constraint_from_model(copy.deepcopy(q), '<=', 1, label=lbl) if lbl not in o.constraints else None),
                    ("set_objective", lambda o: o.set_objective(copy.deepcopy(q)))]
    if kind == 'ss':
        m = relabel_map(rng, obj.variables)
        vt = rng.choice(['SPIN', 'BINARY'])
        i = rng.randint(0, 9)
        out += [("relabel_variables(inplace=True)", lambda o: o.relabel_variables(dict(m), inplace=True)),
                ("change_vartype(inplace=True)", lambda o: o.change_vartype(vt, inplace=True)),
                ("info[k]=", lambda o: o.info.__setitem__('k', i))]
        terms.update({"relabel_variables(inplace=True)": f"(ISet (ORelabel {pairs_term(m)}))",
                      "change_vartype(inplace=True)": f"(ISet (OChangeVt {vt} (qc 0 1) true))"})
        if len(obj) and len(obj.variables):
            out += [("record.sample[i,j]=", lambda o: o.record.sample.__setitem__((i % len(o), i % len(o.variables)), (-o.record.sample[i % len(o), i % len(o.variables)] if o.vartype is dimod.SPIN else 1 - o.record.sample[i % len(o), i % len(o.variables)])) if len(o) and len(o.variables) else None),
                    ("record.energy[i]+=", lambda o: o.record.energy.__setitem__(i % len(o), o.record.energy[i % len(o)] + 1) if len(o) else None),
                    ("record.num_occurrences[i]=", lambda o: o.record.num_occurrences.__setitem__(i % len(o), 7) if len(o) else None)]
    if kind == 'poly':
        vs = list(obj.variables)
        m = relabel_map(rng, vs)
        ts = list(obj.keys())
        k = float(rng.choice(DY))
        nt = frozenset(rng.sample(vs, rng.randint(0, min(2, len(vs))))) if vs else frozenset()
        out += [("relabel_variables(inplace=True)", lambda o: o.relabel_variables(dict(m), inplace=True)),
                ("scale", lambda o: o.scale(2.0)), ("p[t]=", lambda o: o.__setitem__(nt, k))]
        if ts:
            t0 = rng.choice(ts)
            out += [("del p[t]", lambda o: o.__delitem__(t0)), ("p[t]+=", lambda o: o.__setitem__(t0, o[t0] + 1.0))]
    if kind == 'dqm':
        vs = list(obj.variables)
        m = relabel_map(rng, vs)
        k = float(rng.choice(DY))
        u = rng.choice(vs)
        nl = fresh_label(rng, vs)
        out += [("relabel_variables(inplace=True)", lambda o: o.relabel_variables(dict(m), inplace=True)),
                ("relabel_variables_as_integers(inplace=True)", lambda o: o.relabel_variables_as_integers(inplace=True)),
                ("set_linear_case", lambda o: o.set_linear_case(u, 0, k)),
                ("add_variable", lambda o: o.add_variable(2, label=nl))]
        if len(vs) > 1:
            w = rng.choice([x for x in vs if x != u])
            out += [("set_quadratic_case", lambda o: o.set_quadratic_case(u, 0, w, 0, k))]
    if kind == 'vars':
        vs = list(obj)
        nl = fresh_label(rng, vs)
        m = relabel_map(rng, vs)
        out += [("_append", lambda o: o._append(nl)), ("_relabel", lambda o: o._relabel(dict(m))),
                ("_pop", lambda o: o._pop() if len(o) else None), ("_extend", lambda o: o._extend([nl, ('w', 5)]))]
        if vs:
            u = rng.choice(vs)
            out += [("_remove", lambda o: o._remove(u))]
    return with_terms(out, terms)


IDENTITY = {"copy.copy", "copy.deepcopy", "pickle", "copy()", "Variables(v)"}
VIEWS = {0: lambda o: o.spin, 1: lambda o: o.binary, 2: lambda o: o.objective}


class Handle:
    def __init__(self, obj, kind, parent=None, w=None, via=None):
        self.obj, self.kind, self.parent, self.w, self.via = obj, kind, parent, w, via


def _ss_snap(ss):
    r = ss.record
    return (list(ss.variables), ss.vartype.name, r.sample.tolist(), r.energy.tolist(), r.num_occurrences.tolist(),
            json.dumps(ss.info, sort_keys=True, default=str))


def run_direct(c):
    """three structured scenarios, decided here with exact values:
    concat_empty - dimod.concatenate over inputs some of which have NO rows (stack_arrays returns its only non-empty argument
                   unchanged when the others are dropped): the result is edited in place, every input must stay as it was;
    range_copy   - a model / Variables labelled 0..n-1 and a copy of it (every copy-producing route); afterwards BOTH sides
                   acquire labels that are not their own index (a copy that shares the index->label table only shows then);
    box          - one copy.deepcopy / pickle over a container holding a model together with its .spin / .binary views."""
    rng = wlib.Rng(c["seed"])
    what = c["what"]
    feats = {"kind": "direct", "what": what}
    fail = None
    if what == 'concat_empty':
        n = rng.randint(1, 4)
        labels = rng.sample(['a', 'b', 'c', 0, 1, ('t', 1)], n)
        vt = rng.choice(['SPIN', 'BINARY'])
        vals = [-1, 1] if vt == 'SPIN' else [0, 1]
        k = rng.randint(2, 4)
        full = rng.randrange(k)
        sets = []
        for i in range(k):
            rows = rng.randint(1, 3) if (i == full or rng.random() < 0.3) else 0
            arr = np.array([[rng.choice(vals) for _ in labels] for _ in range(rows)], dtype=np.int8).reshape(rows, n)
            sets.append(dimod.SampleSet.from_samples((arr, list(labels)), vartype=vt, energy=[float(rng.randint(-3, 3)) for _ in range(rows)],
                                                     info={"k": [i]}))
        feats["empties"] = sum(1 for x in sets if len(x) == 0)
        before = [_ss_snap(x) for x in sets]
        res = dimod.concatenate(sets if rng.random() < 0.5 else tuple(sets))
        if any(len(x) and np.shares_memory(res.record, x.record) for x in sets):
            fail = "concatenate returned a record sharing memory with an input"
        if len(res):
            res.record.sample[:] = -res.record.sample if vt == 'SPIN' else 1 - res.record.sample
            res.record.energy[:] = res.record.energy + 7
            res.record.num_occurrences[:] = 5
        res.change_vartype('BINARY' if vt == 'SPIN' else 'SPIN', inplace=True)
        res.relabel_variables({labels[0]: 'zz'}, inplace=True)
        if [_ss_snap(x) for x in sets] != before:
            fail = fail or "editing the result of concatenate in place changed one of its inputs"
        return {"coq": None, "py_fail": fail, "features": feats, "nontrivial": True}
    if what == 'range_copy':
        n = rng.randint(2, 5)
        cls = rng.choice(['bqm64', 'bqm32', 'bqmobj', 'qm', 'cqm', 'vars', 'dqm'])
        route = rng.choice(['copy', 'copy.copy', 'deepcopy', 'pickle', 'ctor', 'relabel_copy'])
        feats.update({"cls": cls, "route": route})
        if cls.startswith('bqm'):
            m = dimod.BinaryQuadraticModel(rng.choice(['SPIN', 'BINARY']), dtype={'bqm64': np.float64, 'bqm32': np.float32, 'bqmobj': object}[cls])
            for i in range(n):
                m.add_variable(i, float(rng.randint(-2, 2)))
            m.add_quadratic(0, 1, 1.0)
        elif cls == 'qm':
            m = dimod.QuadraticModel()
            for i in range(n):
                m.add_variable(rng.choice(['BINARY', 'SPIN', 'INTEGER']), i)
            m.add_quadratic(0, 1, 1.0)
        elif cls == 'cqm':
            m = dimod.ConstrainedQuadraticModel()
            for i in range(n):
                m.add_variable('BINARY', i)
            m.set_objective(dimod.Binary(0) + 2 * dimod.Binary(1))
            m.add_constraint(dimod.Binary(0) + dimod.Binary(n - 1) <= 1, label='c')
        elif cls == 'dqm':
            m = dimod.DiscreteQuadraticModel()
            for i in range(n):
                m.add_variable(2, i)
        else:
            m = Variables(range(n))
        variables_of = (lambda x: list(x)) if cls == 'vars' else (lambda x: list(x.variables))
        try:
            if route == 'copy':
                cp = m.copy() if hasattr(m, 'copy') else copy.deepcopy(m)
            elif route == 'copy.copy':
                # copy.copy only where the class defines __copy__ (elsewhere it is Python's shallow copy, which shares by design)
                cp = copy.copy(m) if hasattr(type(m), '__copy__') else (m.copy() if hasattr(m, 'copy') else copy.deepcopy(m))
            elif route == 'deepcopy':
                cp = copy.deepcopy(m) if cls != 'dqm' else m.copy()
            elif route == 'pickle':
                cp = pickle.loads(pickle.dumps(m)) if cls in ('bqm64', 'bqm32', 'bqmobj', 'vars') else copy.deepcopy(m) if cls != 'dqm' else m.copy()
            elif route == 'ctor':
                cp = (dimod.BinaryQuadraticModel(m) if cls.startswith('bqm') else Variables(m) if cls == 'vars'
                      else dimod.QuadraticModel.from_bqm(dimod.BinaryQuadraticModel({i: 1.0 for i in range(n)}, {}, 0.0, 'BINARY')) if cls == 'qm'
                      else copy.deepcopy(m) if cls != 'dqm' else m.copy())
            else:
                cp = (m.relabel_variables({}, inplace=False) if cls in ('bqm64', 'bqm32', 'bqmobj', 'qm', 'dqm')
                      else copy.deepcopy(m) if cls != 'vars' else m.copy())
        except TypeError as e:
            return {"coq": None, "py_fail": None, "features": dict(feats, not_offered=str(e)[:40]), "nontrivial": False}
        if variables_of(cp) != list(range(n)):
            fail = f"copy ({route}) of a range-labelled {cls} shows {variables_of(cp)!r}"
        # both sides acquire labels that are not their own index, in either order
        a_map = {rng.randrange(n): 'a'}
        b_idx = rng.randrange(n)
        first = rng.random() < 0.5

        def grow(x, mapping, new):
            if cls == 'vars':
                x._relabel(mapping)
                x._append(new)
            elif cls == 'dqm':
                x.relabel_variables(mapping, inplace=True)
                x.add_variable(2, new)
            elif cls == 'cqm':
                x.relabel_variables(mapping, inplace=True)
                x.add_variable('BINARY', new)
            elif cls == 'qm':
                x.relabel_variables(mapping, inplace=True)
                x.add_variable('BINARY', new)
            else:
                x.relabel_variables(mapping, inplace=True)
                x.add_variable(new)
        want_m = [a_map.get(i, i) for i in range(n)] + ['z']
        want_c = [('b' if i == b_idx else i) for i in range(n)] + ['y']
        for side in ((0, 1) if first else (1, 0)):
            if side == 0:
                grow(m, a_map, 'z')
            else:
                grow(cp, {b_idx: 'b'}, 'y')
        # (compared as sets: the dict back-end moves a relabelled variable to the end of its order)
        key = lambda ls: sorted(map(repr, ls))
        if key(variables_of(m)) != key(want_m) or key(variables_of(cp)) != key(want_c):
            fail = fail or (f"after a copy ({route}) of a range-labelled {cls} and independent relabel / add_variable calls the original lists "
                            f"{variables_of(m)!r} (expected {want_m!r}) and the copy {variables_of(cp)!r} (expected {want_c!r})")
        return {"coq": None, "py_fail": fail, "features": feats, "nontrivial": True}
    # box
    vt = rng.choice(['SPIN', 'BINARY'])
    dt = rng.choice([np.float64, np.float32, object])
    m = dimod.BinaryQuadraticModel({'a': 1.0, 'b': -2.0, 'c': 0.5}, {('a', 'b'): 0.5, ('b', 'c'): -1.0}, 1.5, vt, dtype=dt)
    box = rng.choice([lambda: {"m": m, "s": m.spin, "b": m.binary}, lambda: [m.spin, m, m.binary], lambda: (m.binary, m.spin, m, m)])()
    route = rng.choice(['deepcopy', 'pickle'])
    feats["route"] = route
    snap = (m.vartype, dict(m.linear), dict(m.quadratic), m.offset)
    box2 = copy.deepcopy(box) if route == 'deepcopy' else pickle.loads(pickle.dumps(box))
    olds = list(box.values()) if isinstance(box, dict) else list(box)
    news = list(box2.values()) if isinstance(box2, dict) else list(box2)
    for o, nw in zip(olds, news):
        if nw.vartype is not o.vartype or not nw.is_equal(o):
            fail = f"one {route} over a container holding a model and its views: a {o.vartype.name} entry came back as {nw.vartype.name} {dict(nw.linear)}"
    for nw in news:
        nw.add_linear('a', 3.0)           # editing what came back must not reach the originals
    if (m.vartype, dict(m.linear), dict(m.quadratic), m.offset) != snap:
        fail = fail or f"editing the {route} of a container changed the original model"
    return {"coq": None, "py_fail": fail, "features": feats, "nontrivial": True}


def run_case(c):
    if c["kind"] == "direct":
        return run_direct(c)
    if c["kind"] == "ssalias":
        import w_c14
        evs, fail, feats, nt = w_c14.run_alias_events(c)
        feats["kind"] = "ssalias"
        return {"coq": clist(evs), "check_fn": "alias_check", "py_fail": fail, "features": feats, "nontrivial": nt}
    rng = wlib.Rng(c["seed"])
    feats = {"kind": c["kind"]}
    intern = {}
    hist = []
    vtab = {}
    handles = []
    fail = None
    global HT
    HT = LabelTable()
    HL = HeapLog()

    def sid(s):
        k = json.dumps(s, sort_keys=True)
        if k not in intern:
            intern[k] = len(intern) + 1
        return intern[k]

    def owner_of(h):
        return handles[h.parent] if h.parent is not None else h

    def dump():
        ids = []
        for h in handles:
            ids.append(sid(snap(h.obj, h.kind)))
        for j, h in enumerate(handles):
            if h.parent is not None:
                ow = handles[h.parent]
                cl = clone(ow.obj, ow.kind)
                vtab[(h.w, ids[h.parent])] = sid(snap(VIEWS[h.w](cl), h.kind))
        return ids

    def emit(term):
        hist.append(cpair(term, clist([cnat(i) for i in dump()])))

    obj, kind = build(c["kind"], rng)
    handles.append(Handle(obj, kind))
    ncopies = 0
    try:
        hist.append(cpair(f"(ONew {cnat(sid(snap(obj, kind)))})", clist([cnat(i) for i in dump()])))
        HL.new(0, handles)
        HL.flush(handles)

        def do_one(sseed):
            nonlocal fail, ncopies
            r = wlib.Rng(sseed)
            owners = [i for i, h in enumerate(handles) if h.parent is None]
            act = r.choice(['copy', 'copy', 'edit', 'edit', 'edit', 'view', 'move', 'discrete', 'concat2'])
            if act == 'copy' and len(handles) >= 5:
                act = 'edit'
            if act == 'copy':
                i = r.choice(range(len(handles)))
                h = handles[i]
                ow = owner_of(h)
                calls = copy_calls(h.kind if h.kind != 'expr' else 'qm', h.obj, r)
                if h.kind == 'expr':
                    calls = [("copy.deepcopy", lambda o: (copy.deepcopy(o), 'qm'))] if False else []
                if not calls:
                    return
                name, f, hterm = r.choice(calls)
                feats["op"] = name
                before = [sid(snap(x.obj, x.kind)) for x in handles]
                st_before = [inst_state(x.obj, x.kind) for x in handles]

                def state_kept():
                    nonlocal fail
                    if [inst_state(x.obj, x.kind) for x in handles[:len(st_before)]] != st_before:
                        fail = fail or f"{name} (or the pickle round trip used to clone the receiver) changed the instance state of a live sample set (cached problem id)"
                        feats["instance_state_changed"] = True
                cl = clone(ow.obj, ow.kind)
                clh = VIEWS[h.w](cl) if h.parent is not None else cl
                try:
                    eobj, ekind = f(clh)
                    expected = sid(snap(eobj, ekind))
                    if name in IDENTITY:
                        expected = sid(snap(h.obj, h.kind))
                except ProbeMismatch:
                    raise
                except Exception as e:
                    expected = None
                    eexc = type(e).__name__
                try:
                    nobj, nkind = f(h.obj)
                except ProbeMismatch:
                    raise
                except Exception as e:
                    if expected is not None:
                        fail = fail or f"{name} raised {type(e).__name__} on the object but not on its clone"
                    after = [sid(snap(x.obj, x.kind)) for x in handles]
                    if after != before:
                        fail = fail or f"raising {name} changed a live object"
                    state_kept()
                    return
                state_kept()
                if expected is None:
                    fail = fail or f"{name} raised {eexc} on the clone but not on the object"
                    return
                if nobj is h.obj:
                    fail = fail or f"{name} returned the receiver itself"
                    feats["returned_self"] = True
                    return
                handles.append(Handle(nobj, nkind, via=name))
                ncopies += 1
                # Heap.v: the call with its real parameters when the receiver is an owning handle, else the given result
                HL.copy(i if h.parent is None else h.parent, len(handles) - 1, handles, hterm if h.parent is None else None)
                if name == "pickle" and nkind == 'bqm' and list(nobj.variables) != list(h.obj.variables):
                    feats["pickle_reorders_variables"] = True
                if name == "concatenate([a])" and np.shares_memory(nobj.record, h.obj.record):
                    feats["concat_single_alias"] = True
                emit(f"(OCopy {cnat(i)} {cnat(expected)})")
            elif act == 'concat2':
                # dimod.concatenate of SEVERAL live sample sets whose label orders / vartypes differ: every input, first or
                # not, must be left bit-for-bit unchanged (later inputs are re-ordered / converted on the way in)
                ssi = [i for i in owners if handles[i].kind == 'ss']
                if not ssi or len(handles) > 3:
                    return
                i = r.choice(ssi)
                a = handles[i].obj
                nv = len(a.variables)
                if nv == 0:
                    return        # numpy.ma cannot stack the zero-width sample field (IndexError inside numpy)
                perm = list(range(nv))
                mode = r.choice(['reverse', 'reverse', 'shuffle', 'same'])
                if mode == 'reverse':
                    perm.reverse()
                elif mode == 'shuffle':
                    r.shuffle(perm)
                labels_p = [list(a.variables)[k] for k in perm]
                pvt = a.vartype
                arr = a.record.sample[:, perm].copy()
                if r.random() < 0.3 and a.vartype in (dimod.SPIN, dimod.BINARY) and arr.dtype.kind not in 'bu':
                    pvt = dimod.BINARY if a.vartype is dimod.SPIN else dimod.SPIN
                    arr = ((arr + 1) // 2 if a.vartype is dimod.SPIN else 2 * arr - 1).astype(arr.dtype)
                vecs = {nm: a.record[nm].copy() for nm in a.record.dtype.names if nm not in ('sample', 'energy', 'num_occurrences')}
                partner = dimod.SampleSet.from_samples((arr, labels_p), pvt, energy=a.record.energy.copy(),
                                                       num_occurrences=a.record.num_occurrences.copy(),
                                                       info={'id': 2, 'nested': {'a': [2]}}, sort_labels=False, **vecs)
                handles.append(Handle(partner, 'ss'))
                pi = len(handles) - 1
                emit(f"(ONew {cnat(sid(snap(partner, 'ss')))})")
                HL.new(pi, handles)
                order = r.choice(['pa', 'ap', 'pap', 'apa'])
                feats["op"] = "concatenate(%s,%s)" % (order, mode)

                def cat(x, y):
                    return dimod.concatenate([{'a': x, 'p': y}[ch] for ch in order])
                try:
                    eobj = cat(clone(a, 'ss'), clone(partner, 'ss'))
                    expected = sid(snap(eobj, 'ss'))
                except TypeError as e:
                    if 'Incompatible type' in str(e):
                        return
                    raise
                nobj = cat(a, partner)
                handles.append(Handle(nobj, 'ss', via="concatenate"))
                emit(f"(OCopy {cnat(i)} {cnat(expected)})")
                hidx = {'a': i, 'p': pi}
                HL.copy(hidx[order[0]], len(handles) - 1, handles,
                        "(CConcat %s)" % clist([cnat(HL.cell[hidx[ch]]) for ch in order[1:]]))
            elif act == 'view':
                cands = [i for i in owners if handles[i].kind in ('bqm', 'cqm')]
                if not cands or len(handles) >= 5:
                    return
                i = r.choice(cands)
                h = handles[i]
                w = (0 if h.obj.vartype is dimod.BINARY else 1) if h.kind == 'bqm' else 2   # (.binary of a BINARY model is the model itself)
                handles.append(Handle(VIEWS[w](h.obj), 'bqm' if h.kind == 'bqm' else 'expr', parent=i, w=w))
                emit(f"(OView {cnat(i)} {cnat(w)})")
            elif act == 'discrete':
                # a one-hot model of the caller handed to a CQM through add_discrete / add_discrete_from_comparison /
                # add_discrete_from_model with every combination of check_overlaps and copy (given or defaulted)
                cq_ = [i for i in owners if handles[i].kind == 'cqm']
                if not cq_:
                    if len(handles) < 5:
                        handles.append(Handle(dimod.ConstrainedQuadraticModel(), 'cqm'))
                        emit(f"(ONew {cnat(sid(snap(handles[-1].obj, 'cqm')))})")
                        HL.new(len(handles) - 1, handles)
                    return
                if len(handles) >= 5:
                    return
                ci = r.choice(cq_)
                cqm = handles[ci].obj
                tagd = r.randint(0, 9999)
                dl = [('d', tagd, j) for j in range(r.randint(2, 4))]
                if r.random() < 0.25 and len(cqm.variables):
                    dl[0] = r.choice(list(cqm.variables))        # an existing variable: overlap / vartype checks come into play
                mkind = r.choice(['qm', 'bqm'])
                if mkind == 'qm':
                    mod = dimod.QuadraticModel()
                    for v in dl:
                        mod.add_variable('BINARY', v)
                        mod.set_linear(v, 1)
                else:
                    mod = dimod.BinaryQuadraticModel({v: 1 for v in dl}, {}, 0, 'BINARY')
                handles.append(Handle(mod, mkind))
                mi = len(handles) - 1
                emit(f"(ONew {cnat(sid(snap(mod, mkind)))})")
                HL.new(mi, handles)
                api = r.choice(['add_discrete', 'add_discrete_from_comparison', 'add_discrete_from_model'])
                kw = {}
                co = r.choice([None, True, False])
                cp = r.choice([None, True, False])
                if co is not None:
                    kw['check_overlaps'] = co
                if cp is not None:
                    kw['copy'] = cp
                moves = cp is False
                lbl = 'disc%d' % tagd
                feats["op"] = "%s(check_overlaps=%s, copy=%s)" % (api, co, cp)
                before_mi = sid(snap(mod, mkind))
                ccl, mcl = clone(cqm, 'cqm'), clone(mod, mkind)
                try:
                    ccl.add_discrete_from_model(mcl, label=lbl, copy=True, check_overlaps=(True if co is None else co))
                    eraised = False
                except ValueError:
                    eraised = True
                exp_c = sid(snap(ccl, 'cqm'))
                try:
                    if api == 'add_discrete_from_model':
                        cqm.add_discrete_from_model(mod, label=lbl, **kw)
                    elif api == 'add_discrete_from_comparison':
                        cqm.add_discrete_from_comparison(mod == 1, label=lbl, **kw)
                    else:
                        cqm.add_discrete(mod == 1, label=lbl, **kw)
                    raised = False
                except ValueError:
                    raised = True
                if raised != eraised:
                    fail = fail or "add_discrete raises differently from add_discrete_from_model(copy=True) on clones"
                d_now = dump()
                if not raised:
                    HL.ops.append(f"(HAddConstraint {cnat(HL.cell[ci])} {cnat(HL.cell[mi])} {cnat(HL.token('con', lab(lbl)))} {cbool(not moves)})")
                if moves and not raised:
                    d_mid = list(d_now)
                    d_mid[mi] = before_mi
                    hist.append(cpair(f"(OEdit {cnat(ci)} {cnat(exp_c)})", clist([cnat(x) for x in d_mid])))
                    empty = dimod.BinaryQuadraticModel('BINARY', dtype=mod.dtype) if mkind == 'bqm' else dimod.QuadraticModel(dtype=mod.dtype)
                    feats["moved_from"] = mkind
                    hist.append(cpair(f"(OEdit {cnat(mi)} {cnat(sid(snap(empty, mkind)))})", clist([cnat(x) for x in d_now])))
                    nl = ('r', tagd)
                    if mkind == 'bqm':
                        mod.add_variable(nl, 1.0); empty.add_variable(nl, 1.0)
                    else:
                        mod.add_variable('BINARY', nl); empty.add_variable('BINARY', nl)
                        mod.add_linear(nl, 1.0); empty.add_linear(nl, 1.0)
                    hist.append(cpair(f"(OEdit {cnat(mi)} {cnat(sid(snap(empty, mkind)))})", clist([cnat(x) for x in dump()])))
                    HL.edit(mi, handles)
                else:
                    # copy=True (given or default), or the call raised: the caller's model is not an edited cell,
                    # so the store model demands it bit-for-bit unchanged
                    hist.append(cpair(f"(OEdit {cnat(ci)} {cnat(exp_c)})", clist([cnat(x) for x in d_now])))
            elif act == 'move':
                cq_ = [i for i in owners if handles[i].kind == 'cqm']
                # a CQM accepts neither object-dtype BQMs nor BQMs backed by a VartypeView (bqm.spin, or a
                # deepcopy of one): add_constraint_from_model raises TypeError "No matching signature found"
                ms = [i for i in owners if handles[i].kind in ('bqm', 'qm') and np.dtype(handles[i].obj.dtype) != np.dtype(object)
                      and type(getattr(handles[i].obj, 'data', None)).__name__ != 'VartypeView']
                if not cq_ or not ms:
                    if not cq_ and ms and len(handles) < 5:
                        handles.append(Handle(dimod.ConstrainedQuadraticModel(), 'cqm'))
                        emit(f"(ONew {cnat(sid(snap(handles[-1].obj, 'cqm')))})")
                        HL.new(len(handles) - 1, handles)
                    return
                ci, mi = r.choice(cq_), r.choice(ms)
                cqm, mod = handles[ci].obj, handles[mi].obj
                if any(h.parent == mi for h in handles):
                    cp = True
                else:
                    cp = r.random() < 0.5
                lbl = 'm%d' % r.randint(0, 999)
                feats["op"] = "add_constraint_from_model(copy=%s)" % cp
                before_mi = sid(snap(mod, handles[mi].kind))
                ccl, mcl = clone(cqm, 'cqm'), clone(mod, handles[mi].kind)
                try:
                    ccl.add_constraint_from_model(mcl, '<=', 1, label=lbl, copy=True)
                    exp_c = sid(snap(ccl, 'cqm'))
                    eraised = False
                except ValueError:
                    exp_c = sid(snap(ccl, 'cqm'))
                    eraised = True
                try:
                    # every public entry point that has a `copy` parameter (Gen_Copy.v lists them)
                    api = r.choice(['add_constraint_from_model', 'add_constraint_from_comparison', 'add_constraint'])
                    feats["op"] = "%s(copy=%s)" % (api, cp)
                    if api == 'add_constraint_from_model':
                        cqm.add_constraint_from_model(mod, '<=', 1, label=lbl, copy=cp)
                    elif api == 'add_constraint_from_comparison':
                        cqm.add_constraint_from_comparison(mod <= 1, label=lbl, copy=cp)
                    else:
                        cqm.add_constraint(mod <= 1, label=lbl, copy=cp)
                    raised = False
                except ValueError:
                    raised = True
                if raised != eraised:
                    fail = fail or "add_constraint_from_model raises differently for copy=True and copy=False"
                d_now = dump()
                if not raised:
                    HL.ops.append(f"(HAddConstraint {cnat(HL.cell[ci])} {cnat(HL.cell[mi])} {cnat(HL.token('con', lab(lbl)))} {cbool(bool(cp))})")
                if not cp and not raised:
                    d_mid = list(d_now)
                    d_mid[mi] = before_mi        # the model learns about the emptied source with the next entry
                    hist.append(cpair(f"(OEdit {cnat(ci)} {cnat(exp_c)})", clist([cnat(x) for x in d_mid])))
                else:
                    hist.append(cpair(f"(OEdit {cnat(ci)} {cnat(exp_c)})", clist([cnat(x) for x in d_now])))
                if not cp and not raised:
                    if handles[mi].kind == 'bqm':
                        empty = dimod.BinaryQuadraticModel(mod.vartype, dtype=mod.dtype)
                    else:
                        empty = dimod.QuadraticModel(dtype=mod.dtype)
                    feats["moved_from"] = handles[mi].kind
                    hist.append(cpair(f"(OEdit {cnat(mi)} {cnat(sid(snap(empty, handles[mi].kind)))})", clist([cnat(x) for x in dump()])))
                    # the moved-from model must be reusable: add a variable to it and to a fresh empty model alike
                    nl = fresh_label(r, [])
                    if handles[mi].kind == 'bqm':
                        mod.add_variable(nl, 1.0); empty.add_variable(nl, 1.0)
                    else:
                        mod.add_variable('BINARY', nl); empty.add_variable('BINARY', nl)
                        mod.add_linear(nl, 1.0); empty.add_linear(nl, 1.0)
                    hist.append(cpair(f"(OEdit {cnat(mi)} {cnat(sid(snap(empty, handles[mi].kind)))})", clist([cnat(x) for x in dump()])))
                    HL.edit(mi, handles)
            else:
                i = r.choice(range(len(handles)))
                h = handles[i]
                ow = owner_of(h)
                es = edits(h.kind, h.obj, r, is_view=h.parent is not None)
                if not es:
                    return
                name, f, hterm = r.choice(es)
                feats["edit"] = name
                cl = clone(ow.obj, ow.kind)
                if sid(snap(cl, ow.kind)) != sid(snap(ow.obj, ow.kind)):
                    fail = fail or "a pickled / deep-copied clone differs from the object"
                clh = VIEWS[h.w](cl) if h.parent is not None else cl
                exc1 = exc2 = None
                try:
                    f(clh)
                except ProbeMismatch:
                    raise
                except Exception as e:
                    exc1 = type(e).__name__
                try:
                    f(h.obj)
                except ProbeMismatch:
                    raise
                except Exception as e:
                    exc2 = type(e).__name__
                if exc1 != exc2:
                    fail = fail or f"edit {name} raised {exc2} on the object and {exc1} on its clone"
                expected = sid(snap(cl, ow.kind))
                emit(f"(OEdit {cnat(i)} {cnat(expected)})")
                HL.edit(i if h.parent is None else h.parent, handles,
                        hterm if (h.parent is None and exc1 is None and exc2 is None) else None)
                if h.kind == 'ss' and r.random() < 0.3 and 'nested' in h.obj.info:
                    # nested info values: an edit below the top level of info
                    before = [sid(snap(x.obj, x.kind)) for x in handles]
                    h.obj.info['nested']['a'].append(5)
                    after = [sid(snap(x.obj, x.kind)) for x in handles]
                    changed = [j for j in range(len(handles)) if before[j] != after[j] and j != i]
                    h.obj.info['nested']['a'].pop()
                    # SampleSet.copy() is documented as a shallow copy (it copies the record but only the top level
                    # of info), so sharing between a sample set and its copy() is the documented alias; any other
                    # call that shares nested info values is reported
                    vias = sorted({handles[max(i, j)].via for j in changed} - {"copy()"})
                    if vias:
                        feats.pop("edit", None)
                        feats.pop("op", None)
                        if all(v in ("relabel_variables(inplace=False)", "change_vartype(inplace=False)", "lowest") for v in vias):
                            feats["info_shared_via_copy"] = True
                        else:
                            feats["info_nested_shared"] = True
                        feats["via"] = vias[0]
                        fail = fail or ("an edit of a nested info value of one sample set is visible through another (created by %s)" % vias[0])
        for sseed in c["steps"]:
            do_one(sseed)
            HL.flush(handles)
    except ProbeMismatch as e:
        fail = fail or str(e)
        feats["probe_mismatch"] = True
    tab = clist([f"({cnat(w)}, {cnat(p)}, {cnat(v)})" for (w, p), v in vtab.items()])
    import w_c14
    coq = f"(mkCase {tab} {clist(hist)} {w_c14.coq_K(HT)} {cnat(len(HT) + 1)} {clist(HL.hist)})"
    return {"coq": coq, "py_fail": fail, "features": feats, "nontrivial": len(handles) >= 2 and len(hist) >= 3}


if __name__ == "__main__":
    wlib.main(gen_case, run_case)
