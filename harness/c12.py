PID = "C12"
WORKER = "w_c12"
HEADER = ("From Coq Require Import List ZArith NArith QArith Qcanon.\n"
          "From Dimod Require Import Base.Util Model.Poly Model.LP Model.LPTok Model.LPRead Model.ChkC12.\nImport ListNotations.")
CHECK_FN = "check"
N_QUICK = 1000
N_THOROUGH = 40000
SHARD = 100
SHRINK_KEYS = ["probes"]
RULE = ("random LP-expressible CQMs: 0-14 BINARY/INTEGER/REAL variables with explicit, partial or default bounds (incl. unused variables), "
        "labels of 1-90 characters (up to 255 thorough) over LABEL_VALID_CHARS incl. the punctuation and typographic quotes, objective and "
        "0-5 hard constraints (all senses) with dyadic coefficients incl. 0, +-1, 2^-10..2^31 magnitudes (so that float energies stay exact), squared integer terms, constant "
        "offsets, empty objective / empty lhs, constraint labels equal to variable labels; loads(dumps(cqm)) compared: variables, vartypes, "
        "bounds, labels exactly (worker), objective / lhs / sense / rhs coefficient-wise and energies at 2 samples in Coq against the term "
        "model; the recorded sequence of _WidthLimitedFile.write calls is wrapped by the Coq model and compared with the text, tokens of the "
        "text = tokens of the writes. Magnitude stream (12%): right-hand sides +-1e29..1.8e308 and variable bounds at the vartype limits (+-1e30 REAL, +-(2^53-1) INTEGER) for all senses, sense/rhs/bounds compared exactly, energies not probed. Every round trip also feeds the words of the dumped text, classified into tokens, to the Coq reference parser (parse_tokens + reader conventions) and compares objective, constraints (label, lhs, sense, rhs) and variables (type, clamped bounds) with what the C++ reader built. Label stream (14%): 2-4 binary variables whose adjacent names may form the reader's two-word keywords (subject to / such that, any case), compared with names_section_read; or one accepted label - random, or inside the reported defect regions (keywords in any case, inf/nan prefixes, leading ';', free) - as a variable or a constraint label in a small model; whether loads(dumps) gives the model back is compared with the Coq model of the reader's tokenizer built from the keyword/delimiter tables generated from reader.cpp, def.hpp and lp.py (translators/lp_grammar.py). Refusal stream (22%): SPIN variable (used/unused), soft constraint, non-string / empty / 256+ / "
        "bad-first-character / out-of-alphabet label on a variable or a constraint, plus controls: dump must raise exactly when the model "
        "says so and leave nothing loadable. Labels in the reported defect regions (leading ';', LP keywords, inf/nan prefixes, adjacent "
        "subject/to) are kept out of the random stream. Round 4: in 60% of the magnitude stream, linear / quadratic coefficients, objective "
        "offsets and right-hand sides at the ends of the double range (subnormals 5e-324..2.2e-308 where strtod reports ERANGE, 1e-300, 1e300, "
        "1.8e308), compared exactly; every round trip additionally feeds the CHARACTERS of the dumped text to the Coq model of the reader's "
        "tokenizer and keyword stage (Model/LPLex.v: readnexttoken + processtokens with the generated tables, strtod span, exact decimal "
        "value of numerals) in front of the reference parser and compares with what the C++ reader built (KTripFull). "
        "Round 5: INTEGER variables with non-integral bounds (1/2..7/2, -5/2..-1/2, one-sided), compared exactly; near-keyword labels "
        "(every reader keyword with '.', '..', ',', '?', '_', quote, ';', 's' appended or a '.' inserted/moved, any case) as variable and "
        "constraint labels - a label outside the worker's PINNED copy of the reader's keywords that does not come back is a failure whatever "
        "the generated tables say; refused labels with whitespace / control characters (newline, CR, tab, blank, VT, FF, NUL, US, DEL, NEL, "
        "NBSP, LS, PS) trailing, leading, embedded or alone. "
        "non-trivial = model has a term or a constraint; distinct by case JSON")
TRUSTED = ["generated: coq/theories/Gen/Gen_LP.v by translators/lp_grammar.py (LABEL_VALID_CHARS, LABEL_INVALID_FIRST_CHARS, label length, "
           "TARGET_LINE_LEN and break string of lp.py; sectionkeywordmap, single-character tokens, line-discarding characters, identifier "
           "delimiters of reader.cpp; LP_KEYWORD_INF/FREE of def.hpp); hand-stated: the prefixes C strtod consumes (digits, '.', inf, nan)",
           "model: coq/theories/Model/{LP,Poly,ChkC12}.v (hand written mirror of lp.py dump/_WidthLimitedFile/_validate_label and "
           "cylp.pyx copy_expression/model_to_cqm)",
           "model: coq/theories/Model/LPTok.v: token-level printer and a reference parser for the writer's grammar, proved inverse "
           "(C12_parse_print_cqm); the C++ tokenizer/parser extern/filereaderlp is tied to it: the reference parser run on the words of "
           "the implementation's own text must give the objective, constraints, types and bounds the C++ reader gives (KParse)",
           "model: coq/theories/Model/LPLex.v: the reader's tokenizer (Reader::readnexttoken) and keyword stage (Reader::processtokens) as code "
           "on the characters of the file, with the generated tables; hand-stated: the shape of the text C strtod consumes (decimal "
           "literals, inf/infinity/nan; hexadecimal literals refused), the kind of each single-character token, and the translation of "
           "the reader's processed tokens into the reference parser's vocabulary (to_tokens); numerals whose decimal value is not a double "
           "are looked up in a table of Python float() values (strtod's rounding is not modelled), all others are evaluated in Coq",
           "the older word-level comparison is kept: the worker classifies the whitespace-separated words of the text into tokens "
           "(section lines in column 0, label tables of the model, Python float() for numerals)",
           "Python repr / C strtod agree on the printed dyadic numbers (oracle)",
           "pinned: the reader's keyword / delimiter tables as reviewed (Proofs/LPLexFacts.v PINNED_SECTION_WORDS, theorem "
           "C12_reader_tables_are_the_pinned_ones; worker-side KEYWORDS / TWO_WORD): a change of the tables in reader.cpp / def.hpp "
           "breaks the theorem even though model and implementation move together"]
ASSUMPTIONS = ["coefficients are dyadic and exactly printed by repr and re-read by strtod",
               "the C++ reader agrees with the verified reference parser on the writer's grammar (checked on every generated text, not proved)"]
PARTIAL = ["the round trip is now proved from the CHARACTERS within the model (C12_lp_chars_roundtrip: writer conventions, words + any line "
           "breaks, tokenizer, keyword stage, translation, reference parser, reader conventions; hypotheses: labels outside the reported "
           "defect regions, numerals = decimal words the reader values correctly, bounds in range). NOT proved, only checked on every "
           "generated text (KTripFull): that the text lp.dump really writes is the words of items_cqm (lpmodel_of_cqm c) - the Coq "
           "printer mirrors dump by inspection; the fixed words are generated from dump's source",
           "the section parsers of the C++ reader (processobjectivesec, parseexpression, processboundssec, ...) are not modelled as code: "
           "the reference parser of Model/LPTok.v (proved inverse of the printer) stands for them and is compared with the C++ result",
           "numerals: the Coq model evaluates a decimal numeral exactly; where that value is not a double (e.g. 1e+30, 3e-310) the "
           "rounding of strtod is taken from Python's float() (table in the case), not modelled; Python repr is an oracle"]
