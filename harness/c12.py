PID = "C12"
WORKER = "w_c12"
HEADER = ("From Coq Require Import List ZArith NArith QArith Qcanon.\n"
          "From Dimod Require Import Base.Util Model.Poly Model.LP Model.LPTok Model.LPRead Model.ChkC12.\nImport ListNotations.")
CHECK_FN = "check"
N_QUICK = 1200
N_THOROUGH = 40000
SHARD = 100
SHRINK_KEYS = ["probes"]
RULE = ("random LP-expressible CQMs: 0-14 BINARY/INTEGER/REAL variables with explicit, partial or default bounds (incl. unused variables), "
        "labels of 1-90 characters (up to 255 thorough) over LABEL_VALID_CHARS incl. the punctuation and typographic quotes, objective and "
        "0-5 hard constraints (all senses) with dyadic coefficients incl. 0, +-1, 2^-10..2^31 magnitudes (so that float energies stay exact), squared integer terms, constant "
        "offsets, empty objective / empty lhs, constraint labels equal to variable labels; loads(dumps(cqm)) compared: variables, vartypes, "
        "bounds, labels exactly (worker), objective / lhs / sense / rhs coefficient-wise and energies at 2 samples in Coq against the term "
        "model; the recorded sequence of _WidthLimitedFile.write calls is wrapped by the Coq model and compared with the text, tokens of the "
        "text = tokens of the writes. Magnitude stream (12%): right-hand sides +-1e29..1.8e308 and variable bounds at the vartype limits (+-1e30 REAL, +-(2^53-1) INTEGER) for all senses, sense/rhs/bounds compared exactly, energies not probed. Every round trip also feeds the words of the dumped text, classified into tokens, to the Coq reference parser (parse_tokens + reader conventions) and compares objective, constraints (label, lhs, sense, rhs) and variables (type, clamped bounds) with what the C++ reader built. Label stream (14%): 2-4 binary variables whose adjacent names may form the reader's two-word keywords (subject to / such that, any case), compared with names_section_read; or one accepted label - random, or inside the reported defect regions (keywords in any case, inf/nan prefixes, leading ';', free) - as a variable or a constraint label in a small model; whether loads(dumps) gives the model back is compared with the Coq model of the reader's tokenizer built from the keyword/delimiter tables generated from reader.cpp, def.hpp and lp.py (translators/lp_grammar.py). Refusal stream (22%): SPIN variable (used/unused), soft constraint, non-string / empty / 256+ / "
        "bad-first-character / out-of-alphabet label on a variable or a constraint, plus controls: dump must raise exactly when the model "
        "says so and leave nothing loadable. Labels in the reported defect regions (leading ';', LP keywords, inf/nan prefixes, adjacent "
        "subject/to) are kept out of the random stream. non-trivial = model has a term or a constraint; distinct by case JSON")
TRUSTED = ["generated: coq/theories/Gen/Gen_LP.v by translators/lp_grammar.py (LABEL_VALID_CHARS, LABEL_INVALID_FIRST_CHARS, label length, "
           "TARGET_LINE_LEN and break string of lp.py; sectionkeywordmap, single-character tokens, line-discarding characters, identifier "
           "delimiters of reader.cpp; LP_KEYWORD_INF/FREE of def.hpp); hand-stated: the prefixes C strtod consumes (digits, '.', inf, nan)",
           "model: coq/theories/Model/{LP,Poly,ChkC12}.v (hand written mirror of lp.py dump/_WidthLimitedFile/_validate_label and "
           "cylp.pyx copy_expression/model_to_cqm)",
           "model: coq/theories/Model/LPTok.v: token-level printer and a reference parser for the writer's grammar, proved inverse "
           "(C12_parse_print_cqm); the C++ tokenizer/parser extern/filereaderlp is tied to it: the reference parser run on the words of "
           "the implementation's own text must give the objective, constraints, types and bounds the C++ reader gives (KParse)",
           "character-level lexing is not modelled: the worker classifies the whitespace-separated words of the text into tokens "
           "(section lines in column 0, label tables of the model, Python float() for numerals)",
           "Python repr / C strtod agree on the printed dyadic numbers (oracle)"]
ASSUMPTIONS = ["coefficients are dyadic and exactly printed by repr and re-read by strtod",
               "the C++ reader agrees with the verified reference parser on the writer's grammar (checked on every generated text, not proved)"]
PARTIAL = []
