"""C10 worker: every prefix of a serialized model is loaded by the implementation in short-lived
child processes (crash / hang detection); outcomes are bucketed and handed to the Coq decoder."""
import hashlib
import json
import os
import subprocess
import sys

import numpy as np
import dimod

import wlib
from wlib import clist, cnat
import gen
from gen import F
import codecgen as G
from codecgen import state_of, diff_state, cbytes

MAX_LEN = {'bqm': 2048, 'qm': 2048, 'cqm': 3072, 'dqm': 3072, 'cqm_legacy': 3072}
PER_PREFIX_TIMEOUT = 10


def gen_case(rng, tier):
    kind = rng.choice(['bqm', 'bqm', 'qm', 'qm', 'cqm', 'dqm', 'cqm_member', 'cqm_member', 'cqm_legacy', 'cqm_legacy_member'])
    c = {"kind": kind, "how": rng.choice(['bytes', 'bytes', 'file', 'load_bytes', 'diskfile', 'diskfile', 'spooled', 'load_diskfile'])}
    wild = 0.15
    if kind == 'bqm':
        n = rng.randint(0, 5)
        labels = G.pick_labels(rng, n, wild_p=wild)
        c["dtype"] = rng.choice(['float64', 'float32'])
        c["desc"] = G.rand_desc(rng, labels, kinds=('BINARY', 'SPIN'), single_vartype=True, kmax=6, jmax=1)
        c["desc"]["vartype"] = rng.choice(['BINARY', 'SPIN']) if n == 0 else c["desc"]["vars"][0][1]
        c["version"] = rng.choice([1, 2, 2])
        c["ignore_labels"] = rng.random() < 0.15
    elif kind == 'qm':
        n = rng.randint(0, 5)
        labels = G.pick_labels(rng, n, wild_p=wild)
        c["dtype"] = rng.choice(['float64', 'float32'])
        c["desc"] = G.rand_desc(rng, labels, kmax=6, jmax=1)
    elif kind == 'cqm':
        c["cqm"] = G.rand_cqm_desc(rng, nmax=3, cmax=1, wild_p=wild)
        c["compress"] = rng.random() < 0.5
    elif kind == 'cqm_member':
        # a VALID zip in which one member handled by a raw-buffer loader (varinfo, objective, a constraint's lhs)
        # was cut short
        c["cqm"] = G.rand_cqm_desc(rng, nmax=4, cmax=2, wild_p=wild)
        c["compress"] = rng.random() < 0.5
        c["member_sel"] = rng.random()
    elif kind in ('cqm_legacy', 'cqm_legacy_member'):
        # CQM serialization version 1.x (read by _from_file_legacy), written by hand: whole-file prefixes, or one
        # QM / BQM member (objective, a constraint's lhs) cut inside a valid zip
        c["cqm"] = G.rand_cqm_desc(rng, nmax=2 if kind == 'cqm_legacy' else 4, cmax=1 if kind == 'cqm_legacy' else 2, wild_p=wild)
        c["minor"] = rng.choice([0, 1, 2, 3])
        c["compress"] = rng.random() < 0.5
        c["bqm_lhs"] = [rng.random() < 0.5 for _ in range(4)]
        c["bqm_version"] = rng.choice([1, 2])
        c["member_sel"] = rng.random()
    else:
        c["dqm"] = G.rand_dqm_desc(rng, nmax=3, wild_p=wild)
        c["compress"] = rng.random() < 0.5
        c["ignore_labels"] = rng.random() < 0.2
        if rng.random() < 0.3:
            # the file written by hand (no dimod) in format version 1.0 (no offset entry) or 1.1
            c["hand_minor"] = rng.choice([0, 1])
    return c


def make_file(c):
    kind = c["kind"]
    if kind == 'bqm':
        m = G.build_bqm(c["desc"], c["dtype"])
        data = m.to_file(version=c["version"], ignore_labels=c["ignore_labels"]).read()
        exp = state_of(m)
        if c["ignore_labels"]:
            exp = G.relabelled_state(exp, m.num_variables)
    elif kind == 'qm':
        m = G.build_qm(c["desc"], c["dtype"])
        data = m.to_file().read()
        exp = state_of(m)
    elif kind in ('cqm', 'cqm_member', 'memcheck_member'):
        m = G.build_cqm(c["cqm"])
        data = m.to_file(compress=c["compress"]).read()
        exp = state_of(m)
    elif kind in ('cqm_legacy', 'cqm_legacy_member'):
        m = G.build_cqm(c["cqm"])
        s0 = state_of(m)
        minor = 3 if any(x["soft"] for x in s0["constraints"].values()) else c["minor"]
        data, _ = G.legacy_cqm_bytes(m, minor, compress=c["compress"], bqm_lhs=c["bqm_lhs"], bqm_version=c["bqm_version"])
        exp = G.legacy_expected_state(s0)
    elif kind in ('bigqm', 'memcheck'):
        # many INTEGER variables, no interactions; only the head of the file is kept
        m = dimod.QuadraticModel()
        m.add_variables_from('INTEGER', range(c["n"]))
        data = m.to_file().read(c["read"])
        exp = None
    else:
        m = G.build_dqm(c["dqm"])
        if c.get("hand_minor") is not None:
            data, exp = G.dqm_bytes_by_hand(c["dqm"], c["hand_minor"], c["compress"])
        else:
            data = m.to_file(compress=c["compress"], ignore_labels=c["ignore_labels"]).read()
            exp = state_of(m)
            if c["ignore_labels"]:
                exp = G.relabelled_state(exp, m.num_variables())
    return m, data, exp


VALGRIND = ["valgrind", "-q", "--error-exitcode=9", "--num-callers=12"]


def run_prefixes(kind, data, ks, how, ref_digest=None, under=None, noref=False, member=None):
    """-> {k: (bucket, detail)} with bucket in exception/equal/different/crash/hang"""
    out = {}
    todo = list(ks)
    env = dict(os.environ)
    while todo:
        job = json.dumps({"kind": kind, "hex": data.hex(), "ks": todo, "how": how, "noref": noref, "member": member,
                          "timeout": PER_PREFIX_TIMEOUT * (30 if under else 1)})
        if under:
            env["PYTHONMALLOC"] = "malloc"
        cmd = (under or []) + [sys.executable, "-X", "faulthandler", "-m", "prefix_runner"]
        try:
            r = subprocess.run(cmd, input=job, text=True, capture_output=True, env=env,
                               timeout=(600 if under else 60) + 2 * PER_PREFIX_TIMEOUT + len(todo) * 0.05)
            rc, so, se = r.returncode, r.stdout, r.stderr
        except subprocess.TimeoutExpired as e:
            rc, so, se = -14, (e.stdout or b"").decode() if isinstance(e.stdout, bytes) else (e.stdout or ""), ""
        started = None
        got_ref = False
        for line in so.splitlines():
            p = line.split(" ", 2)
            if p[0] == "R":
                got_ref = True
                if ref_digest is not None and p[1] != ref_digest:
                    return {"ref": ("refmismatch", p[1])}
            elif p[0] == "S":
                started = int(p[1])
            elif p[0].isdigit():
                k = int(p[0])
                b = {"E": "exception", "Q": "equal", "D": "different"}[p[1]]
                out[k] = (b, p[2] if len(p) > 2 else "")
                started = None
        if not got_ref:
            return {"ref": ("noref", f"exit {rc}: {se[-500:]}")}
        if under and rc == 9:
            lines = [l for l in se.splitlines() if "Invalid" in l or "dimod" in l]
            return {"memcheck": ("memcheck", " | ".join(lines[:6])[:900])}
        if rc == 0 and started is None:
            break
        if started is None:
            # died between prefixes: treat as crash of the next one
            rest = [k for k in todo if k not in out]
            if not rest:
                break
            started = rest[0]
        out[started] = ("hang" if rc == -14 else "crash", f"exit {rc}: {se[-300:]}")
        todo = [k for k in todo if k not in out]
    return out


def run_special(c, m, data, exp):
    """item-aligned cuts inside the VTYP section of a QM file.
       bigqm:    the over-read is long enough to leave the heap -> the child dies (crash bucket)
       memcheck: small model, the same cuts under valgrind: any invalid read in the loader is reported"""
    kind = c["kind"]
    i = data.index(b'VTYP') + 8
    ks = [i + 17 * j for j in c["items"]]
    feats = {"kind": kind, "oob_vtyp_truncated": True}
    if kind == 'bigqm':
        res = run_prefixes('qm', data, ks, 'bytes', noref=True)
    else:
        res = run_prefixes('qm', data, ks, 'bytes', noref=True, under=VALGRIND)
    fails = []
    if "memcheck" in res:
        fails.append(f"memcheck: invalid memory access while loading QM files cut inside VTYP at {ks}: {res['memcheck'][1]}")
        feats["bucket"] = "memcheck"
    elif "ref" in res:
        fails.append(f"runner failed: {res['ref']}")
        feats = {"kind": kind, "runner_failed": True}
    else:
        for k in ks:
            b, det = res.get(k, ("crash", "no result"))
            if b != "exception":
                fails.append(f"prefix of {k} bytes of a {c['n']}-variable QM file: {b} ({det[-200:]})")
                feats["bucket"] = b
    return {"coq": None, "py_fail": "; ".join(fails[:3]) if fails else None, "features": feats, "nontrivial": True,
            "observed": {"ks": ks, "res": {str(k): v[0] for k, v in res.items()}}}


def run_memcheck_member(c, m, data, exp):
    """record-aligned cuts of the varinfo / objective / lhs members of a valid CQM zip, loaded under valgrind:
       the guarded raw loaders (_ivarinfo_load, _iindices_load, _ilinear_load, _iquadratic_load) must raise, not read
       past the buffer"""
    mem = G.zip_members(data)
    names = ['varinfo', 'objective'] + sorted(n for n in mem if n.endswith('/lhs'))
    ks = []
    for i, name in enumerate(names):
        blob = mem[name]
        cuts = []
        for magic, lenb, item in ((b'VTYP', 4, 17), (b'INDX', 4, 4), (b'LINB', 4, 8), (b'QUAD', 8, 16)):
            p = blob.find(magic)
            if p >= 0:
                start = p + 4 + lenb
                cuts += [start + item * j for j in c["items"]]
        ks += [i * 100000 + k for k in cuts if k < len(blob)]
    feats = {"kind": "memcheck_member", "oob_member_truncated": True}
    ref_digest = hashlib.sha256(json.dumps(exp, sort_keys=True).encode()).hexdigest()
    res = run_prefixes('cqm', data, ks, 'bytes', ref_digest, under=VALGRIND, member=names)
    fails = []
    if "memcheck" in res:
        fails.append(f"memcheck: invalid memory access while loading CQM files with a cut zip member: {res['memcheck'][1]}")
        feats["bucket"] = "memcheck"
    elif "ref" in res:
        fails.append(f"runner failed: {res['ref']}")
        feats = {"kind": "memcheck_member", "runner_failed": True}
    else:
        for k in ks:
            b, det = res.get(k, ("crash", "no result"))
            if b not in ("exception", "equal"):
                fails.append(f"member {names[k // 100000]!r} cut to {k % 100000} bytes: {b} ({det[-200:]})")
                feats["bucket"] = b
    return {"coq": None, "py_fail": "; ".join(fails[:3]) if fails else None, "features": feats, "nontrivial": len(ks) > 4,
            "observed": {"n_cuts": len(ks), "members": names, "res": {str(k): v[0] for k, v in res.items()}}}


def run_member(c, m, data, exp):
    mem = G.zip_members(data)
    legacy = c["kind"] == 'cqm_legacy_member'
    names = ([] if legacy else ['varinfo']) + ['objective'] + sorted(n for n in mem if n.endswith('/lhs'))
    name = names[min(int(c["member_sel"] * len(names)), len(names) - 1)]
    blob = mem[name]
    feats = {"kind": c["kind"], "member": 'lhs' if name.endswith('/lhs') else name}
    if len(blob) > 1536:
        return {"coq": None, "py_fail": None, "features": feats, "nontrivial": False, "observed": {"len": len(blob), "skipped": "too long"}}
    ref_digest = hashlib.sha256(json.dumps(exp, sort_keys=True).encode()).hexdigest()
    ks = list(range(len(blob)))
    res = run_prefixes('cqm', data, ks, c["how"], ref_digest, member=name)
    if "ref" in res:
        return {"coq": None, "py_fail": f"loading the complete file does not reproduce the model ({res['ref']})",
                "features": dict(feats, full_load=False), "nontrivial": True}
    fails, buckets = [], {}
    for k in ks:
        b, det = res.get(k, ("crash", "no result"))
        buckets.setdefault(b, []).append(k)
        if b in ("different", "crash", "hang") and len(fails) < 3:
            fails.append(f"zip member {name!r} cut to {k}/{len(blob)} bytes: {b} ({det})")
            feats["bucket"] = b
    ok = buckets.get("equal", [])
    if name == 'varinfo':
        fmt = f"(FVinfo {cnat(len(m.variables))})"
    elif legacy:
        # a version-1.x member is a whole QM or BQM file
        fmt = "FBqm" if blob[:8] == b'DIMODBQM' else "FQm"
        feats["member_fmt"] = fmt
    else:
        fmt = "FExpr"
    coq = f"(mkCase {fmt} {cbytes(blob)} (seq 0 {len(blob)}) {clist([cnat(k) for k in ok])})"
    if legacy and not G.cqm_all_modelled(m):
        coq = None
    return {"coq": coq, "py_fail": "; ".join(fails) if fails else None, "features": feats, "nontrivial": len(blob) > 64,
            "observed": {"member": name, "len": len(blob), "buckets": {b: len(v) for b, v in buckets.items()},
                         "first_equal": ok[0] if ok else None}}


def run_case(c):
    kind = c["kind"]
    feats = {"kind": kind}
    m, data, exp = make_file(c)
    fails = []
    if kind in ('bigqm', 'memcheck'):
        return run_special(c, m, data, exp)
    if kind == 'memcheck_member':
        return run_memcheck_member(c, m, data, exp)
    if kind in ('cqm_member', 'cqm_legacy_member'):
        return run_member(c, m, data, exp)
    if len(data) > MAX_LEN[kind]:
        return {"coq": None, "py_fail": None, "features": feats, "nontrivial": False, "observed": {"len": len(data), "skipped": "too long"}}
    ref_digest = hashlib.sha256(json.dumps(exp, sort_keys=True).encode()).hexdigest()
    ks = list(range(len(data)))
    res = run_prefixes('cqm' if kind == 'cqm_legacy' else kind, data, ks, c["how"], ref_digest)
    if "ref" in res:
        return {"coq": None, "py_fail": f"loading the complete file does not reproduce the model ({res['ref']})",
                "features": dict(feats, full_load=False), "nontrivial": True}
    buckets = {}
    for k in ks:
        b, det = res.get(k, ("crash", "no result"))
        buckets.setdefault(b, []).append(k)
        if b in ("different", "crash", "hang") and len(fails) < 3:
            fails.append(f"prefix of {k}/{len(data)} bytes: {b} ({det})")
            feats["bucket"] = b
    ok = buckets.get("equal", [])
    coq = None
    labels_ok = True
    if kind in ('bqm', 'qm'):
        labels_ok = c.get("ignore_labels") or all(G.is_modelled_label(v) for v in m.variables)
    if kind in ('bqm', 'qm') and labels_ok:
        coq = (f"(mkCase {'FBqm' if kind == 'bqm' else 'FQm'} {cbytes(data)} (seq 0 {len(data)}) "
               f"{clist([cnat(k) for k in ok])})")
    # the equal bucket must be a suffix range (only trailing bytes lost)
    if ok and ok != list(range(ok[0], len(data))):
        fails.append(f"prefixes loading as the equal model are not a contiguous tail: {ok[:10]}...")
    feats["tail_ok"] = len(ok)
    if c.get("hand_minor") is not None:
        feats["hand_minor"] = c["hand_minor"]
    return {"coq": coq, "py_fail": "; ".join(fails) if fails else None, "features": feats,
            "nontrivial": len(data) > 64,
            "observed": {"len": len(data), "buckets": {b: len(v) for b, v in buckets.items()}, "first_equal": ok[0] if ok else None}}


if __name__ == "__main__":
    wlib.main(gen_case, run_case)
