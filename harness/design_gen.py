#!/usr/bin/env python3
"""Regenerates sections 10.2-10.7 of /verif/DESIGN.md from the repository's own data
(claims, PARTIAL lists, KNOWN_FINDINGS.json, seeded/*/meta.json).  Development aid."""
import glob
import importlib
import json
import os
import re
import subprocess
import sys

ROOT = os.path.dirname(os.path.dirname(os.path.abspath(__file__)))
sys.path.insert(0, os.path.join(ROOT, "harness"))
kf = json.load(open(os.path.join(ROOT, "KNOWN_FINDINGS.json")))
claims = json.load(open(os.path.join(ROOT, "harness", "claims.json")))
out = []
TH = os.path.join(ROOT, "coq", "theories")


def deps(rel, seen):
    """transitive `From Dimod Require Import` closure of one .v file (Model/ and Gen/ members)"""
    p = os.path.join(TH, rel + ".v")
    if rel in seen:
        return
    seen.add(rel)
    if not os.path.exists(p):          # Gen/*.v are regenerated on every run and git-ignored
        return
    src = re.sub(r"\(\*.*?\*\)", "", open(p).read(), flags=re.S)
    for imp in re.findall(r"Require\s+(?:Import\s+|Export\s+)?(.*?)\.(?=\s|$)", src, flags=re.S):
        for name in imp.split():
            name = name.replace("Dimod.", "")
            if re.match(r"^(Base|Model|Proofs|Gen|Props)\.", name):
                deps(name.replace(".", "/"), seen)


def model_files(pid):
    seen = set()
    deps("Props/" + pid, seen)
    groups = {}
    for r in sorted(seen):
        d, f = r.split("/")
        if d in ("Model", "Gen"):
            groups.setdefault(d, []).append(f)
    return " + ".join("%s/{%s}.v" % (d, ",".join(fs)) for d, fs in groups.items())


def translator_list():
    lines = ["* Translators (trusted, fail-closed, run before every Coq build; output `coq/theories/Gen/*.v` is never committed;\n"
             "  a construct outside a translator's grammar is an error naming the source line, reported by the check as a broken tie - of exactly the\n"
             "  properties whose `Props/Cxx.v` or case-file header imports, transitively, a `Gen_*` module that translator writes\n"
             "  (`harness/common.py:translators_ok_for`; a translator may declare `PROPERTIES = [...]` instead);\n"
             "  theorems over the generated files are re-checked against what the source says now):\n"]
    for f in sorted(glob.glob(os.path.join(ROOT, "translators", "*.py"))):
        try:
            import ast as _ast
            d = _ast.get_docstring(_ast.parse(open(f).read())) or ""
        except SyntaxError:
            d = ""
        first = " ".join(d.split("\n\n")[0].split())[:260]
        lines.append(f"  - `translators/{os.path.basename(f)}`: {first}\n")
    return "".join(lines)


def ntheorems(pid):
    v = open(os.path.join(ROOT, "coq", "theories", "Props", pid + ".v")).read()
    v = re.sub(r"\(\*.*?\*\)", "", v, flags=re.S)
    return len(re.findall(r"^\s*(Theorem|Lemma|Corollary|Example|Fact|Proposition)\s", v, flags=re.M))


out.append("""
### 10.2 Per-property status (as built)

| id | model files | theorems in Props | partial / not modelled (from the check's own PARTIAL list) |
|----|-------------|-------------------|--------------------------------------------------------------|
""")
total = 0
for pid in ["C%02d" % i for i in range(1, 21)]:
    m = importlib.import_module(pid.lower())
    n = ntheorems(pid)
    total += n
    note = claims[pid]['note']
    mm = re.search(r"Models?: ([^.]*\.v[^.;]*)", note)
    models = model_files(pid) or (mm.group(1) if mm else '-')
    partial = "; ".join(getattr(m, 'PARTIAL', []) or [])[:700].replace('|', '/').replace('\n', ' ') or "-"
    out.append(f"| {pid} | {models} | {n} | {partial} |\n")
nsound = ntheorems("Sound") + ntheorems("Comb")
out.append(f"""
{total} theorems/examples in the 20 property files, plus {nsound} in `Props/Sound.v` and `Props/Comb.v`.
The full claim text per property (what is proved, what is compared) is in `MANIFEST.json`
(`level_claimed.text`, `level_note`), generated from `harness/claims.json`; the theorems themselves are in
`coq/theories/Props/Cxx.v` (statements only, each closed by `exact`, followed by `Print Assumptions`).
`coq/theories/Props/Sound.v` additionally proves that the executable comparisons used by the harness are sound and
complete decision procedures: `poly_coeff_eqb n a b = true <-> forall s, energy a s = energy b s` (for labels below
n) and `hpoly_eqb a b = true -> forall s, henergy a s = henergy b s`; `Props/Comb.v` holds the combinatorial cores
(Gray code, products, bit packing, slack coefficients, cardinality penalty) that several properties re-export.
Nothing is listed under `not_applicable`.

### 10.3 Findings

Running the checks (and reading code while modelling) exposed genuine defects of the pinned tree. Every one was
reproduced against the real code. """)
ncommits = subprocess.run('git -C /repo log --oneline e1efa5c..HEAD | wc -l', shell=True, capture_output=True, text=True).stdout.strip()
out.append(f"{len(kf['fixed'])} (property, defect) pairs were repaired by {ncommits} `fix:` commits in /repo "
           f"(the suite still passes unedited: 2911 passed, 2 skipped) "
           f"and {len(kf['findings'])} are recorded as open findings in `KNOWN_FINDINGS.json`. The model mirrors the code after the repairs; "
           "former finding cases stay in `corpus/` as regression cases and fail as ordinary VIOLATIONs if a defect returns. "
           "Most small repairs were prepared by a sub-agent on a separate branch, one commit per defect with the suite run after each, reviewed here and fast-forwarded into /repo; "
           "after the repairs every builder updated its model to the repaired code (refuted theorems about the old code became positive theorems), "
           "re-enabled the generator regions it had avoided, and found three incomplete repairs, which were completed.\n\n")
out.append("Repaired (`fixed:` entries, commit hashes of /repo):\n\n")
for f in kf['fixed']:
    m = re.match(r"fixed: property=(C\d+) (\w+) (.*)", f)
    out.append(f"* {m.group(1)} `{m.group(2)}` {m.group(3)}\n")
out.append("\nOpen (a matching minimised failing case prints `KNOWN-FINDING` instead of `VIOLATION`; anything else of the same property still fails). "
           "They are left open because the repair is not small and safe (a maintainer's design decision, a third-party reader, documented behaviour, or a wider rewrite):\n\n")
for f in kf['findings']:
    out.append(f"* {f['property']} `{f['id']}` matcher `{json.dumps(f['matcher'])}` - {f['description']}\n")
out.append("""
Observed but outside the literal text of any property (modelled as-is, no alarm): `quadratic_assignment` with an
asymmetric distance matrix (uses dist[j][l] twice), `magic_square`'s uniqueness constraint is necessary but not
sufficient for distinct entries, `cross_zero=True` admits every sum in 0..ub_c-lb_c, the constant of the 'unbalanced'
penalisation, `gnm_random_bqm` always picking the first m pairs (now a theorem about the faithful model:
`C17_gnm_selection_is_prefix`, `C17_gnm_draws_irrelevant`), `doped` dropping isolated declared nodes and summing the draws of
a repeated edge (`C17_doped_keeps_all_nodes_refuted`, `C17_doped_repeated_edge_refuted`), `frustrated_loop` with a
non-integer `R` exceeding it (`frustrated_loop(4,3,R=1.5,seed=0)` has |J| = 2; `C17_fl_cutoff_fractional_R_refuted`, while
`C17_fl_cutoff_integer_R` holds) and `plant_solution=False` always closing a loop with exactly one anti-ferromagnetic
coupler (`C17_fl_noplant_closing_is_afm`), a CQM does
not accept a BQM view (`cqm.set_objective(bqm.spin)` raises TypeError), `Variables([2**64+1])` raises OverflowError,
`BQM('SPIN').add_quadratic(np.int64(123), ('x', -3), 1.0)` raises NumPy's ambiguous-truth-value ValueError (the `u == v`
self-loop test of the model builders is not hash-first; such a model cannot be built at all, so the generators keep bare
NumPy-scalar labels and tuple labels apart).

False alarms met while building (corrected in the machinery, never listed as findings): duplicate labels in a
generated label list (2.5 and np.float32(2.5) are one label), a catalogue entry that was legal in some states
(`qm.change_vartype('REAL', r)` for an already REAL r, `add_discrete` on free variables, `add_variable('DISCRETE')`
which is an alias of INTEGER), a generator passing duplicate indices to `Expression::remove_variables` (outside its
precondition), comparisons of integral float labels with ints (7 vs 7.0 are the same dict key), a shrinker accepting
malformed shrunk cases, `np.int64 == tuple` inside the harness itself, `change_vartype(inplace=False)` on a pending
sample set blocks by design (it copies) and hung a worker, bounds rendered as exact rationals where dimod receives the
rounded float (1e30+1), `sum(list)` rendered as nested additions although Python evaluates all items first.
""")
rows = []
for d in sorted(glob.glob(os.path.join(ROOT, 'seeded', '*', '*'))):
    mp = os.path.join(d, 'meta.json')
    if not os.path.exists(mp):
        continue
    m = json.load(open(mp))
    rows.append((m['property'], os.path.basename(d), m))
EARLY_MISSED = {('C02', 'm1'), ('C02', 'm2')}


def caught_now(m):
    return bool((m.get('check_run') or {}).get('caught'))


def missed_on_arrival(p, k, m):
    # a recorded first run that did not catch it, the two early ones recorded by hand, or not caught yet
    return 'first_check_run' in m or (p, k) in EARLY_MISSED or not caught_now(m)


def round_of(k):
    mm = re.match(r"r(\d+)m\d+$", k)
    return int(mm.group(1)) if mm else 1


nmiss = sum(1 for p, k, m in rows if missed_on_arrival(p, k, m))
ncaught_now = sum(1 for p, k, m in rows if caught_now(m))
ROUNDS = sorted({round_of(k) for p, k, m in rows})
per_round = {r: [(p, k, m) for p, k, m in rows if round_of(k) == r] for r in ROUNDS}
out.append(f"\n### 10.4 Seeded changes (independent sub-agents; `seeded/<id>/m<k>/` first round, `r2m<k>/` ... `r6m<k>/` rounds two to six)\n\n"
           "For every property a fresh sub-agent that saw only the property text and its own worktree of /repo produced three changes that "
           "compile, pass the 2911 tests and break the property, each with a demo; five further rounds (after the repairs, and after each round of strengthening) asked three more per property each, "
           "different from the earlier ones (the agent was given one-line summaries of those to avoid). Each was re-validated here with `harness/seed_eval.py` "
           "(patch applies to a throw-away worktree, demo passes unchanged / fails changed, suite passes on the changed tree) and the quick check was "
           f"run against it (`VERIF_REPO=<worktree> ./check Cxx`). {len(rows)} changes in total; {len(rows) - nmiss} were caught by the checks as they stood when the change arrived, "
           f"{nmiss} were missed and led to the strengthening listed below; {ncaught_now} of {len(rows)} are recorded as caught now (meta.json `check_run.caught`). "
           "Per round (changes / missed on arrival / caught now): "
           + "; ".join(f"round {r}: {len(per_round[r])} / {sum(1 for p, k, m in per_round[r] if missed_on_arrival(p, k, m))} / {sum(1 for p, k, m in per_round[r] if caught_now(m))}" for r in ROUNDS)
           + ".\n\n"
           "| seeded change | what it does | caught by (features of the first replay) | check when the change arrived |\n|---|---|---|---|\n")
for p, k, m in rows:
    fr = (m.get('check_run') or {}).get('first_replay') or {}
    missed = 'missed, then strengthened' if missed_on_arrival(p, k, m) else 'caught'
    if not caught_now(m):
        missed = 'MISSED (still; strengthening in progress)'
    out.append(f"| {p} {k} | {(m.get('summary') or '')[:170].replace('|', '/')} | `{json.dumps(fr.get('features'))[:110]}` | {missed} |\n")
out.append("""
Strengthening done because of missed changes. Round 1: C02 (writes of `add_linear_equality_constraint` through views; deferred
`change_vartype` on pending sample sets), C04 (`to_numpy_vectors` under every option combination on all back-ends and
view handles), C09 (one-hot-shaped but unmarked constraints, mark compared per constraint), C11 (integer labels beyond
2^53, type of emitted labels decided in Coq), C12 (huge right-hand sides and bounds), C15 (namesake labels `u*v`,
repeats up to 6 in SPIN terms, float32/int64 child energies), C17 (partial fractional weights with default strength;
seed 0), C18 (degree-preserving interaction switches with explicit zero biases), C20 (copying `fix_variables` with
zero-bias interacting variables; DQM case-range catalogue over variables with different case counts).
Round 2: C01 (boundary integer values 128/32768/2^31 and unsigned/narrow sample dtypes), C02 (`remove_variable` named and
popped through a view; constraints marked discrete under CQM `change_vartype`), C04 (dense matrices with both triangles on
models that already have interactions; every combination of default bounds in `add_linear_from`), C06 (operands re-observed
after raising operators; self-aliased in-place operators), C11 (COO biases with several integer digits), C13 (equality
of two Variables objects is order sensitive), C14 (`append_variables` into narrow sample dtypes), C15 (`make_quadratic`
/ `make_quadratic_cqm` with a supplied model of the same or the other vartype holding couplings), C18 (expression
views differing only in zero-bias variables), C19 (`add_discrete` from comparisons/models with every
`check_overlaps`/`copy` combination).
Round 3 (61 changes, 20 missed on arrival): C01 (CQM expressions evaluated after a remove/fix history under a random
parent variable order; DQM interactions set case pair by case pair in shuffled order; the deprecated `(mapping, labels)`
sample form), C02 (unsigned/bool/float sample storage in `SampleSet.change_vartype`), C03 (range-labelled CQMs on the
copying path; BQMs fixed through the opposite-vartype view), C04 (every iterable-valued argument as list / tuple / set /
dict view / one-shot generator), C07 (non-default `rtol`/`atol` in `ExactCQMSolver`; initial states as dicts in differing
key orders), C08 (wide integer variables with unsigned sample arrays of every width), C09 (NumPy-integer labels compared
type-aware and byte-for-byte; `REAL_INTERACTIONS` models), C11 (sparse non-range and shuffled integer label sets), C13
(pairs of distinct labels with equal hashes: -1/-2, (-1,)/(-2,); slice probes), C14 (values at every integer-width
boundary in `as_samples`), C15 (integer labels mixed with their `str()` forms), C16 (DQM energies recorded before/after
the call and tied to the coefficients in Coq; constraints that leave interacting variables out), C19 (`concatenate` with
column-permuted partners, every input dumped afterwards; neutral-operand arithmetic `0 + a`, `sum([a])`), C20 (see below).
Round 4 (60 changes; all generator blind spots, each closed by widening the input class AND by a model / theorem /
translator for the code path): C02 r4m1 (spin variables that occur only in constraints: CQM objectives over all / some /
none of the variables; the iteration domain of QM / CQM `spin_to_binary` generated by `translators/vartype_loops.py`,
`C02_cqm_spin_to_binary_uses_source_loop`, `C02_cqm_spin_to_binary_over_objective_only_refuted`), C06 r4m3 (a bound of
exactly 0: the `bounds` and `addvar` streams; the existing-label branch of cyqm `add_variable` generated by
`qm_addvar.py`, `C06_gen_addvar_accepts_iff_compatible`), C07 r4m1 (future-backed sample sets under the
`sample_ising` / `sample_qubo` mixins: real pending / done Futures, future-likes, result hooks, stacks three deep;
`sampleset_deferred.py`, `Model/Deferred.v`, `C07_deferred_*`, `C07_mixin_deferred_*`), C08 r4m1 (range labels added
out of order: the sample is handed to Coq as passed, in any column order; `Model/FeasCy.v` over the raw-state model
of `cyexpression._energies`, `C08_cy_*`), C09 r4m1 (the legacy CQM file reader: v1.0-1.3 archives written by hand
and the 14 bundled ones read by a Coq reader; `cqm_legacy_reader.py`, `Model/CqmFile.v`, `legacy_read_archive`;
C10 `legacy_member_prefix_safe`), C11 r4m2 / r4m3 (deferred sample sets in eight construction modes through every
route; `.spin` / `.binary` views through the pure-Python `to_numpy_vectors`), C13 r4m1 / r4m2 (slice probes with
steps of both signs, `C13_slice_*`; relabel keys and targets drawn from the labels currently held, constructors and
what `_relabel` hands to `iter_safe_relabels` generated by `vars_ctor.py`), C14 r4m2 (aliasing through a shared
future: every handle, the future's own result object and every returned object in one history, dumped with their
record-sharing classes; `Model/Alias.v`, `sampleset_hooks.py`, `C14_alias_*`, `C19_sampleset_*`), C15 r4m3
(`BinaryPolynomial` constructors and exporters: `Model/PolyCtor.v`, `poly_ctors.py`, `C15_from_hubo_*`,
`C15_ctor_*`; every pipeline kind also fed through `from_hubo` / `from_hising` / iterables / `copy()`), C16 r4m1
(SPIN equality constraints through views and compiled back-ends; the Python side of the DQM inequality generated by
`dqm_inequality.py`), C17 r4m1 (the draw calls of the random generators translated by `random_draws.py`,
`C17_randint_draws_in_range`; every random case re-examined for 16 further seeds), C20 r4m3 (the native adjacency of
`cyDiscreteQuadraticModel`: `Model/DqmNative.v`, `dqm_native_shapes.py`, stream `py_dqm`, `C20_dqm_*`).
Round 5: see section 10.7.
C02 m1 and C11 m1 no longer applied after the repair commits and were re-applied by hand to the repaired code
(`rebased` in their meta.json). Besides these, every builder planted 3-13 mutants of its own while building
(about 100 in total, all but a few provably equivalent ones caught), and every check was run against the un-repaired
snapshot to confirm that the defects repaired earlier are re-detected.

### 10.5 Trusted base as built

* Coq 8.16.1 kernel and `vm_compute` (used to evaluate the model on cases, for finite truth tables lifted with
  `forallb_forall`, and for `_refuted`/example witnesses); no `native_compute`. `coqchk -o` over all `Props/*.vo`
  (run by hand, 5-9 min; last re-run after the round-6 merges over the 20 property files plus Sound and Comb): "Axioms: <none>", no type-in-type, no unsafe fixpoints, no assumed positivity.
  `Print Assumptions` of every property theorem: "Closed under the global context" (recorded per theorem in
  `evidence/Cxx.json` `coverage.axioms`). The development declares no Axiom/Parameter/Conjecture, has no
  Admitted/admit, uses no Program Fixpoint/Equations, switches off no kernel check; `harness/common.py:audit_sources`
  greps for these on every run and a hit fails the check. A stale `.vo` never counts: the check asks `make` for
  `Props/Cxx.vo` with all its dependencies on every run.
* No extraction is used (no `Extract` directive): the model runs inside Coq.
""")
out.append(translator_list())
out.append("""* The correspondence harness: `check`, `harness/common.py`, `harness/wlib.py`, `harness/gen.py`, the per-property
  workers and configs; the rendering of observations into Coq terms; CPython, NumPy, Cython and the C++ toolchain that
  build the scratch copy; for C20 `cpp/driver.cpp`, clang++ 14 with ASan/UBSan and (thorough tier) valgrind as monitors;
  for C12 the classification of the writer's words into tokens.
* Modelled by hand and tied by correspondence (the translators above pin constants, tables, formulas, dispatch and
  statement shapes, not whole algorithms): the algorithms of the C++ headers and `.pyx` files, `sampleset.py`,
  `constrained.py`, the LP writer, serialisation. Not modelled at all
  (oracles): IEEE-754 rounding (dyadic exactness instead), NumPy internals (`argsort` tie order, `packbits`),
  Python `json`/`pickle`/`zipfile`/`npz` beyond the modelled JSON subset, the section parsers of the C++ LP
  reader in `extern/filereaderlp` (its tokenizer and keyword stage are modelled at character level in `Model/LPLex.v`;
  the section parsers are represented by a verified reference parser that is compared with the C++ result on every
  generated text) and `strtod`'s rounding of numerals that are not doubles, NumPy
  random streams, the stochastic search of RandomSampler/SimulatedAnnealingSampler, the CPython/NumPy heap (C19),
  use-after-free/overflow/allocator behaviour (C20, sanitizer-monitored only).

### 10.6 Running

`./check --setup` (scratch build ~45 s, translators, full Coq build ~4 min on 16 cores). `./check Cxx --tier quick`
takes 10-160 s per property; `--tier thorough` uses 15-40x more cases and, for C10/C20, valgrind (2-25 min each).
`VERIF_SEED` selects the PRNG seed (all 20 checks were run green for seeds 0-3 in the quick tier and seeds 0-1 in the
thorough tier; `vp check` uses seed 1). `./check Cxx --replay evidence/replays/<file>` re-runs one recorded case.
`harness/dbg.py Cxx <case> '<coq expr>'` evaluates model expressions on one case. `harness/seed_eval.py <dir> Cxx`
validates a seeded change and runs the check against it. A run with `VERIF_REPO` pointing at another tree (development
aid for seeded changes) works on its own copy of the Coq development under `/var/tmp/dimod-verif-coq/<hash of the tree
location>` (`harness/common.py:sync_private_coq`, an rsync of `/verif/coq` taken under a lock), so the `Gen/*.v` files its
translators write from that tree never mix with those of a concurrent run; registered checks always use `/verif/coq`.
""")
R5_WHAT = {
    ('C01', 'r5m1'): "index fix-up of `Expression::remove_variable` reached through an expression view",
    ('C04', 'r5m1'): "lower bound of a SPIN BQM in the pure-Python path of `QuadraticModel.update`",
    ('C04', 'r5m3'): "REAL bounds forwarded by `add_variables_from_model`",
    ('C08', 'r5m1'): "`as_samples` on lists of dicts with differing key orders behind `from_samples_cqm`",
    ('C09', 'r5m3'): "index dtype of `to_numpy_vectors` for DQMs with 65536 or more cases",
    ('C11', 'r5m1'): "`deepcopy` of a BQM sharing its label table with the original",
    ('C11', 'r5m2'): "NumPy numbers inside (nested) tuple labels in `serialize_variable`",
    ('C11', 'r5m3'): "`data_vectors` on a record whose first field is not `sample`",
    ('C12', 'r5m1'): "fractional bounds of INTEGER variables truncated by the LP reader glue",
    ('C12', 'r5m2'): "a further section-keyword spelling in `reader.cpp` that is also an accepted label",
    ('C14', 'r5m1'): "intermediate labels of `resolve_label_conflict` colliding with relabel targets",
    ('C14', 'r5m2'): "a `Variables` object kept (shared) by `SampleSet.__init__`",
    ('C18', 'r5m1'): "`is_equal` against NumPy scalars and Fractions",
    ('C19', 'r5m3'): "`__getstate__` editing the live `__dict__` (pickle / deepcopy change the original)",
    ('C20', 'r5m2'): "a rejected `add_quadratic(z, z, b)` with an unknown label leaving the variable behind",
    ('C20', 'r5m3'): "`reduce_neighborhood` guarded by the model-level `is_linear()`",
}
r4 = per_round.get(4, [])
r5 = per_round.get(5, [])
r5_missed = [(p, k, m) for p, k, m in r5 if missed_on_arrival(p, k, m)]
r5_open = [(p, k) for p, k, m in r5 if not caught_now(m)]


def r5_item(p, k):
    w = R5_WHAT.get((p, k))
    return f"{p} {k}" + (f" ({w})" if w else "")


out.append(f"""
### 10.7 Rounds 4 and 5

Round 4: {len(r4)} further seeded changes by fresh sub-agents (`seeded/<P>/r4m<k>`).
{sum(1 for p, k, m in r4 if missed_on_arrival(p, k, m))} were missed by the checks as they stood
({', '.join(p + ' ' + k for p, k, m in r4 if missed_on_arrival(p, k, m))}; for three of them - C11, C13 (load), C17 - a catch had
been recorded at first that turned out to be an artefact of the infrastructure, not of the change). All were blind
spots of the GENERATORS, not of the models: variables that occur only in constraints, a bound of exactly 0,
future-backed sample sets, range labels added out of order, the legacy file reader, aliasing through a shared future,
polynomial constructors, the DQM's native adjacency. Each was closed twice: by widening the input class so that a
failing input exists and is replayable, and by a model, theorems and usually a translator for the code path that had not
been modelled (list per property in section 10.4, 'Round 4'). {sum(1 for p, k, m in r4 if caught_now(m))} of {len(r4)} are recorded as caught now.

Round 5: {len(r5)} further changes (`seeded/<P>/r5m<k>`), {len(r5_missed)} missed on arrival:
{'; '.join(r5_item(p, k) for p, k, m in r5_missed) or '-'}.
They are being closed the same way; {len(r5) - len(r5_open)} of {len(r5)} are recorded as caught now"""
           + (f", still open when this section was generated: {', '.join(p + ' ' + k for p, k in r5_open)}" if r5_open else "") + """.

Lessons kept in the machinery. (1) Every worker docstring carries a clause-by-clause coverage table (clause of the
property text / entry point / option -> generator stream -> Coq case that decides it, and a 'not reached' list), so a
blind spot is visible before a seeded change finds it; the rounds 4 and 5 misses were all in rows that were absent
from, or listed as not reached in, those tables. (2) A catch that rests only on a broken pin (a translator or shape
lock reporting `no-failing-input-found`) is followed up with an input stream that reaches the changed code, so that a
replayable failing case exists. (3) A run against a seeded worktree uses a private copy of the Coq tree
(section 10.6), so that the generated files of concurrent runs never mix. Two further /repo repairs came out of these
rounds: `0dfb0ff` (`SimulatedAnnealingSampler(num_sweeps=1)` divided by zero when building the beta schedule) and `0fea62d`
(a deferred `SampleSet.relabel_variables` captured the caller's mapping by reference instead of its value at call time).
""")
R6_WHAT = {
    ('C01', 'r6m1'): "a positional fast path of `cyQMBase._energies` for range-labelled SAMPLES that ignores the order of the MODEL's integer labels (first caught by a source pin only; now also by unlabelled samples on models labelled 2, 0, 1)",
    ('C01', 'r6m2'): "the DQM's variable-level adjacency merged wrongly by `add_linear_equality_constraint` (a neighbour entered twice, `energies` counts the pair twice)",
    ('C03', 'r6m2'): "`Expression::remove_variable` re-indexing by label, reached by `fix_variable` on the view of ONE expression whose variable order differs from the model's",
    ('C04', 'r6m1'): "the SPIN branch for a label repeated in `terms` of the pure-Python `add_linear_equality_constraint` (object storage, `.spin` handle)",
    ('C04', 'r6m2'): "`qm -= qm`: `__isub__` no longer copying an aliased operand",
    ('C07', 'r6m3'): "`_random_generator` filling an array of the GIVEN states' dtype: unsigned all-ones states of a SPIN problem get 255 for -1",
    ('C08', 'r6m3'): "`np.isin` over constraint labels coercing 1 and '1' to one string (hard constraint taken for a soft one)",
    ('C11', 'r6m1'): "`VartypeView.__deepcopy__` converting the shared copy in place when a model and its view are deep-copied in ONE call",
    ('C12', 'r6m2'): "a 255-BYTE cap in the LP reader's name copy against labels of up to 255 CHARACTERS (3-byte quotes)",
    ('C14', 'r6m1'): "a 'record already sorted' shortcut in `slice` using `np.diff` on unsigned / boolean fields",
    ('C14', 'r6m2'): "`drop_variables` testing membership in the caller's argument: a `str` of one-character labels also drops the label `'xy'`",
    ('C08', 'r6m2'): "`rtol` / `atol` tolerances slipped into `iter_violations(skip_satisfied=True)` (first caught by a source pin only; now by hard linear constraints violated by 2**-30 and a definition check of `skip_satisfied`)",
    ('C05', 'r6m2'): "`fix_variable` clearing the discrete mark of every marked constraint that is momentarily not one-hot (caught by a source pin only)",
    ('C09', 'r6m3'): "the `discrete` member of a CQM file read only for constraints without a stored weight (a constraint that is marked discrete AND soft)",
    ('C10', 'r6m2'): "`np.fromfile` used for real on-disk files: a truncated file opened with `open(path, 'rb')` loads with records missing, while BytesIO input still raises",
    ('C14', 'r6m3'): "`concatenate` permuting the sample columns of a later caller-owned INPUT in place (an `owned` flag never reset)",
    ('C19', 'r6m1'): "`concatenate` dropping empty inputs before `stack_arrays`, which then returns the one remaining input's own record",
    ('C19', 'r6m2'): "`cyVariables.copy()` sharing the index-to-label table of a range-labelled object (visible only after both sides acquire non-index labels)",
    ('C19', 'r6m3'): "`VartypeView.__deepcopy__` under one shared memo (a model and its view deep-copied together)",
    ('C15', 'r6m1'): "`if not qm` instead of `if qm is None`: a supplied variable-free model with an offset is discarded by `make_quadratic`",
    ('C17', 'r6m1'): "`combinations(range(3, 7), k)` treated like the integer case",
}
r6 = per_round.get(6, [])
r6_missed = [(p, k, m) for p, k, m in r6 if missed_on_arrival(p, k, m)]
r6_open = [(p, k) for p, k, m in r6 if not caught_now(m)]
out.append(f"""
### 10.8 Round 6

Round 6: {len(r6)} further changes (`seeded/<P>/r6m<k>`), {len(r6_missed)} missed on arrival:
{'; '.join(f"{p} {k}" + (f" ({R6_WHAT[(p, k)]})" if (p, k) in R6_WHAT else "") for p, k, m in r6_missed) or '-'}.
Again every miss was a blind spot of a GENERATOR (an argument form, a dtype, a label shape, an aliased operand, a call made
through a view of one expression), and each was closed by a stream that reaches the changed code, so that the catch is a
replayable input and not a broken pin; {len(r6) - len(r6_open)} of {len(r6)} are recorded as caught now"""
           + (f", still open when this section was generated: {', '.join(p + ' ' + k for p, k in r6_open)}" if r6_open else "") + """.
False alarms met and corrected in the machinery while doing so (never listed as findings): C14 - `concatenate(defaults=...)`
casts a fill value to the dtype of the field it fills (the new bool / unsigned data vectors are kept out of that op; a first
're-evaluation' of C14 r6m3 had counted this alarm as a catch and was redone); C08 - an offset of 2**-30 under a QUADRATIC soft
penalty is squared and no longer exact in binary64 (the tiny violations are now confined to hard linear constraints), and - under seed 1 only - an iterator of `(row, labels)`
samples WITHOUT columns (an empty 1-d row cannot say whether it is one sample or none; that form now needs a column); C19 - the
dict back-end moves a relabelled variable to the end of its order (labels compared as sets) and `copy.copy` of a class without
`__copy__` is Python's shallow copy (used only where `__copy__` exists). `harness/seed_eval.py`
now removes only the replay files of its own run, so evaluations can run next to registered checks.

Round 6 also extended the models and proofs (builder sub-agents in private copies, merged and re-run here):
* C04 - `Proofs/HistCoeffEq.v`: coefficient equivalence `ceq` of two BQM states (variable and term order free) is preserved with
  equal outcomes by every modelled call on any handle except the positional ones (pop, resize, relabel_variables_as_integers:
  refuted by witnesses), lifted to histories (`C04_backends_equivalent_histories`, `_dict_order`) and characterised by energies
  (`C04_coefficient_equivalence_iff_energy`); this replaces the per-history-only tie of the three back-ends for contract / flip /
  fix / update / change_vartype / writes through translating views.
* C06 - the remaining translated dispatch paths are proved equal to the specification (`**` of a BQM, BQM x QM, QM x BQM, BQM x BQM of
  two vartypes through `from_bqm` / `__rmul__`; `from_cybqm` translated line by line), plus operand-frame theorems for the
  translated methods; `*`, `*=`, `**` now hold for every operand kind (`C06_gen_mul_correct`, `_imul_correct`, `_pow_correct`).
* C17 - three new construction translators (`qap_construction.py`, `magic_construction.py`, `mult_wiring.py`) with `*_is_source` tie
  theorems for all n (m); 25 structure theorems for the random generators with the PRNG's draws as parameters
  (`Model/RandStruct.v`); a per-case Coq tie for chimera_anticluster.
* C20 - the DQM `to_numpy_vectors` / `from_numpy_vectors` rebuild is the identity on invariant states (nothing lost, biases kept,
  energies kept), energies = case-level polynomial at the one-hot encoding; 'fixing = evaluating at the assignment' for
  `Expression::fix_variable` and the copying `fix_variables` path at index level.
Two further /repo repairs came out of the round: `49abc6b` (`Initialized.parse_initial_states` raised on boolean SPIN initial
states for a BINARY problem; found by the new all-ones unsigned / boolean initial-state stream of C07) and `f2b686a`
(`BinaryQuadraticModel(dtype=object).add_linear(<fresh label>, <bias that cannot be added>)` raised but left the variable behind
without a linear entry, after which the model could not be read; found by the C20 Python-boundary catalogue when all 20 checks
were re-run under `VERIF_SEED=1` at the end of the round - the seed `vp check` uses).
""")
t = open(os.path.join(ROOT, 'DESIGN.md')).read()
i = t.find("\n### 10.2 ")
if i > 0:
    t = t[:i]
t = t.rstrip() + "\n" + "".join(out)
open(os.path.join(ROOT, 'DESIGN.md'), 'w').write(t)
print("DESIGN.md regenerated:", len(t), "bytes;", total, "property theorems;", len(rows), "seeded changes,", nmiss, "initially missed")
