"""C20, C++ half, Expression / Constraint / ConstrainedQuadraticModel ops: generation and the
precondition filter against the state the driver printed.  No Coq model: the verdict is the
driver's own invariant check after every op + sanitizers + live assertions."""
from fractions import Fraction

from c20_cpp import small, rand_bounds, MULTS, SHIFTS, bounds_ok, fhex, VT_MIN, VT_MAX


def empty_cqms():
    def e():
        return {"nv": 0, "vt": [], "lb": [], "ub": [], "obj": {"n": 0, "vars": [], "adj": []}, "cons": []}
    return [e(), e()]


def gen_poly(rng, labels, vts, nl=None, nq=None):
    """nl (v b)* nq (u v b)* off over the given labels; self-loops only on non binary/spin labels"""
    out = []
    nl = rng.randint(0, min(4, len(labels))) if nl is None else nl
    ls = [rng.choice(labels) for _ in range(nl)] if labels else []
    out.append(len(ls))
    for v in ls:
        out += [v, str(small(rng))]
    qs = []
    if labels:
        for _ in range(rng.randint(0, 4) if nq is None else nq):
            u, v = rng.choice(labels), rng.choice(labels)
            if u == v and vts(u) < 2 and rng.random() < 0.7:
                continue
            qs.append((u, v))
    out.append(len(qs))
    for u, v in qs:
        out += [u, v, str(small(rng))]
    out.append(str(small(rng)) if rng.random() < 0.6 else "0")
    return out


def gen_cqm_ops(rng, nops):
    nv = [0, 0]
    vt = [[], []]
    nc = [0, 0]
    ops = []
    focus = rng.choice([0, 0, 1])

    def grow(s):
        t = rng.choice([0, 0, 1, 2, 2, 3])
        r = rng.random()
        if r < 0.5:
            ops.append(["cq.addvar", s, t])
            vt[s].append(t)
        elif r < 0.8:
            lb, ub = rand_bounds(rng, t)
            ops.append(["cq.addvarb", s, t, str(lb), str(ub)])
            vt[s].append(t)
        else:
            k = rng.randint(0, 3)
            if rng.random() < 0.5:
                ops.append(["cq.addvars", s, t, k])
            else:
                lb, ub = rand_bounds(rng, t)
                ops.append(["cq.addvarsb", s, t, k, str(lb), str(ub)])
            vt[s] += [t] * k
        nv[s] = len(vt[s])

    while len(ops) < nops:
        s = focus if rng.random() < 0.75 else rng.randrange(2)
        o = 1 - s
        n = nv[s]
        r = rng.random()
        if n == 0 or (n < 4 and r < 0.3) or (n < 8 and r < 0.05):
            grow(s)
            continue
        labels = list(range(n))
        k = rng.choice(["e.addlin", "e.addlin", "e.setlin", "e.addq", "e.addq", "e.addq", "e.addq", "e.setq", "e.off",
                        "e.remint", "e.remvar", "e.remvars", "e.fix", "e.subst", "e.scale", "e.clear", "e.attr", "e.addqb", "e.addqb",
                        "e.energy", "e.disjoint", "addcon", "newcon", "newcon", "addcon_qm", "addcon_qm", "setobj",
                        "addlincon", "remcon", "remcons_if", "remvar", "remvar", "fix", "fix", "fixvars", "fixvars", "fixvars_rich",
                        "fixvars_rich", "block", "subst",
                        "chvt", "bounds", "clear", "copy", "move", "swap", "weak"])
        ke = rng.randint(-1, nc[s] - 1)

        def vtf(v):
            return vt[s][v]
        if k == "e.addlin":
            ops.append(["cq.e.addlin", s, ke, rng.choice(labels), str(small(rng))])
        elif k == "e.setlin":
            ops.append(["cq.e.setlin", s, ke, rng.choice(labels), str(small(rng))])
        elif k in ("e.addq", "e.setq"):
            u, v = rng.choice(labels), rng.choice(labels)
            if u == v and n > 1 and rng.random() < 0.7:
                v = rng.choice([x for x in labels if x != u])
            ops.append(["cq.e.addq" if k == "e.addq" else "cq.e.setq", s, ke, u, v, str(small(rng))])
        elif k == "e.addqb":
            # Expression::add_quadratic_back: labels taken in random (not parent) order so that the internal
            # order differs from the parent's; a label new to the expression gets the largest internal index,
            # so (x, earlier ones in internal order) and then (x, x) keep the append-at-the-back promise; the
            # exact promise is re-checked against the dumped state by the filter
            if rng.random() < 0.6:
                ops.append(["cq.addcon", s])
                ke2 = nc[s]
                nc[s] += 1
            else:
                ke2 = ke
            blk = rng.sample(labels, rng.randint(1, min(5, n)))
            for i, x in enumerate(blk):
                for y in blk[:i]:
                    if rng.random() < 0.6:
                        ops.append(["cq.e.addqb", s, ke2, x, y, str(small(rng))])
                if rng.random() < 0.7:
                    ops.append(["cq.e.addqb", s, ke2, x, x, str(small(rng))])
                if rng.random() < 0.3:
                    ops.append(["cq.e.addlin", s, ke2, x, str(small(rng))])
        elif k == "e.off":
            ops.append([rng.choice(["cq.e.addoff", "cq.e.setoff"]), s, ke, str(small(rng))])
        elif k == "e.remint":
            ops.append(["cq.e.remint", s, ke, rng.choice(labels), rng.choice(labels)])
        elif k == "e.remvar":
            ops.append(["cq.e.remvar", s, ke, rng.choice(labels)])
        elif k == "e.remvars":
            m = rng.randint(0, min(n, 4))
            vs = rng.sample(labels, m)     # distinct: utils::remove_by_index requires unique indices
            ops.append(["cq.e.remvars", s, ke, m] + vs)
        elif k == "e.fix":
            ops.append(["cq.e.fix", s, ke, rng.choice(labels), str(rng.choice(SHIFTS))])
        elif k == "e.subst":
            ops.append(["cq.e.subst", s, ke, rng.choice(labels), str(rng.choice(MULTS)), str(rng.choice(SHIFTS))])
        elif k == "e.scale":
            ops.append(["cq.e.scale", s, ke, str(rng.choice(MULTS))])
        elif k == "e.clear" and rng.random() < 0.5:
            ops.append(["cq.e.clear", s, ke])
        elif k == "e.attr":
            r2 = rng.random()
            if r2 < 0.3:
                ops.append(["cq.e.sense", s, ke, rng.choice([0, 1, 2])])
            elif r2 < 0.6:
                ops.append(["cq.e.rhs", s, ke, str(small(rng))])
            elif r2 < 0.8:
                ops.append(["cq.e.weight", s, ke, rng.choice(["inf", "2", "0.5"]), rng.choice([0, 1, 2])])
            else:
                ops.append(["cq.e.disc", s, ke, rng.choice([0, 1])])
        elif k == "e.energy":
            ops.append(["cq.e.energy", s, ke] + [str(rng.choice([0, 1, -1, 2])) for _ in range(n)])
        elif k == "e.disjoint":
            ops.append(["cq.e.disjoint", s, ke, rng.randint(-1, nc[s] - 1)])
        elif k == "addcon":
            if rng.random() < 0.6:
                ops.append(["cq.addcon", s])
                nc[s] += 1
            else:
                m = rng.randint(0, 3)
                ops.append(["cq.addcons", s, m])
                nc[s] += m
        elif k == "newcon":
            ops.append(["cq.newcon", s, rng.choice([0, 1]), rng.choice([0, 1, 2]), str(small(rng))] +
                       gen_poly(rng, labels, vtf))
            nc[s] += 1
        elif k in ("addcon_qm", "setobj_map"):
            m = rng.randint(0, min(n, 4))
            mode = rng.choice([0, 1])
            mp = rng.sample(labels, m) if (mode == 1 or rng.random() < 0.7) else [rng.choice(labels) for _ in range(m)]
            if len(set(mp)) != len(mp) and any(vtf(v) < 2 for v in mp):
                mp = rng.sample(labels, m)
            loc = list(range(m))
            poly = gen_poly(rng, loc, lambda i: vtf(mp[i]))
            name = "cq.addcon_qm" if rng.random() < 0.8 else "cq.setobj_map"
            ops.append([name, s, mode, rng.choice([0, 1, 2]), str(small(rng)), m] + mp + poly)
            if name == "cq.addcon_qm":
                nc[s] += 1
        elif k == "setobj":
            m = rng.randint(0, n + 2)
            vts = [vt[s][i] if i < n else rng.choice([0, 1, 2, 3]) for i in range(m)]
            poly = gen_poly(rng, list(range(m)), lambda i: vts[i])
            ops.append(["cq.setobj", s, m] + vts + poly)
            if m > n:
                vt[s] += vts[n:]
                nv[s] = m
        elif k == "addlincon":
            m = rng.randint(0, min(3, n))
            vs = [rng.choice(labels) for _ in range(m)]
            ops.append(["cq.addlincon", s, m] + vs + [str(small(rng)) for _ in range(m)] +
                       [rng.choice([0, 1, 2]), str(small(rng))])
            nc[s] += 1
        elif k == "remcon" and nc[s] > 0:
            ops.append(["cq.remcon", s, rng.randrange(nc[s])])
            nc[s] -= 1
        elif k == "remcons_if" and rng.random() < 0.4:
            ops.append(["cq.remcons_if", s, rng.choice([0, 1])])
            nc[s] = max(0, nc[s] - 1)      # unknown; the filter works on the observed state anyway
        elif k == "remvar":
            v = rng.choice(labels)
            ops.append(["cq.remvar", s, v])
            del vt[s][v]
            nv[s] -= 1
        elif k == "fix":
            v = rng.choice(labels)
            ops.append(["cq.fix", s, v, str(rng.choice(SHIFTS))])
            del vt[s][v]
            nv[s] -= 1
        elif k in ("block", "fixvars_rich"):
            # a densely interacting block over a few labels taken in random (not label) order, where only
            # some of the variables get a linear bias: the expression's internal order differs from the
            # label order and variables with a ZERO linear bias have several mutually interacting neighbours
            m = rng.randint(3, min(5, n)) if n >= 3 else n
            blk = rng.sample(labels, m)
            for u in blk:
                r2 = rng.random()
                if r2 < 0.35:
                    ops.append(["cq.e.addlin", s, ke, u, str(small(rng))])
                elif r2 < 0.45:
                    ops.append(["cq.e.setlin", s, ke, u, "0"])
            pairs = [(u, v) for i, u in enumerate(blk) for v in blk[i + 1:]]
            rng.shuffle(pairs)
            for u, v in pairs:
                if rng.random() < 0.75:
                    ops.append(["cq.e.addq", s, ke] + ([u, v] if rng.random() < 0.5 else [v, u]) + [str(small(rng))])
            for u in blk:
                if vtf(u) >= 2 and rng.random() < 0.3:
                    ops.append(["cq.e.addq", s, ke, u, u, str(small(rng))])
            for u in blk:
                if rng.random() < 0.3:
                    ops.append(["cq.e.addlin", s, ke, u, str(small(rng))])
            if k == "fixvars_rich":
                # the copying bulk fix: a NEW model, checked and then edited further
                m2 = rng.randint(0, min(n - 1, 2))
                vs = rng.sample(labels, m2)
                dst = rng.choice([s, o, o])
                ops.append(["cq.fixvars", s, dst, m2] + vs + [str(rng.choice(SHIFTS)) for _ in range(m2)])
                nvt = [t for i, t in enumerate(vt[s]) if i not in vs]
                vt[dst] = nvt
                nv[dst] = len(nvt)
                nc[dst] = nc[s]
                focus = dst if rng.random() < 0.5 else focus
        elif k == "fixvars":
            m = rng.randint(0, min(n, 3))
            vs = rng.sample(labels, m)
            dst = rng.choice([s, o])
            ops.append(["cq.fixvars", s, dst, m] + vs + [str(rng.choice(SHIFTS)) for _ in range(m)])
            nvt = [t for i, t in enumerate(vt[s]) if i not in vs]
            vt[dst] = nvt
            nv[dst] = len(nvt)
            nc[dst] = nc[s]
        elif k == "subst":
            ops.append(["cq.subst", s, rng.choice(labels), str(rng.choice(MULTS)), str(rng.choice(SHIFTS))])
        elif k == "chvt":
            v = rng.choice(labels)
            t = rng.choice([0, 1, 2, 2, 3])
            ops.append(["cq.chvt", s, t, v])
            if (vt[s][v], t) in ((1, 0), (0, 1), (1, 2), (0, 2)):
                vt[s][v] = t
        elif k == "bounds":
            v = rng.choice(labels)
            if vt[s][v] >= 2:
                lb, ub = rand_bounds(rng, vt[s][v])
                ops.append(["cq.setlb", s, v, str(lb)])
                ops.append(["cq.setub", s, v, str(ub)])
        elif k == "clear" and rng.random() < 0.3:
            ops.append(["cq.clear", s])
            vt[s], nv[s], nc[s] = [], 0, 0
        elif k == "copy":
            a, b = rng.choice([(s, o), (o, s), (s, s)])
            ops.append([rng.choice(["cq.copyctor", "cq.copyassign"]) if a != b else "cq.copyassign", a, b])
            vt[a], nv[a], nc[a] = list(vt[b]), nv[b], nc[b]
        elif k == "move":
            a, b = rng.choice([(s, o), (o, s)])
            ops.append([rng.choice(["cq.movector", "cq.moveassign"]), a, b])
            vt[a], nv[a], nc[a] = vt[b], nv[b], nc[b]
            vt[b], nv[b], nc[b] = [], 0, 0
        elif k == "swap":
            ops.append(["cq.swap", s, o])
            vt[s], vt[o] = vt[o], vt[s]
            nv[s], nv[o] = nv[o], nv[s]
            nc[s], nc[o] = nc[o], nc[s]
        elif k == "weak":
            if nc[s] > 0 and rng.random() < 0.5:
                ops.append(["cq.weak", s, rng.randrange(nc[s])])
            else:
                ops.append(["cq.weakchk"])
    return ops[:nops + 4]


def read_poly(a, i):
    """parse nl (v b)* nq (u v b)* off starting at a[i]; returns (lin labels, quad pairs, next index)"""
    nl = a[i]
    if not isinstance(nl, int) or nl < 0:
        raise ValueError
    i += 1
    lin = []
    for _ in range(nl):
        lin.append(a[i])
        Fraction(a[i + 1])
        i += 2
    nq = a[i]
    if not isinstance(nq, int) or nq < 0:
        raise ValueError
    i += 1
    quad = []
    for _ in range(nq):
        quad.append((a[i], a[i + 1]))
        Fraction(a[i + 2])
        i += 3
    Fraction(a[i])
    return lin, quad, i + 1


def cqm_op_valid(op, cqms):
    try:
        return _cqm_op_valid(op, cqms)
    except (IndexError, ValueError, TypeError, KeyError, ZeroDivisionError):
        return False


def _cqm_op_valid(op, cqms):
    k, a = op[0], op[1:]

    def inr(x, n):
        return isinstance(x, int) and not isinstance(x, bool) and 0 <= x < n

    def cq_(s):
        if not inr(s, 2):
            raise ValueError
        return cqms[s]

    if k == "cq.weakchk":
        return len(a) == 0
    c = cq_(a[0])
    nv, nc = c["nv"], len(c["cons"])
    if k == "cq.addvar":
        return a[1] in (0, 1, 2, 3) and len(a) == 2
    if k == "cq.addvarb":
        return a[1] in (0, 1, 2, 3) and bounds_ok(a[1], a[2], a[3]) and len(a) == 4
    if k == "cq.addvars":
        return a[1] in (0, 1, 2, 3) and inr(a[2], 6) and len(a) == 3
    if k == "cq.addvarsb":
        return a[1] in (0, 1, 2, 3) and inr(a[2], 6) and bounds_ok(a[1], a[3], a[4]) and len(a) == 5
    if k == "cq.addcon":
        return len(a) == 1
    if k == "cq.addcons":
        return inr(a[1], 5) and len(a) == 2
    if k == "cq.newcon":
        lin, quad, j = read_poly(a, 4)
        return (a[1] in (0, 1) and a[2] in (0, 1, 2) and j == len(a) and all(inr(v, nv) for v in lin)
                and all(inr(u, nv) and inr(v, nv) for u, v in quad))
    if k in ("cq.addcon_qm", "cq.setobj_map"):
        m = a[4]
        if not (a[1] in (0, 1) and a[2] in (0, 1, 2) and inr(m, 8)):
            return False
        mp = a[5:5 + m]
        if not all(inr(v, nv) for v in mp):
            return False
        if k == "cq.addcon_qm" and a[1] == 1 and len(set(mp)) != len(mp):
            return False          # the moving overload relabels: labels must be distinct
        lin, quad, j = read_poly(a, 5 + m)
        return j == len(a) and all(inr(v, m) for v in lin) and all(inr(u, m) and inr(v, m) for u, v in quad)
    if k == "cq.setobj":
        m = a[1]
        if not inr(m, nv + 4):
            return False
        vts = a[2:2 + m]
        if not all(t in (0, 1, 2, 3) for t in vts):
            return False
        lin, quad, j = read_poly(a, 2 + m)
        return j == len(a) and all(inr(v, m) for v in lin) and all(inr(u, m) and inr(v, m) for u, v in quad)
    if k == "cq.addlincon":
        m = a[1]
        return inr(m, 4) and all(inr(v, nv) for v in a[2:2 + m]) and len(a) == 2 + 2 * m + 2 and a[2 + 2 * m] in (0, 1, 2)
    if k == "cq.remcon":
        return inr(a[1], nc) and len(a) == 2
    if k == "cq.remcons_if":
        return a[1] in (0, 1) and len(a) == 2
    if k == "cq.remvar":
        return inr(a[1], nv) and len(a) == 2
    if k == "cq.fix":
        return inr(a[1], nv) and len(a) == 3
    if k == "cq.fixvars":
        m = a[2]
        vs = a[3:3 + m]
        return (inr(a[1], 2) and inr(m, 6) and all(inr(v, nv) for v in vs) and len(set(vs)) == len(vs)
                and len(a) == 3 + 2 * m)
    if k == "cq.subst":
        return inr(a[1], nv) and len(a) == 4
    if k == "cq.chvt":
        return a[1] in (0, 1, 2, 3) and inr(a[2], nv) and len(a) == 3
    if k in ("cq.setlb", "cq.setub"):
        if not (inr(a[1], nv) and len(a) == 3):
            return False
        t = c["vt"][a[1]]
        return t >= 2 and VT_MIN[t] <= Fraction(a[2]) <= VT_MAX[t]
    if k == "cq.clear":
        return len(a) == 1
    if k in ("cq.copyctor", "cq.copyassign"):
        cq_(a[1])
        return len(a) == 2 and (k == "cq.copyassign" or a[0] != a[1])
    if k in ("cq.movector", "cq.moveassign", "cq.swap"):
        cq_(a[1])
        return len(a) == 2 and a[0] != a[1]
    if k == "cq.weak":
        return inr(a[1], nc) and len(a) == 2
    if k.startswith("cq.e."):
        sub = k[5:]
        ke = a[1]
        if not (isinstance(ke, int) and -1 <= ke < nc):
            return False
        b = a[2:]
        if sub in ("addlin", "setlin"):
            return inr(b[0], nv) and len(b) == 2
        if sub in ("addq", "setq"):
            return inr(b[0], nv) and inr(b[1], nv) and len(b) == 3
        if sub == "addqb":
            if not (inr(b[0], nv) and inr(b[1], nv) and len(b) == 3):
                return False
            e = c["obj"] if ke < 0 else c["cons"][ke]
            vars_, adj = list(e["vars"]), [list(x) for x in e["adj"]]
            # enforce_variable(v) runs before enforce_variable(u) in the GCC build used for these cases
            for x in (b[1], b[0]):
                if x not in vars_:
                    vars_.append(x)
                    adj.append([])
            iu, iv = vars_.index(b[0]), vars_.index(b[1])
            lu = adj[iu][-1][0] if adj[iu] else -1
            lv = adj[iv][-1][0] if adj[iv] else -1
            return lu < iv and lv < iu
        if sub in ("addoff", "setoff", "scale", "rhs"):
            return len(b) == 1
        if sub == "remint":
            return inr(b[0], nv) and inr(b[1], nv) and len(b) == 2
        if sub == "remvar":
            return inr(b[0], nv) and len(b) == 1
        if sub == "remvars":
            return inr(b[0], 8) and len(b) == 1 + b[0] and all(inr(v, nv) for v in b[1:]) and len(set(b[1:])) == len(b[1:])
        if sub == "fix":
            return inr(b[0], nv) and len(b) == 2
        if sub == "subst":
            return inr(b[0], nv) and len(b) == 3
        if sub == "clear":
            return len(b) == 0
        if sub == "sense":
            return b[0] in (0, 1, 2) and len(b) == 1
        if sub == "weight":
            return b[1] in (0, 1, 2) and len(b) == 2
        if sub == "disc":
            return b[0] in (0, 1) and len(b) == 1
        if sub == "energy":
            return len(b) == nv
        if sub == "disjoint":
            return isinstance(b[0], int) and -1 <= b[0] < nc and len(b) == 1
    return False


def cqm_op_text(op):
    from c20_cpp import fnum
    out = [op[0]]
    for t in op[1:]:
        if isinstance(t, int):
            out.append(str(t))
        elif t == "inf":
            out.append("inf")
        else:
            out.append(fnum(Fraction(t)))
    return " ".join(out)


# ----------------------------------------------------------------------------
# Coq side (Model/ChkC20Cqm.v): cq.* ops as ExprOps.mop lists, dumps as qobs
# ----------------------------------------------------------------------------
from wlib import cq as _cq, clist as _clist, cnat as _cnat   # noqa: E402
from c20_cpp import VT as _VT, DEFAULT_BOUNDS as _DB          # noqa: E402


def _q(x):
    return _cq(Fraction(x))


def _info(vt, lb, ub):
    return f"(mkI {_VT[vt]} {_q(lb)} {_q(ub)})"


def _dinfo(vt):
    return _info(vt, *_DB[vt])


def _lq(terms):
    return _clist([f"({_cnat(u)}, {_cnat(v)}, {_q(b)})" for u, v, b in terms])


def _target(ke):
    return "EObj" if ke < 0 else f"(ECon {_cnat(ke)})"


def local_qm(vts, lin_terms, quad_terms, off):
    """what the driver's local QuadraticModel holds: linear per local variable, lower-triangle
    interactions in cbegin_quadratic order (u ascending, v <= u ascending), offset"""
    n = len(vts)
    lin = [Fraction(0)] * n
    off = Fraction(off)
    quad = {}
    for v, b in lin_terms:
        lin[v] += Fraction(b)
    for u, v, b in quad_terms:
        b = Fraction(b)
        if u == v and vts[u] == 0:
            lin[u] += b
        elif u == v and vts[u] == 1:
            off += b
        else:
            k = (max(u, v), min(u, v))
            quad[k] = quad.get(k, Fraction(0)) + b
    return lin, [(u, v, quad[(u, v)]) for (u, v) in sorted(quad)], off


def parse_poly(a, i):
    nl = a[i]
    i += 1
    lin = []
    for _ in range(nl):
        lin.append((a[i], a[i + 1]))
        i += 2
    nq = a[i]
    i += 1
    quad = []
    for _ in range(nq):
        quad.append((a[i], a[i + 1], a[i + 2]))
        i += 3
    return lin, quad, a[i], i + 1


def coq_qop(op, prev):
    """Coq `qop` term for a driver op given the observed state BEFORE it; None = no model counterpart
    (the check reloads the model from the dump after the op)"""
    k, a = op[0], op[1:]
    if k in ("cq.weakchk", "cq.weak"):
        return "QNop"
    s = a[0]
    c = prev[s]
    S = _cnat(s)

    def M(ops):
        return f"(QM {S} {_clist(ops)})"
    empty_con = lambda sense, rhs: f"(MAddConstraintMove [] [] 0 [] {_cnat(sense)} {_q(rhs)})"   # noqa: E731
    if k == "cq.addvar":
        return M([f"(MAddVariable {_dinfo(a[1])})"])
    if k == "cq.addvarb":
        return M([f"(MAddVariable {_info(a[1], a[2], a[3])})"])
    if k == "cq.addvars":
        return M([f"(MAddVariable {_dinfo(a[1])})"] * a[2])
    if k == "cq.addvarsb":
        return M([f"(MAddVariable {_info(a[1], a[3], a[4])})"] * a[2])
    if k == "cq.addcon":
        return M([empty_con(2, 0)])
    if k == "cq.addcons":
        return M([empty_con(2, 0)] * a[1])
    if k == "cq.newcon":
        lin, quad, off, _ = parse_poly(a, 4)
        t = _target(len(c["cons"]))
        return M([empty_con(a[2], a[3])] + [f"(MEdit {t} (EAddLinear {_cnat(v)} {_q(b)}))" for v, b in lin]
                 + [f"(MEdit {t} (EAddQuadratic {_cnat(u)} {_cnat(v)} {_q(b)}))" for u, v, b in quad]
                 + [f"(MEdit {t} (EAddOffset {_q(off)}))"])
    if k in ("cq.addcon_qm", "cq.setobj_map"):
        m = a[4]
        mp = a[5:5 + m]
        lin, quad, off, _ = parse_poly(a, 5 + m)
        L, Qd, O = local_qm([c["vt"][v] for v in mp], lin, quad, off)
        if k == "cq.setobj_map":
            return M(["(MEdit EObj EClear)"] + [f"(MEdit EObj (EAddLinear {_cnat(mp[i])} {_q(L[i])}))" for i in range(m)]
                     + [f"(MEdit EObj (EAddQuadratic {_cnat(mp[u])} {_cnat(mp[v])} {_q(b)}))" for u, v, b in Qd]
                     + [f"(MEdit EObj (EAddOffset {_q(O)}))"])
        if len(set(mp)) != len(mp):
            # ExprOps.mapping_ok wants distinct labels; the copying overload also takes repeated ones: same
            # expr_from_copy, without that guard
            return (f"(QAddConCopyRaw {S} {_clist([_q(x) for x in L])} {_lq(Qd)} {_q(O)} "
                    f"{_clist([_cnat(v) for v in mp])} {_cnat(a[2])} {_q(a[3])})")
        ctor = "MAddConstraintCopy" if a[1] == 0 else "MAddConstraintMove"
        return M([f"({ctor} {_clist([_q(x) for x in L])} {_lq(Qd)} {_q(O)} {_clist([_cnat(v) for v in mp])} {_cnat(a[2])} {_q(a[3])})"])
    if k == "cq.setobj":
        m = a[1]
        vts = a[2:2 + m]
        lin, quad, off, _ = parse_poly(a, 2 + m)
        nv = c["nv"]
        eff = [c["vt"][i] if i < nv else vts[i] for i in range(m)]
        L, Qd, O = local_qm(eff, lin, quad, off)
        return M([f"(MAddVariable {_dinfo(vts[i])})" for i in range(nv, m)] + ["(MEdit EObj EClear)"]
                 + [f"(MEdit EObj (EAddLinear {_cnat(i)} {_q(L[i])}))" for i in range(m)]
                 + [f"(MEdit EObj (EAddQuadratic {_cnat(u)} {_cnat(v)} {_q(b)}))" for u, v, b in Qd]
                 + [f"(MEdit EObj (EAddOffset {_q(O)}))"])
    if k == "cq.addlincon":
        m = a[1]
        vs, bs = a[2:2 + m], a[2 + m:2 + 2 * m]
        t = _target(len(c["cons"]))
        return M([empty_con(a[2 + 2 * m], a[3 + 2 * m])] + [f"(MEdit {t} (EAddLinear {_cnat(v)} {_q(b)}))" for v, b in zip(vs, bs)])
    if k == "cq.remcon":
        return M([f"(MRemoveConstraint {_cnat(a[1])})"])
    if k == "cq.remvar":
        return M([f"(MRemoveVariable {_cnat(a[1])})"])
    if k == "cq.fix":
        return M([f"(MFixVariable {_cnat(a[1])} {_q(a[2])})"])
    if k == "cq.subst":
        return M([f"(MSubstitute {_cnat(a[1])} {_q(a[2])} {_q(a[3])})"])
    if k == "cq.chvt":
        t, v = a[1], a[2]
        src = c["vt"][v]
        V = _cnat(v)
        if src == t:
            return "QNop"
        if (src, t) == (1, 0):
            return M([f"(MSubstitute {V} {_q(2)} {_q(-1)})", f"(MSetInfo {V} {_info(0, 0, 1)})"])
        if (src, t) == (0, 1):
            return M([f"(MSubstitute {V} {_q(Fraction(1, 2))} {_q(Fraction(1, 2))})", f"(MSetInfo {V} {_info(1, -1, 1)})"])
        if (src, t) == (1, 2):
            return M([f"(MSubstitute {V} {_q(2)} {_q(-1)})", f"(MSetInfo {V} {_info(2, 0, 1)})"])
        if (src, t) == (0, 2):
            return M([f"(MSetInfo {V} {_info(2, fhex(c['lb'][v]), fhex(c['ub'][v]))})"])
        return "QNop"            # std::logic_error, nothing changes
    if k in ("cq.setlb", "cq.setub"):
        v = a[1]
        lb = Fraction(a[2]) if k == "cq.setlb" else fhex(c["lb"][v])
        ub = Fraction(a[2]) if k == "cq.setub" else fhex(c["ub"][v])
        return M([f"(MSetInfo {_cnat(v)} {_info(c['vt'][v], lb, ub)})"])
    if k == "cq.clear":
        return f"(QClear {S})"
    if k in ("cq.copyctor", "cq.copyassign"):
        return f"(QCopy {_cnat(a[0])} {_cnat(a[1])})"
    if k in ("cq.movector", "cq.moveassign"):
        return f"(QMoveClear {_cnat(a[0])} {_cnat(a[1])})"
    if k == "cq.swap":
        return f"(QSwap {_cnat(a[0])} {_cnat(a[1])})"
    if k.startswith("cq.e."):
        sub, ke, b = k[5:], a[1], a[2:]
        t = _target(ke)
        if sub == "addlin":
            return M([f"(MEdit {t} (EAddLinear {_cnat(b[0])} {_q(b[1])}))"])
        if sub == "setlin":
            return M([f"(MEdit {t} (ESetLinear {_cnat(b[0])} {_q(b[1])}))"])
        if sub in ("addq", "addqb"):      # under its ordering promise add_quadratic_back is add_quadratic
            return M([f"(MEdit {t} (EAddQuadratic {_cnat(b[0])} {_cnat(b[1])} {_q(b[2])}))"])
        if sub == "addoff":
            return M([f"(MEdit {t} (EAddOffset {_q(b[0])}))"])
        if sub == "setoff":
            return M([f"(MEdit {t} (ESetOffset {_q(b[0])}))"])
        if sub == "remint":
            return M([f"(MEdit {t} (ERemoveInteraction {_cnat(b[0])} {_cnat(b[1])}))"])
        if sub == "remvar":
            return M([f"(MEdit {t} (ERemoveVariable {_cnat(b[0])}))"])
        if sub == "remvars":
            return f"(QRemVars {S} {t} {_clist([_cnat(v) for v in b[1:]])})"
        if sub == "subst":
            return f"(QSubstE {S} {t} {_cnat(b[0])} {_q(b[1])} {_q(b[2])})"
        if sub == "clear":
            return M([f"(MEdit {t} EClear)"]) if ke < 0 else f"(QClearCon {S} {_cnat(ke)})"
        if sub == "setq":
            return f"(QSetQ {S} {t} {_cnat(b[0])} {_cnat(b[1])} {_q(b[2])})"
        if sub == "fix":
            return f"(QFixE {S} {t} {_cnat(b[0])} {_q(b[1])})"
        if sub == "scale":
            return f"(QScale {S} {t} {_q(b[0])})"
        if sub == "energy":
            return f"(QEnergy {S} {t} {_clist([_q(x) for x in b])})"
        if sub == "disjoint":
            return f"(QDisjoint {S} {t} {_target(b[0])})"
        if ke < 0:
            return "QNop"       # the objective has no attributes; the driver ignores the call
        con = c["cons"][ke]
        w = "None" if con["weight"] == "inf" else f"(Some {_q(fhex(con['weight']))})"
        if sub == "sense":
            return f"(QSense {S} {_cnat(ke)} {_cnat(b[0])})"
        if sub == "rhs":
            return f"(QRhs {S} {_cnat(ke)} {_q(b[0])})"
        if sub == "weight":
            nw = "None" if b[0] == "inf" else f"(Some {_q(b[0])})"
            return M([f"(MSetAttrs {_cnat(ke)} {nw} {_cnat(b[1])} {'true' if con['disc'] else 'false'})"])
        if sub == "disc":
            return M([f"(MSetAttrs {_cnat(ke)} {w} {_cnat(con['pen'])} {'true' if b[0] else 'false'})"])
        return None
    if k == "cq.fixvars":
        m = a[2]
        return (f"(QFixVars {S} {_cnat(a[1])} {_clist([_cnat(v) for v in a[3:3 + m]])} "
                f"{_clist([_q(x) for x in a[3 + m:3 + 2 * m]])})")
    if k == "cq.remcons_if":
        return f"(QRemConsIf {S} {_cnat(a[1])})"
    return None


def coq_eobs(e):
    lin = _clist([_q(fhex(x)) for x in e["lin"]])
    quad = _lq([(i, j, fhex(b)) for i, nb in enumerate(e["adj"]) for j, b in nb if j <= i])
    return f"(mkEO {_clist([_cnat(v) for v in e['vars']])} {lin} {quad} {_q(fhex(e['off']))})"


def coq_cobs(e):
    w = "None" if e["weight"] == "inf" else f"(Some {_q(fhex(e['weight']))})"
    return (f"(mkCO {coq_eobs(e)} {_cnat(e['sense'])} {_q(fhex(e['rhs']))} {w} {_cnat(e['pen'])} "
            f"{'true' if e['disc'] else 'false'})")


def coq_qobs(c):
    info = _clist([_info(t, fhex(l), fhex(u)) for t, l, u in zip(c["vt"], c["lb"], c["ub"])])
    return f"(mkQO {info} {coq_eobs(c['obj'])} {_clist([coq_cobs(e) for e in c['cons']])})"


def coq_qret(op, ret):
    """value returned by a reading call, for the ops whose model predicts it"""
    if ret is None:
        return "None"
    if op[0] == "cq.e.energy":
        return f"(Some {_q(fhex(ret))})"
    if op[0] == "cq.e.disjoint":
        return f"(Some {_q(int(ret))})"
    return "None"
