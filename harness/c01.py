PID = "C01"
WORKER = "w_c01"
HEADER = "From Coq Require Import List ZArith QArith Qcanon.\nFrom Dimod Require Import Base.Util Model.Poly Model.HPoly Model.Samples Model.EnergyCy Model.ChkC01.\nFrom Dimod Require Model.Adj Model.PyBqm Model.ViewOps Gen.Gen_View Model.AsSamples.\nImport ListNotations."
CHECK_FN = "check"
N_QUICK = 2400
N_THOROUGH = 60000
SHRINK_KEYS = ["rows"]
RULE = ("random models of every class (BQM float64/float32/object and their spin/binary views, QM, CQM objective / constraint lhs / "
        "constant-only expression, DQM, BinaryPolynomial) with dyadic coefficients, evaluated under each samples_like form (dict, "
        "labelled array in a random column order with extra columns, list of dicts in differing key orders, SampleSet) and with a "
        "model variable dropped / a DQM case out of range; also the deprecated (mapping, labels) samples-like with independent dict / label orders, CQM expressions after a random "
        "remove_variable / fix_variable history on a parent whose variable order is a random permutation, DQMs whose case interactions are set one pair at a time in shuffled order and orientation "
        "with multi-row shuffled matrices, QMs in float32 storage, views over float32 / object bases, unlabelled arrays / lists of rows / flat rows for models labelled range(n), zero-row arrays, "
        "float32 models with large power-of-two biases whose partial sums are not representable in float32 (accumulation must be in the float64 result), the EXPRESSION's own remove_variable (objective / lhs .remove_variable, early slots of >= 3-variable expressions) in the history, "
        "the singular energy() whenever one row is given, the dtype= keyword of energies, relabel_variables in the CQM parent's history, DQM SampleSet form and omitted variables, BinaryPolynomial dict form and omitted variables, the samples-like objects themselves (also as iterators, unlabelled and mixed lists) fed to the as_samples model, and the raw internal state of each object fed to the code-shaped loop models; non-trivial = model has a term (or is the constant-only expression); distinct by case JSON")
TRUSTED = ["model: coq/theories/Model/{Poly,HPoly,Samples,ChkC01}.v; code-shaped loop models Model/{EnergyCy,DqmLoop,HPolyLoop,PyBqm}.v over Model/Adj.v (each proved equal to the polynomial-level definition and evaluated on the raw state the implementation exposes: _ilinear/_ineighborhood, _iindices/_iquadratic, to_numpy_vectors/_cydqm.adj, pyBQM._adj)",
           "float arithmetic of the implementation is exact on the generated dyadic data (not verified)"]
ASSUMPTIONS = ["IEEE-754 arithmetic is exact on the small dyadic coefficients generated (float32 back-end uses smaller ones)"]
PARTIAL = []
