"""C07 worker: run solver/composite stacks of the implementation, record what every
layer received and returned, render the observations as Coq `case` terms.

COVERAGE (clause of the property / entry point / option -> generator stream -> Coq case that decides it)

 clause "over exactly the problem's variables (+ documented auxiliaries)", "each value in its variable's
 domain", "each row's energy is the submitted problem's energy of that row (looked up BY LABEL)":
     every stream -> CPost / CPostRaw on the sample set the OUTERMOST layer returned (after resolving it)
 clause "each column carries the values of the variable it is labelled with":
     every composite / mixin / sampler layer -> res_equiv (model table vs. seen table, columns re-indexed by label)
 clause "exact solvers enumerate the whole space, each assignment once, lowest (feasible) row optimal":
     kind bqm base exact, kind poly (ExactPolySolver), kind dqm, kind cqm -> CExact / CExactDqm / CExactCqm

 entry points   sample / sample_ising (h as dict or list) / sample_qubo (self-loops)    kind bqm, kind mixin `entry`
                sample_poly / sample_hising / sample_hubo (raw keys, constants)         kind poly `entry`
                sample_dqm, sample_cqm (rtol / atol given or defaulted)                 kind dqm, kind cqm
 samplers       ExactSolver, RandomSampler (num_reads given / signature default, seed, initial_states),
                SimulatedAnnealingSampler (num_reads, num_sweeps incl. a single sweep, beta_range as tuple/list/np.float64 items,
                documented ValueErrors and TypeErrors in source order -> CSaCall / CSaOutcome), IdentitySampler (initial_states raw dict list / raw array of every
                dtype / SampleSet, of the same or the other vartype, missing / foreign labels, values showing
                no vartype; generator none / tile / random / unknown; num_reads None / 0 / truncating / tiling
                with remainder -> CParse on the argument AS GIVEN), NullSampler (-> CNull)       kind bqm `base`
                single-method samplers (sample_ising only / sample_qubo only), stacked up to 3 deep, integer
                energy dtype (-> CMixin per level, CStack for the whole stack)                   kind mixin
 composites     Truncate (n, sorted_by None / 'energy' / 'num_occurrences', aggregate), Tracking (copy),
                Structure (complete / partial; nodelist as list or tuple, edges as tuples or 2-lists in either orientation)   kind bqm `layers`
                HigherOrder (penalty_strength, keep_penalty_variables, discard_unsatisfied, defaults),
                PolyScale (scalar, bias_range, poly_range, ignored_terms, zero bounds), PolyTruncate,
                PolyFixedVariable (fixed_variables None / empty / partial / all)                   kind poly `layers`, `hoc`
 FUTURE-BACKED sample sets (SampleSet.from_future with a real concurrent.futures.Future pending or done, a
                future-like with / without .done, an explicit result_hook, decorators.nonblocking_sample_method):
                under the Sampler.sample mixins - the deferred branch of SampleSet.change_vartype, nested up to
                three deferred adjustments, non-zero offsets and conversion constants (kind mixin `fut`, `upper`);
                under every BQM stack (kind bqm `async`: AsyncBase below Truncate / Tracking / Structure and the
                sample_ising / sample_qubo mixins of the composites), under HigherOrderComposite (kind poly with
                hoc, `async`) and under the polynomial composites (kind poly without hoc, `async`: AsyncPolyBase).
                The recorders do not resolve a pending set: they hand it on inside a transparent future-backed
                set and snapshot it when it is resolved (Proofs/DeferredFacts.v recorder_transparent).
 labels         str / int / tuple / mixed unsortable pools, shuffled; h given as list (range labels)   rand_labels2, h_list
 kind saargs    SimulatedAnnealingSampler's keyword handling on a tiny problem (beta_range forms, the eight documented
                rejections drawn with probability 0.7) so that every rejection is met several times per quick run
 NOT reached    real pending Futures below composites that read their child's answer (would block for ever);
                SampleSet.change_vartype(inplace=False) (pinned statically only: Gen_Deferred copy branch);
                IdentitySampler's TypeError for a non-Integral num_reads; bool arguments (Python counts them as int).
"""
import itertools
import warnings
from fractions import Fraction
import numpy as np
import dimod

import wlib
from wlib import cq, clist, cnat, cz, cbool, cpair, copt
import gen
from gen import F, enc_label, dec_label, LabelTable

warnings.simplefilter('ignore')

VTS = ('BINARY', 'SPIN')


# ----------------------------------------------------------------------------
# observers / recorders (harness side, trusted)
# ----------------------------------------------------------------------------

def snap(ss):
    return {"labels": list(ss.variables), "rows": np.asarray(ss.record.sample).tolist(),
            "energies": [F(e) for e in ss.record.energy], "vartype": ss.vartype.name,
            "energies_dtype_int": bool(np.issubdtype(ss.record.energy.dtype, np.integer))}


def res_term(T, s):
    return "(mkRes %s %s %s)" % (clist([cnat(T.idx(v)) for v in s["labels"]]),
                                 clist([clist([cq(F(x)) for x in r]) for r in s["rows"]]),
                                 clist([cq(e) for e in s["energies"]]))


def hp_term(T, terms):
    return clist([cpair(clist([cnat(T.idx(x)) for x in k]), cq(F(b))) for k, b in terms])


def poly_obs_term(T, off, lin, quad):
    return "(mkPoly %s %s %s)" % (cq(F(off)), clist([cpair(cnat(T.idx(v)), cq(F(b))) for v, b in lin]),
                                  clist([f"({cnat(T.idx(u))}, {cnat(T.idx(v))}, {cq(F(b))})" for u, v, b in quad]))


def bqm_obs_term(T, bqm):
    return poly_obs_term(T, bqm.offset, list(bqm.linear.items()),
                         [(u, v, b) for (u, v), b in bqm.quadratic.items()])


def poly_terms(poly):
    return [(tuple(k), F(b)) for k, b in poly.items()]


class Rec(dimod.Sampler):
    """records every call that reaches the wrapped BQM sampler: `attempts` before the child is
    called (method, input), `calls` after it returned (method, input, output)"""
    parameters = None
    properties = None

    def __init__(self, child):
        self.child = child
        self.parameters = dict(child.parameters or {})
        self.properties = {}
        self.calls = []
        self.attempts = []
        self.pending_seen = []      # per call: was the child's sample set still pending when it came back

    def _ret(self, method, inp, ss):
        """a pending sample set is NOT resolved by the recorder: it is handed on inside a transparent
        future-backed set and snapshotted when (if) somebody resolves it"""
        if hasattr(ss, '_future'):
            self.pending_seen.append(not ss.done())
            out, _ = future_backed(ss, 'set', _Sink(lambda sn: self.calls.append((method, inp, sn))), [])
            return out
        self.pending_seen.append(False)
        self.calls.append((method, inp, snap(ss)))
        return ss

    def sample(self, bqm, **kw):
        inp = bqm.copy()
        try:
            inp.info = dict(getattr(bqm, 'info', {}) or {})
        except Exception:
            pass
        self.attempts.append(("sample", inp))
        return self._ret("sample", inp, self.child.sample(bqm, **kw))

    def sample_ising(self, h, J, **kw):
        inp = (dict(h) if isinstance(h, dict) else dict(enumerate(h)), dict(J))
        self.attempts.append(("ising", inp))
        return self._ret("ising", inp, self.child.sample_ising(h, J, **kw))

    def sample_qubo(self, Q, **kw):
        inp = dict(Q)
        self.attempts.append(("qubo", inp))
        return self._ret("qubo", inp, self.child.sample_qubo(Q, **kw))


class _Sink:
    def __init__(self, fn):
        self.fn = fn

    def __setitem__(self, k, v):
        self.fn(v)


class AsyncPolyBase(dimod.PolySampler):
    """the wrapped polynomial solver's answer arrives on a future"""
    parameters = None
    properties = None

    def __init__(self, child, mode):
        self.child = child
        self.mode = mode
        self.parameters = dict(child.parameters or {})
        self.properties = {}
        self.pending = []

    def sample_poly(self, poly, **kw):
        out, _ = future_backed(self.child.sample_poly(poly, **kw), self.mode, {}, self.pending)
        return out


class AsyncBase(dimod.Sampler):
    """the wrapped reference sampler's answer arrives on a future (mode: one of ASYNC_MODES)"""
    parameters = None
    properties = None

    def __init__(self, child, mode):
        self.child = child
        self.mode = mode
        self.parameters = dict(child.parameters or {})
        self.properties = {}
        self.pending = []

    def sample(self, bqm, **kw):
        ss = self.child.sample(bqm, **kw)
        out, _ = future_backed(ss, self.mode, {}, self.pending)
        return out


def inp_parts(method, inp):
    """(offset, linear items, quadratic triples, variables, interactions) of a recorded input"""
    if method == 'sample':
        return (inp.offset, list(inp.linear.items()), [(u, v, b) for (u, v), b in inp.quadratic.items()],
                list(inp.variables), [(u, v) for (u, v) in inp.quadratic.keys()])
    if method == 'ising':
        h, J = inp
        vs = list(h)
        for u, v in J:
            for x in (u, v):
                if not any(x == y and type(x) is type(y) for y in vs):
                    vs.append(x)
        return 0, list(h.items()), [(u, v, b) for (u, v), b in J.items()], vs, [k for k in J if k[0] != k[1]]
    vs = []
    for u, v in inp:
        for x in (u, v):
            if not any(x == y and type(x) is type(y) for y in vs):
                vs.append(x)
    lin, quad = fold_selfloops([], [(u, v, b) for (u, v), b in inp.items()])
    return 0, lin, quad, vs, [k for k in inp if k[0] != k[1]]


def inp_term(T, method, inp):
    off, lin, quad, _, _ = inp_parts(method, inp)
    return poly_obs_term(T, off, lin, quad)


def tracked_method(d):
    if 'bqm' in d:
        return 'sample', d['bqm']
    if 'h' in d:
        h = d['h']
        return 'ising', (dict(h) if isinstance(h, dict) else dict(enumerate(h)), dict(d['J']))
    return 'qubo', dict(d['Q'])


class PolyRec(dimod.PolySampler):
    parameters = None
    properties = None

    def __init__(self, child):
        self.child = child
        self.parameters = dict(child.parameters or {})
        self.properties = {}
        self.calls = []

    def sample_poly(self, poly, **kw):
        inp = (poly_terms(poly), poly.vartype.name, list(poly.variables))
        ss = self.child.sample_poly(poly, **kw)
        if hasattr(ss, '_future'):
            out, _ = future_backed(ss, 'set', _Sink(lambda sn: self.calls.append((inp, sn))), [])
            return out
        self.calls.append((inp, snap(ss)))
        return ss


def maybe_int(ss, want):
    """an honest child that reports its (integral) energies with an integer dtype, as a
    sampler working on integer biases would"""
    if want and len(ss) and all(float(e).is_integer() for e in ss.record.energy):
        return dimod.SampleSet.from_samples((ss.record.sample, list(ss.variables)), vartype=ss.vartype,
                                            energy=ss.record.energy.astype(np.int64), sort_labels=False)
    return ss


class LazyFuture:
    """a future whose result arrives when it is first asked for: done() is False until then"""

    def __init__(self, value):
        self._value, self._done = value, False

    def done(self):
        return self._done

    def result(self):
        self._done = True
        return self._value()


class BareFuture:
    """a future-like object WITHOUT a done attribute (SampleSet.done() then says True)"""

    def __init__(self, value):
        self._value = value

    def result(self):
        return self._value()


class SetFuture:
    """transparent recorder around a sample set that may be pending: done() is the inner set's,
    result() resolves it, lets the recorder look at it, and hands it on"""

    def __init__(self, inner, value):
        self._inner, self._value = inner, value

    def done(self):
        return self._inner.done()

    def result(self):
        return self._value()


FUT_MODES = ('pending', 'done', 'lazy', 'bare', 'hook', 'nonblocking', 'nonblocking_done')
# under composites that read their child's answer a real pending Future would block for ever
ASYNC_MODES = ('done', 'lazy', 'lazy', 'bare', 'hook', 'nonblocking', 'nonblocking_done')


def future_backed(ss, mode, rec, pending):
    """a SampleSet built on a future that yields the (resolved or pending) sample set `ss`.
    rec['child'] receives the snapshot of ss at the moment the future hands it over (before anything
    can adjust it in place).  Real concurrent.futures.Future objects left pending are appended to
    `pending` as (future, value) and must be completed by the caller.
    Returns (sample set, model kind (has_done, is_done) of the future)."""
    import concurrent.futures
    from dimod.decorators import nonblocking_sample_method

    state = []

    def value():
        if not state:           # a deep copy of the pending set (TrackingComposite(copy=True)) shares this closure
            state.append(1)
            ss.resolve()
            rec["child"] = snap(ss)
        return ss
    if mode == 'set':
        return dimod.SampleSet.from_future(SetFuture(ss, value)), None
    if mode == 'lazy':
        return dimod.SampleSet.from_future(LazyFuture(value)), (True, False)
    if mode == 'bare':
        return dimod.SampleSet.from_future(BareFuture(value)), (False, False)
    if mode == 'hook':
        # explicit result_hook that does not use the future's value
        return dimod.SampleSet.from_future(LazyFuture(lambda: None), lambda fut: (fut.result(), value())[1]), (True, False)
    f = concurrent.futures.Future()
    if mode in ('done', 'nonblocking_done'):
        f.set_result(None if mode == 'nonblocking_done' else value())
    else:
        pending.append((f, None if mode == 'nonblocking' else value))
    if mode in ('nonblocking', 'nonblocking_done'):
        def gen_method():
            yield f
            yield value()
        return nonblocking_sample_method(gen_method)(), (True, mode == 'nonblocking_done')
    return dimod.SampleSet.from_future(f), (True, mode == 'done')


def finish(pending):
    """complete the real futures that were left pending"""
    for f, value in pending:
        f.set_result(None if value is None else value())
    del pending[:]


class _OneMethod:
    """shared part of IsingOnly / QuboOnly: answer the BQM the implemented method stands for.
    child None: solved exactly here; otherwise handed to child.sample (a stack of single-method
    samplers, each adding one change_vartype).  fut: None (plain sample set) or one of FUT_MODES"""

    def _init(self, int_energies=False, child=None, fut=None, pending=None):
        self.parameters = {}
        self.properties = {}
        self.calls = []
        self.int_energies = int_energies
        self.child = child
        self.fut = fut
        self.pending = pending if pending is not None else []
        self.kind = None

    def _answer(self, bqm, rec):
        rec["bqm"] = bqm
        self.calls.append(rec)
        if self.child is None:
            ss = maybe_int(dimod.ExactSolver().sample(bqm), self.int_energies)
            if self.fut is None:
                rec["child"] = snap(ss)
                return ss
            out, self.kind = future_backed(ss, self.fut, rec, self.pending)
            return out
        ss = self.child.sample(bqm)
        if not hasattr(ss, '_future'):
            rec["child"] = snap(ss)
            return ss
        out, _ = future_backed(ss, 'set', rec, self.pending)
        return out


class IsingOnly(_OneMethod, dimod.Sampler):
    """implements sample_ising only; everything else comes from the Sampler mixins"""
    parameters = None
    properties = None

    def __init__(self, **kw):
        self._init(**kw)

    def sample_ising(self, h, J, **kw):
        return self._answer(dimod.BinaryQuadraticModel.from_ising(h, J), {"h": dict(h), "J": dict(J)})


class QuboOnly(_OneMethod, dimod.Sampler):
    parameters = None
    properties = None

    def __init__(self, **kw):
        self._init(**kw)

    def sample_qubo(self, Q, **kw):
        return self._answer(dimod.BinaryQuadraticModel.from_qubo(Q), {"Q": dict(Q)})


# ----------------------------------------------------------------------------
# generators
# ----------------------------------------------------------------------------

STR_POOL = ['b', 'a', 'zz', 'c', 'x0', 'x10', 'x2', 'B', 'aux', 'a*b']
INT_POOL = [3, 0, 7, 1, 12, 5, 2, -1]
TUP_POOL = [('t', 2), ('t', 1), ('a', 0), ('t', 10), (0, 1), (1, 0)]


def rand_labels2(rng, n):
    """mixed (unsortable) pools keep the given column order; homogeneous pools get sorted by
    SampleSet.from_samples, so that column order and model order differ"""
    r = rng.random()
    if r < 0.4:
        return gen.rand_labels(rng, n)
    pool = list(STR_POOL if r < 0.65 else INT_POOL if r < 0.9 else TUP_POOL)
    rng.shuffle(pool)
    return pool[:n]


def gen_quad_problem(rng, entry, nmax=6, nmin=0):
    """returns dict: vartype, vars (ordered), off, lin [[v,b]], quad [[u,v,b]]"""
    n = rng.randint(nmin, nmax)
    labels = rand_labels2(rng, n)
    if entry == 'ising':
        vt = 'SPIN'
    elif entry == 'qubo':
        vt = 'BINARY'
    else:
        vt = rng.choice(VTS)
    lin, quad = [], []
    for l in labels:
        if entry == 'sample' or rng.random() < 0.8:
            lin.append([enc_label(l), str(rng.dyadic(8, 2) if rng.random() > 0.15 else Fraction(0))])
    for i in range(n):
        for j in range(i + 1, n):
            if rng.random() < 0.5:
                u, v = (labels[i], labels[j]) if rng.random() < 0.5 else (labels[j], labels[i])
                quad.append([enc_label(u), enc_label(v), str(rng.dyadic(8, 2) if rng.random() > 0.1 else Fraction(0))])
    off = str(rng.dyadic(8, 2)) if entry == 'sample' and rng.random() < 0.7 else "0"
    if entry == 'ising' and rng.random() < 0.25:
        k = rng.randint(0, min(n, 5))
        labels = list(range(k))
        rng.shuffle(labels)
        lin = [[l, str(rng.dyadic(8, 2))] for l in labels if rng.random() < 0.8]
        quad = [[labels[i], labels[j], str(rng.dyadic(8, 2))] for i in range(k) for j in range(i + 1, k) if rng.random() < 0.5]
        return {"vartype": vt, "vars": labels, "off": "0", "lin": lin, "quad": quad, "h_list": True}
    return {"vartype": vt, "vars": [enc_label(l) for l in labels], "off": off, "lin": lin, "quad": quad}


def gen_sa_opts(rng, kw, p_bad=0.15, typed=False):
    kw["num_reads"] = rng.randint(1, 3)
    kw["num_sweeps"] = rng.randint(2, 6)
    kw["pyseed"] = rng.randint(0, 2 ** 31)
    # rarely used options: an explicit beta_range (tuple or list), a single sweep, and the
    # documented rejections (ValueError) of num_reads / beta_range / num_sweeps
    if rng.random() < 0.4:
        kw["beta_range"] = rng.choice([["1/2", "2"], ["1", "1"], ["1/4", "8"], ["2", "1/2"]])
        kw["beta_form"] = rng.choice(['tuple', 'list'])
    if rng.random() < 0.15:
        kw["num_sweeps"] = 1         # a single sweep (regression: corpus/C07/sa_single_sweep.json)
    if typed and rng.random() < 0.3:
        # arguments of the wrong TYPE (TypeError), possibly together with a wrong value elsewhere: the
        # FIRST failing test of the source decides
        t = {}
        for k, opts in (("num_reads", ['float', 'str', 'npint']), ("num_sweeps", ['float', 'str', 'npint']),
                        ("beta", ['str', 'set', 'itemstr', 'itemnone', 'npfloats'])):
            if rng.random() < 0.4:
                t[k] = rng.choice(opts)
        if t.get("beta") and "beta_range" not in kw:
            kw["beta_range"] = ["1/2", "2"]
            kw["beta_form"] = rng.choice(['tuple', 'list'])
        if t:
            kw["sa_types"] = t
    if rng.random() < p_bad:
        bad = rng.choice(['reads0', 'readsneg', 'sweeps0', 'sweepsneg', 'beta0', 'betaneg', 'beta3', 'beta1'])
        kw["sa_bad"] = bad
        if bad.startswith('reads'):
            kw["num_reads"] = 0 if bad == 'reads0' else -2
        elif bad.startswith('sweeps'):
            kw["num_sweeps"] = 0 if bad == 'sweeps0' else -1
        else:
            kw["beta_range"] = {'beta0': ["0", "2"], 'betaneg': ["1", "-1/2"], 'beta3': ["1", "2", "4"], 'beta1': ["2"]}[bad]
            kw["beta_form"] = rng.choice(['tuple', 'list'])


def gen_bqm_base(rng, small=False):
    base = rng.choice(['exact', 'exact', 'exact', 'random', 'sa', 'identity', 'identity', 'identity', 'null'])
    kw = {"base": base}
    if base == 'random':
        kw["num_reads"] = rng.randint(1, 5) if rng.random() < 0.85 else None     # None: the signature's default
        kw["seed"] = rng.randint(0, 2 ** 31)
        if rng.random() < 0.45:
            # RandomSampler forwards **kwargs to IdentitySampler: initial_states are accepted
            kw["ninit"] = rng.randint(1, 4)
            kw["mismatch"] = rng.choice([None, None, None, None, 'drop', 'extra', 'badvals'])
            kw["init_form"] = rng.choice(['dicts', 'array'])
            kw["init_vt"] = rng.choice(['same', 'other'])
            kw["init_dtype"] = rng.choice(['int8', 'int16', 'int32', 'int64', 'float32', 'float64', 'bool', 'uint8', 'uint16', 'uint32'])
            kw["init_raw"] = rng.random() < 0.5
            kw["init_seed"] = rng.randint(0, 2 ** 31)
    elif base == 'sa':
        gen_sa_opts(rng, kw)
    elif base == 'identity':
        kw["num_reads"] = rng.choice([None, None, 1, 2, 3, 4, 5, 7, 0])
        kw["mismatch"] = rng.choice([None, None, None, None, None, None, None, 'drop', 'extra', 'badvals'])
        kw["seed"] = rng.randint(0, 2 ** 31)
        kw["isg"] = rng.choice(['random', 'tile', 'none'] * 8 + ['bogus'])      # unknown generator: ValueError
        kw["ninit"] = rng.randint(0, 5)
        kw["init_form"] = rng.choice(['dicts', 'array'])
        kw["init_vt"] = rng.choice(['same', 'other'])
        kw["init_seed"] = rng.randint(0, 2 ** 31)
        kw["init_dtype"] = rng.choice(['int8', 'int16', 'int32', 'int64', 'float32', 'float64', 'bool', 'uint8', 'uint16', 'uint32'])
        kw["init_raw"] = rng.random() < 0.5
        if kw["isg"] == 'tile' and kw["ninit"] >= 2 and rng.random() < 0.6:
            kw["num_reads"] = kw["ninit"] + rng.randint(1, 2 * kw["ninit"])      # tiling with a remainder
        elif kw["ninit"] >= 2 and rng.random() < 0.3:
            kw["num_reads"] = rng.randint(1, kw["ninit"] - 1)                     # truncation
        if rng.random() < 0.25:
            # given states in a bool / unsigned array completed by the 'random' (or 'tile') generator: the rows it adds must
            # hold -1 for a SPIN problem whatever the dtype of the rows given (make_initial_states then gives all-ones rows,
            # legal for either vartype); round-6 miss C07 r6m3
            kw.update({"isg": rng.choice(['random', 'random', 'tile']), "init_form": 'array', "init_vt": 'same', "mismatch": None,
                       "init_dtype": rng.choice(['bool', 'uint8', 'uint16', 'uint32']), "ninit": rng.randint(1, 2)})
            kw["num_reads"] = kw["ninit"] + rng.randint(1, 3)
            kw["init_seed"] = kw["init_seed"] | 1          # odd: make_initial_states' all-ones rule applies (seed % 4 != 0)
    if rng.random() < 0.3:
        # the base sampler's answer arrives on a future (SampleSet.from_future / nonblocking_sample_method)
        kw["async"] = rng.choice(ASYNC_MODES)
    return kw


def gen_bqm_layers(rng):
    layers = []
    for _ in range(rng.choice([0, 0, 1, 1, 2, 3])):
        t = rng.choice(['trunc', 'trunc', 'track', 'struct'])
        if t == 'trunc':
            layers.append({"t": t, "n": rng.choice([1, 1, 2, 3, 5, 100]),
                           "sorted_by": rng.choice(['energy', 'energy', 'energy', None, None, 'num_occurrences']),
                           "aggregate": rng.random() < 0.3})
            if layers[-1]["sorted_by"] == 'num_occurrences':
                layers[-1]["aggregate"] = rng.random() < 0.7      # any other record field may be the sort key
        elif t == 'track':
            layers.append({"t": t, "copy": rng.random() < 0.5})
        else:
            # structure: complete (accepts everything over the variables) or partial
            layers.append({"t": t, "partial": rng.random() < 0.4, "sseed": rng.randint(0, 2 ** 31)})
    return layers


def gen_poly(rng, nmax=6, maxdeg=4, maxterms=7, entry='poly'):
    n = rng.randint(1, nmax)
    labels = rand_labels2(rng, n)
    vt = 'SPIN' if entry == 'hising' else 'BINARY' if entry == 'hubo' else rng.choice(VTS)
    terms = {}
    if entry == 'poly' and rng.random() < 0.6:
        terms[()] = rng.dyadic(8, 1)
    for _ in range(rng.randint(0, maxterms)):
        k = rng.randint(1, min(maxdeg, n))
        t = tuple(rng.sample(labels, k))
        key = frozenset(t)
        if any(frozenset(x) == key for x in terms):
            continue
        terms[t] = rng.dyadic(8, 1) if rng.random() > 0.1 else Fraction(0)
    if entry == 'hubo' and rng.random() < 0.3:
        terms[()] = rng.dyadic(8, 1)
    out = {"vartype": vt, "terms": [[[enc_label(x) for x in t], str(b)] for t, b in terms.items()]}
    if entry in ('hising', 'hubo'):
        # the user's dicts as written: the single-variable terms generated above go to h (hising); further
        # keys of J / H may have any length incl. 0 (constant) and 1 (a second bias on a variable of h),
        # repeat a variable, or spell an earlier monomial in another key order
        raw = [[list(t), b] for t, b in terms.items()]
        h_idx = [i for i, (t, _) in enumerate(raw) if len(t) == 1] if entry == 'hising' else []
        h_keys = [enc_label(raw[i][0][0]) for i in h_idx]     # the FIRST single-variable term on each of these labels is h's
        keys = {tuple(map(json_key, t)) for i, (t, _) in enumerate(raw) if i not in h_idx}
        for _ in range(rng.choice([0, 0, 1, 2, 3])):
            r = rng.random()
            if r < 0.2:
                t = []
            elif r < 0.45:
                t = [rng.choice(labels)]
            elif r < 0.7 and raw:
                t = list(rng.choice(raw)[0])
                rng.shuffle(t)
            else:
                t = [rng.choice(labels) for _ in range(rng.randint(2, 4))]      # repeats allowed
            k = tuple(map(json_key, t))
            if k in keys:
                continue
            keys.add(k)
            raw.append([t, rng.dyadic(8, 1)])
        out["terms"] = [[[enc_label(x) for x in t], str(b)] for t, b in raw]
        out["h_keys"] = h_keys
    return out


def effective_terms(terms, vt):
    """the polynomial a list of raw terms denotes (x*x = x, s*s = 1, equal monomials added); used by
    the GENERATOR only, to choose options (ignored terms, fixed variables, dyadic normalisation)"""
    acc = {}
    for t, b in terms:
        if vt == 'SPIN':
            key = frozenset(x for x in set(t) if t.count(x) % 2 == 1)
        else:
            key = frozenset(t)
        acc[key] = acc.get(key, Fraction(0)) + Fraction(b)
    return [(tuple(sorted(k)), b) for k, b in acc.items()]


def is_pow2(fr):
    fr = abs(Fraction(fr))
    if fr == 0:
        return False
    n, d = fr.numerator, fr.denominator
    return (n & (n - 1)) == 0 and (d & (d - 1)) == 0


def norm_inv(terms, lr, pr, ign):
    """mirror of BinaryPolynomial.normalize's inv_scalar in exact arithmetic (generator side only:
    used to keep the scaling factor dyadic so that float arithmetic is exact)"""
    ignset = {frozenset(map(str, t)) for t in ign}
    lmin = lmax = pmin = pmax = Fraction(0)
    for t, b in terms:
        if frozenset(map(str, t)) in ignset:
            continue
        b = Fraction(b)
        if len(t) == 1:
            lmin, lmax = min(lmin, b), max(lmax, b)
        elif len(t) > 1:
            pmin, pmax = min(pmin, b), max(pmax, b)
    return max(lmin / lr[0], lmax / lr[1], pmin / pr[0], pmax / pr[1])


def parse_range(r):
    if isinstance(r, list):
        return Fraction(r[0]), Fraction(r[1])
    return -abs(Fraction(r)), abs(Fraction(r))


def gen_scale_opts(rng, terms):
    ign = []
    if rng.random() < 0.4:
        for t, b in terms:
            if rng.random() < 0.3:
                tt = list(t)
                rng.shuffle(tt)
                ign.append(tt)
    o = {"t": "scale", "ignored": [[unjson_key(x) for x in t] for t in ign] if (ign or rng.random() < 0.5) else None}
    if rng.random() < 0.45:
        o["scalar"] = str(rng.choice([Fraction(1, 2), Fraction(2), Fraction(1, 4), Fraction(4), Fraction(-2), Fraction(1)]))
        return o
    o["scalar"] = None
    for _ in range(30):
        # proper ranges, improper ones (one-sided, inverted) and ranges with a zero bound (ZeroDivisionError)
        br = rng.choice(["1", "2", "1/2", "4", ["-1", "2"], ["-2", "1/2"], ["-4", "4"], "1", "2",
                         ["1", "2"], ["-2", "-1"], ["1", "-1"], ["2", "-4"], ["0", "1"], ["-1", "0"], "0"])
        prr = rng.choice([None, None, None, "1", "2", "1/4", ["-2", "1"], ["-1", "4"], ["1", "4"], ["-4", "-1"],
                          ["1", "-2"], ["0", "2"]])
        lr = parse_range(br)
        pr = parse_range(prr) if prr is not None else lr
        if 0 in lr or 0 in pr:
            o["bias_range"], o["poly_range"] = br, prr
            return o
        inv = norm_inv(terms, lr, pr, ign)
        if inv == 0 or is_pow2(inv):
            o["bias_range"], o["poly_range"] = br, prr
            return o
    o["scalar"] = "1/2"
    return o


def gen_poly_layers(rng, poly, base_is_hoc):
    layers = []
    kinds = ['scale', 'fixed', 'ptrunc']
    rng.shuffle(kinds)
    for t in kinds[:rng.choice([0, 1, 1, 2, 3])]:
        if t == 'ptrunc':
            layers.append({"t": t, "n": rng.choice([1, 2, 3, 6, 100]),
                           "sorted_by": rng.choice(['energy', 'energy', 'energy', None, None, 'num_occurrences']),
                           "aggregate": rng.random() < 0.3})
        elif t == 'fixed':
            layers.append({"t": t})
        else:
            layers.append({"t": t})
    return layers


def gen_case(rng, tier):
    kind = rng.choice(['bqm', 'bqm', 'bqm', 'mixin', 'mixin', 'poly', 'poly', 'poly', 'dqm', 'cqm', 'cqm', 'saargs'])
    if kind == 'saargs':
        # SimulatedAnnealingSampler's keyword handling on a tiny problem: beta_range forms, the documented rejections
        entry = rng.choice(['sample', 'ising', 'qubo'])
        c = {"kind": "bqm", "entry": entry, "prob": gen_quad_problem(rng, entry, nmax=2, nmin=1), "layers": [], "base": "sa"}
        c["prob"].pop("h_list", None)
        gen_sa_opts(rng, c, p_bad=0.5, typed=True)
        return c
    if kind == 'bqm':
        entry = rng.choice(['sample', 'sample', 'ising', 'qubo'])
        prob = gen_quad_problem(rng, entry)
        if entry == 'qubo' and rng.random() < 0.3 and prob["vars"]:
            # explicit duplicates of a self-loop key are impossible in a dict; add (v,v) entries only
            pass
        c = {"kind": kind, "entry": entry, "prob": prob, "layers": gen_bqm_layers(rng)}
        c.update(gen_bqm_base(rng))
        return c
    if kind == 'mixin':
        which = rng.choice(['isingonly', 'quboonly'])
        entry = rng.choice(['sample', 'sample', 'qubo' if which == 'isingonly' else 'ising'])
        prob = gen_quad_problem(rng, entry, nmax=5, nmin=1)
        prob.pop("h_list", None)
        int_child = rng.random() < 0.3
        if int_child:
            # integer biases (times 4 when the vartype is converted, so that the child's biases stay integral)
            mul = 4 if rng.random() < 0.5 else 1
            for t in prob["lin"] + prob["quad"]:
                t[-1] = str(int(Fraction(t[-1])) * mul)
        c = {"kind": kind, "which": which, "entry": entry, "prob": prob, "int_child": int_child}
        # the implemented method answers with a sample set built on a future (SampleSet.from_future /
        # nonblocking_sample_method): still pending when the mixin adjusts vartype and offset, already
        # done, or an object without .done; optionally under further single-method samplers, so that
        # several adjustments are deferred on top of each other
        if rng.random() < 0.6:
            c["fut"] = rng.choice(FUT_MODES)
        if rng.random() < 0.35:
            c["upper"] = [rng.choice(['isingonly', 'quboonly']) for _ in range(rng.choice([1, 1, 2]))]
        return c
    if kind == 'poly':
        entry = rng.choice(['poly', 'poly', 'hising', 'hubo'])
        hoc = rng.random() < 0.55
        if hoc:
            poly = gen_poly(rng, nmax=4, maxdeg=3, maxterms=4, entry=entry)
            # at most two terms of degree 3 so that the reduced BQM stays small
            big = [t for t in poly["terms"] if len(t[0]) >= 3]
            for t in big[2:]:
                poly["terms"].remove(t)
        else:
            poly = gen_poly(rng, entry=entry)
        c = {"kind": kind, "entry": entry, "poly": poly, "hoc": None}
        if not hoc and rng.random() < 0.3:
            c["async"] = rng.choice(ASYNC_MODES)      # ExactPolySolver's answer arrives on a future
        if hoc:
            c["hoc"] = {"penalty_strength": str(rng.choice([Fraction(1), Fraction(2), Fraction(1, 2), Fraction(4)])),
                        "keep": rng.random() < 0.5, "discard": rng.random() < 0.4,
                        "defaults": rng.random() < 0.15}
            b = gen_bqm_base(rng)
            while b["base"] == 'identity' or b.get("sa_bad"):      # would need initial states over the auxiliary variables
                b = gen_bqm_base(rng)
            c.update(b)
        layers = gen_poly_layers(rng, poly, hoc)
        # options that depend on the polynomial each layer sees are generated against the top-level
        # polynomial (scale before fix would change the terms; normalisation stays dyadic only when
        # scale is the outermost layer, so put it first)
        layers.sort(key=lambda l: 0 if l["t"] == 'scale' else 1)
        terms = effective_terms([(tuple(json_key(x) for x in t), Fraction(b)) for t, b in poly["terms"]],
                                poly["vartype"])
        for l in layers:
            if l["t"] == 'scale':
                l.update(gen_scale_opts(rng, [(t, b) for t, b in terms]))
            elif l["t"] == 'fixed':
                vs = sorted({x for t, _ in terms for x in t})
                k = rng.randint(0, len(vs))
                vals = [0, 1] if poly["vartype"] == 'BINARY' else [-1, 1]
                sel = rng.sample(vs, k)
                l["fixed"] = None if (k == 0 and rng.random() < 0.5) else [[unjson_key(v), rng.choice(vals)] for v in sel]
        c["layers"] = layers
        return c
    if kind == 'dqm':
        n = rng.randint(0, 4)
        labels = rand_labels2(rng, n)
        ncases = [rng.randint(1, 4) for _ in labels]
        while np.prod(ncases or [1]) > 100:
            ncases[rng.randrange(n)] = 1
        lin = [[str(rng.dyadic(8, 1)) if rng.random() < 0.7 else "0" for _ in range(k)] for k in ncases]
        quad = []
        for i in range(n):
            for j in range(i + 1, n):
                if rng.random() < 0.6:
                    for ci in range(ncases[i]):
                        for cj in range(ncases[j]):
                            if rng.random() < 0.5:
                                quad.append([i, ci, j, cj, str(rng.dyadic(8, 1))])
        return {"kind": kind, "labels": [enc_label(l) for l in labels], "ncases": ncases, "lin": lin, "quad": quad,
                "off": str(rng.dyadic(8, 1))}
    # cqm
    n = rng.randint(0, 6)
    labels = rand_labels2(rng, n)
    ngroups = rng.choice([0, 0, 1, 1, 2]) if n >= 2 else 0
    vars_ = []
    groups = []
    pos = 0
    for g in range(ngroups):
        k = rng.randint(1, 3)
        if pos + k > n:
            break
        groups.append(list(range(pos, pos + k)))
        pos += k
    ingroup = {i for g in groups for i in g}
    size = 1
    for i, l in enumerate(labels):
        if i in ingroup:
            vt, lb, ub = 'BINARY', 0, 1
        else:
            vt = rng.choice(['BINARY', 'SPIN', 'INTEGER', 'INTEGER'])
            if vt == 'INTEGER':
                lb = rng.choice([0, 0, -3, -1, 1, 2])
                ub = lb + rng.choice([0, 1, 2, 3])
                if rng.random() < 0.2:
                    # non-integral bounds are accepted by dimod as long as an integer lies between them
                    lb = rng.choice([0.5, 1.5, -0.5, -2.5, -3.5, 0.25])
                    ub = lb + rng.choice([1, 1.5, 2, 2.5])
            elif vt == 'SPIN':
                lb, ub = -1, 1
            else:
                lb, ub = 0, 1
            if size * (int(ub - lb) + 2 if vt == 'INTEGER' else 2) > 200:
                vt, lb, ub = 'INTEGER', 2, 2
            size *= (int(ub - lb) + 2) if vt == 'INTEGER' else 2
        vars_.append([enc_label(l), vt, lb, ub])
    order = list(range(n))
    rng.shuffle(order)          # order in which variables are added to the CQM

    def rand_expr(p_lin=0.6, p_quad=0.3):
        lin = [[i, str(rng.dyadic(6, 1))] for i in range(n) if rng.random() < p_lin]
        quad = []
        for i in range(n):
            for j in range(i, n):
                if i == j and vars_[i][1] != 'INTEGER':
                    continue
                if rng.random() < p_quad:
                    quad.append([i, j, str(rng.dyadic(4, 1))])
        return {"lin": lin, "quad": quad, "off": str(rng.dyadic(6, 1))}
    cons = []
    for _ in range(rng.randint(0, 3)):
        e = rand_expr(0.5, 0.15)
        e["sense"] = rng.choice(['<=', '>=', '=='])
        e["rhs"] = str(rng.dyadic(6, 1))
        cons.append(e)
    return {"kind": "cqm", "vars": vars_, "groups": groups, "order": order, "obj": rand_expr(), "cons": cons,
            "group_first": rng.random() < 0.5,
            # tolerances of sample_cqm: defaults, or dyadic values (satisfied iff violation <= atol + rtol*|rhs|)
            "tol": None if rng.random() < 0.45 else [str(rng.choice([Fraction(0), Fraction(1, 4), Fraction(1, 2), Fraction(1), Fraction(2)])),
                                                      str(rng.choice([Fraction(0), Fraction(1, 8), Fraction(1, 4), Fraction(1, 2), Fraction(1)]))]}


def json_key(x):
    """hashable, sortable stand-in of an encoded label (generator side only)"""
    import json
    return json.dumps(x, sort_keys=True)


def unjson_key(s):
    import json
    return json.loads(s)


# ----------------------------------------------------------------------------
# running
# ----------------------------------------------------------------------------

def trunc_term(l):
    k = {None: "KTruncU", 'energy': "KTruncS", 'num_occurrences': "KTruncOcc"}[l["sorted_by"]]
    return "(%s %s %s)" % (k, cbool(bool(l.get("aggregate"))), cnat(l["n"]))


def dom_term(vt):
    return {'BINARY': 'DBin', 'SPIN': 'DSpin'}[vt]


def vars_term(T, labels, vt):
    return clist([cpair(cnat(T.idx(v)), dom_term(vt)) for v in labels])


def build_quad_args(prob, entry):
    vt = prob["vartype"]
    labels = [dec_label(v) for v in prob["vars"]]
    lin = [(dec_label(v), F(b)) for v, b in prob["lin"]]
    quad = [(dec_label(u), dec_label(v), F(b)) for u, v, b in prob["quad"]]
    if entry == 'sample':
        bqm = dimod.BinaryQuadraticModel(vt)
        for v in labels:
            bqm.add_variable(v)
        for v, b in lin:
            bqm.add_linear(v, float(b))
        for u, v, b in quad:
            bqm.add_quadratic(u, v, float(b))
        bqm.offset = float(F(prob["off"]))
        return (bqm,), labels
    if entry == 'ising':
        h = {v: float(b) for v, b in lin}
        J = {(u, v): float(b) for u, v, b in quad}
        if prob.get("h_list"):
            # documented form: a list of biases, indices are the variable labels
            m = 1 + max([v for v in h] + [x for k in J for x in k], default=-1)
            hl = [h.get(i, 0.0) for i in range(m)]
            return (hl, J), list(range(m))
        used = list(h) + [x for u, v, _ in quad for x in (u, v)]
        return (h, J), [v for v in labels if v in used]
    Q = {(v, v): float(b) for v, b in lin}
    Q.update({(u, v): float(b) for u, v, b in quad})
    used = [x for k in Q for x in k]
    return (Q,), [v for v in labels if v in used]


def make_initial_states(c, variables, vt, kw):
    """initial_states for IdentitySampler / RandomSampler; kw gets 'initial_states' and the
    vartype the implementation must read them in ('_init_vt')"""
    import random
    r = random.Random(c["init_seed"])
    ivt = vt if c["init_vt"] == 'same' else ('SPIN' if vt == 'BINARY' else 'BINARY')
    vals = [0, 1] if ivt == 'BINARY' else [-1, 1]
    order = list(variables)
    r.shuffle(order)
    if c.get("mismatch") == 'drop' and order:
        order = order[1:]
    elif c.get("mismatch") == 'extra':
        # a foreign label: bqm.variables ^ initial_states_variables is a SYMMETRIC difference
        order = order + ['zzz9']
        r.shuffle(order)
    rows = []
    # every eighth case: all-ones states (valid for either vartype, so bool / unsigned arrays are legal initial states of a
    # SPIN problem too - and the 'random' / 'tile' generators must still produce -1, not 255, for the rows they add;
    # round-6 miss C07 r6m3)
    all_ones = (c["init_seed"] % 8 == 3 or (ivt == 'SPIN' and c.get("init_dtype") in ('bool', 'uint8', 'uint16', 'uint32')
                                         and c.get("init_form") != 'dicts' and c["init_seed"] % 4 != 0)) and not c.get("mismatch")
    for _ in range(c["ninit"]):
        row = [r.choice(vals) for _ in order]
        for _try in range(20):      # prefer distinct rows: order / tiling / truncation become visible
            if row not in rows:
                break
            row = [r.choice(vals) for _ in order]
        rows.append([1] * len(order) if all_ones else row)
    if rows and order:
        raw = c.get("init_raw") or c["init_form"] == 'dicts'
        if c.get("mismatch") == 'badvals':
            # raw states whose values show no vartype: a value outside {-1, 0, 1}, or a 0 next to a -1
            raw = True
            i, j = r.randrange(len(rows)), r.randrange(len(order))
            if len(rows) * len(order) >= 2 and r.random() < 0.5:
                i2, j2 = i, j
                while (i2, j2) == (i, j):
                    i2, j2 = r.randrange(len(rows)), r.randrange(len(order))
                rows[i][j], rows[i2][j2] = 0, -1
            else:
                rows[i][j] = r.choice([2, 3, -2])
        if c["init_form"] == 'dicts':
            # every dict in its own key order (as_samples must re-align by LABEL; rotations and longer
            # cycles are not their own inverse)
            init = []
            for row in rows:
                perm = list(range(len(order)))
                if r.random() < 0.5:
                    k = r.randrange(len(order))
                    perm = perm[k:] + perm[:k]
                else:
                    r.shuffle(perm)
                init.append({order[i]: row[i] for i in perm})
        else:
            # every dtype that can represent the values (bool / unsigned only for 0/1)
            dts = ['int8', 'int16', 'int32', 'int64', 'float32', 'float64']
            if ivt == 'BINARY' or (all_ones and rows and order):
                dts += ['bool', 'uint8', 'uint16', 'uint32', 'uint8', 'bool']
            dt = c.get("init_dtype")
            if dt not in dts:
                dt = dts[c["init_seed"] % len(dts)]
            if c.get("mismatch") == 'badvals' and dt in ('bool', 'uint8', 'uint16', 'uint32'):
                dt = 'int8'
            init = (np.array(rows, dtype=np.dtype(dt)), order)
            kw["_init_dtype"] = dt
        if raw:
            # raw samples-like: the vartype is inferred from the values, falling back to the bqm's
            flat = [x for row in rows for x in row]
            kw["initial_states"] = init
            kw["_init_vt"] = 'SPIN' if -1 in flat else 'BINARY' if 0 in flat else vt
            kw["_init_decl"] = None         # raw samples-like: the model infers the vartype from the values
            kw["_init_ls"] = list(order)
            kw["_init_rows"] = rows
        else:
            ss = dimod.SampleSet.from_samples(init, vartype=ivt, energy=[0] * len(rows))
            kw["initial_states"] = ss
            kw["_init_vt"] = ivt
            kw["_init_decl"] = ivt
            kw["_init_ls"] = list(ss.variables)
            kw["_init_rows"] = [[int(x) for x in row] for row in np.asarray(ss.record.sample).tolist()]


def make_bqm_base(c, variables, vt):
    b = c["base"]
    kw = {}
    if b == 'exact':
        s = dimod.ExactSolver()
    elif b == 'random':
        s = dimod.RandomSampler()
        kw = dict(seed=c["seed"])
        if c["num_reads"] is not None:
            kw["num_reads"] = c["num_reads"]
        if c.get("ninit"):
            make_initial_states(c, variables, vt, kw)
    elif b == 'sa':
        import random
        random.seed(c["pyseed"])
        s = dimod.SimulatedAnnealingSampler()
        kw = dict(num_reads=c["num_reads"], num_sweeps=c["num_sweeps"])
        if c.get("beta_range") is not None:
            br = [float(Fraction(x)) for x in c["beta_range"]]
            kw["beta_range"] = tuple(br) if c.get("beta_form") == 'tuple' else br
        ty = c.get("sa_types") or {}
        for k in ("num_reads", "num_sweeps"):
            if ty.get(k) == 'float':
                kw[k] = float(kw[k])
            elif ty.get(k) == 'str':
                kw[k] = str(kw[k])
            elif ty.get(k) == 'npint':
                kw[k] = np.int64(kw[k])           # not an instance of int
        if ty.get("beta") and "beta_range" in kw:
            br = list(kw["beta_range"])
            mk = tuple if c.get("beta_form") == 'tuple' else list
            kw["beta_range"] = {'str': lambda: "12", 'set': lambda: set(br),
                                'itemstr': lambda: mk(br[:-1] + [str(br[-1])]),
                                'itemnone': lambda: mk([None] + br[1:]),
                                'npfloats': lambda: mk(np.float64(x) for x in br)}[ty["beta"]]()   # np.float64 IS a float
    elif b == 'null':
        s = dimod.NullSampler()
    else:
        s = dimod.IdentitySampler()
        kw = dict(initial_states_generator=c["isg"], seed=c["seed"])
        if c["num_reads"] is not None:
            kw["num_reads"] = c["num_reads"]
        make_initial_states(c, variables, vt, kw)
    if c.get("async"):
        s = AsyncBase(s, c["async"])
    return s, kw


def make_structure(l, variables):
    """nodelist / edgelist of a StructureComposite layer"""
    import random
    variables = list(variables)
    if not l.get("partial"):
        if l["sseed"] % 3 == 0:
            # other accepted forms: nodelist as a tuple, edges as 2-lists / in either orientation
            return tuple(variables), [[v, u] if i % 2 else [u, v] for i, (u, v) in enumerate(itertools.combinations(variables, 2))]
        return variables, list(itertools.combinations(variables, 2))
    r = random.Random(l["sseed"])
    nodes = [v for v in variables if r.random() < 0.85] + (['node_x'] if r.random() < 0.3 else [])
    edges = []
    for u, v in itertools.combinations(nodes, 2):
        if r.random() < 0.7:
            edges.append((u, v) if r.random() < 0.5 else (v, u))
    return nodes, edges


def init_term(T, kw, decl, ls, rows):
    """the initial_states argument as given: None, or (vartype a SampleSet declares / None for raw
    states, labels, rows) - the MODEL infers the vartype of raw states and converts"""
    if "initial_states" not in kw:
        return "None"
    d = "None" if decl is None else f"(Some {cbool(decl == 'SPIN')})"
    return "(Some (%s, %s, %s))" % (d, clist([cnat(T.idx(v)) for v in ls]),
                                    clist([clist([cq(F(x)) for x in r]) for r in rows]))


def run_bqm(c):
    from dimod.exceptions import BinaryQuadraticModelStructureError
    entry = c["entry"]
    prob = c["prob"]
    vt = prob["vartype"]
    args, variables = build_quad_args(prob, entry)
    T = LabelTable()
    for v in prob["vars"]:
        T.idx(v)
    feats = {"kind": "bqm", "entry": entry, "base": c["base"], "layers": "+".join(l["t"] for l in c["layers"]),
             "empty_problem": len(variables) == 0, "async": c.get("async")}
    base, kw = make_bqm_base(c, variables, vt)
    init_vt = kw.pop("_init_vt", None)
    init_ls = kw.pop("_init_ls", None)
    init_rows = kw.pop("_init_rows", None)
    init_dtype = kw.pop("_init_dtype", None)
    init_decl = kw.pop("_init_decl", None)
    recs = []
    objs = []
    structs = {}
    s = Rec(base)
    recs.append(s)
    for idx in range(len(c["layers"]) - 1, -1, -1):
        l = c["layers"][idx]
        if l["t"] == 'trunc':
            s = dimod.TruncateComposite(s, l["n"], sorted_by=l["sorted_by"], aggregate=bool(l.get("aggregate")))
        elif l["t"] == 'track':
            s = dimod.TrackingComposite(s, copy=l["copy"])
        else:
            nodes, edges = make_structure(l, variables)
            structs[idx] = (nodes, edges)
            s = dimod.StructureComposite(s, nodes, edges)
        objs.append(s)
        s = Rec(s)
        recs.append(s)
    recs.reverse()     # recs[0] wraps the outermost layer; recs[i+1] is the child of layer i
    objs.reverse()
    top = recs[0]
    raised = None
    ss = None
    try:
        ss = getattr(top, {'sample': 'sample', 'ising': 'sample_ising', 'qubo': 'sample_qubo'}[entry])(*args, **kw)
    except BinaryQuadraticModelStructureError:
        raised = 'structure'
    except ZeroDivisionError as e:
        if c["base"] == 'sa':
            return {"coq": None, "nontrivial": False, "features": dict(feats, sa_zero_division=True),
                    "py_fail": "SimulatedAnnealingSampler raised ZeroDivisionError for valid options: " + str(e)}
        raise
    except TypeError:
        if c["base"] != 'sa' or not c.get("sa_types"):
            raise
        raised = 'TypeError'
    except ValueError as e:
        if c["base"] not in ('identity', 'random', 'sa'):
            raise
        raised = 'ValueError'
        if init_dtype == 'bool' and init_vt == vt and 'unsupported sample dtype' in str(e):
            # BinaryQuadraticModel.energies explicitly rejects boolean sample arrays: bool initial states are
            # only usable when they are converted (BINARY states for a SPIN model are cast to int8 first)
            return {"coq": None, "py_fail": None, "nontrivial": False,
                    "features": dict(feats, raised=raised, bool_states_rejected=True)}
    feats["raised"] = raised
    if ss is not None:
        # a future-backed answer may have travelled up the stack unresolved: complete the futures and
        # resolve it now (the recorders snapshot every layer's answer as it is handed over)
        feats["top_pending"] = not ss.done()
        if isinstance(base, AsyncBase):
            finish(base.pending)
        ss.resolve()
    terms = []
    py_fail = None
    # the submitted problem, as the user wrote it
    if entry == 'sample':
        pterm = bqm_obs_term(T, args[0])
        variables = list(args[0].variables)
    elif entry == 'ising':
        hh = args[0] if isinstance(args[0], dict) else dict(enumerate(args[0]))
        pterm = poly_obs_term(T, 0, list(hh.items()), [(u, v, b) for (u, v), b in args[1].items()])
    else:
        pterm = poly_obs_term(T, 0, [], [(u, v, b) for (u, v), b in args[0].items()])
    spin = vt == 'SPIN'
    vlist = clist([cnat(T.idx(v)) for v in variables])
    # every structure layer that was reached: accept / reject as the model says, child untouched on rejection
    for i, l in enumerate(c["layers"]):
        if l["t"] == 'struct' and recs[i].attempts:
            nodes, edges = structs[i]
            _, _, _, bvars, bquad = inp_parts(*recs[i].attempts[-1])
            rejected = raised == 'structure' and not recs[i + 1].attempts
            terms.append("(CStruct %s %s %s %s %s %s)" % (
                clist([cnat(T.idx(v)) for v in nodes]),
                clist([cpair(cnat(T.idx(u)), cnat(T.idx(v))) for u, v in edges]),
                clist([cnat(T.idx(v)) for v in bvars]),
                clist([cpair(cnat(T.idx(u)), cnat(T.idx(v))) for u, v in bquad]),
                cbool(rejected), cnat(len(recs[i + 1].attempts))))
            feats["struct_rejected"] = feats.get("struct_rejected") or rejected
    # sample_ising / sample_qubo mixin of a composite: the BQM it handed to its own sample method
    for i in range(len(recs) - 1):
        if recs[i].attempts and recs[i + 1].attempts and recs[i].attempts[-1][0] in ('ising', 'qubo') \
                and recs[i + 1].attempts[-1][0] == 'sample':
            m, inp = recs[i].attempts[-1]
            if m == 'ising':
                ht = clist([cpair(cnat(T.idx(v)), cq(F(b))) for v, b in inp[0].items()])
                jt = clist([f"({cnat(T.idx(u))}, {cnat(T.idx(v))}, {cq(F(b))})" for (u, v), b in inp[1].items()])
            else:
                ht = "[]"
                jt = clist([f"({cnat(T.idx(u))}, {cnat(T.idx(v))}, {cq(F(b))})" for (u, v), b in inp.items()])
            terms.append("(CEntry %s %s %s %s %s)" % (cnat(len(T) + 2), cbool(m == 'qubo'), ht, jt,
                                                      bqm_obs_term(T, recs[i + 1].attempts[-1][1])))
    if raised == 'structure' and not feats.get("struct_rejected"):
        py_fail = "BinaryQuadraticModelStructureError raised but no structure layer rejected"
    # the base sampler, on what it was given and what it returned
    base_seen = recs[-1].calls[-1][2] if recs[-1].calls else None
    if recs[-1].attempts:
        _, _, _, bvars, _ = inp_parts(*recs[-1].attempts[-1])
        bvl = clist([cnat(T.idx(v)) for v in bvars])
        seen_t = "None" if base_seen is None else f"(Some {res_term(T, base_seen)})"
        if c["base"] == 'identity' and c["isg"] == 'bogus':
            feats["bogus_generator"] = True
            if raised != 'ValueError':
                py_fail = "IdentitySampler accepted an unknown initial_states_generator"
        elif c["base"] == 'identity':
            g = {'none': 'GNone', 'tile': 'GTile', 'random': 'GRandom'}[c["isg"]]
            if "initial_states" in kw:
                ls, rows = init_ls, init_rows
                for v in ls:
                    T.idx(v)
                conv = 0 if init_vt == vt else (1 if vt == 'BINARY' else 2)
            else:
                ls, rows, conv = list(bvars), [], 0
            nr = "None" if c["num_reads"] is None else f"(Some {cnat(c['num_reads'])})"
            terms.append("(CParse %s %s (PQuad %s) %s %s %s %s)" % (
                g, nr, pterm, cbool(spin), bvl, init_term(T, kw, init_decl, ls, rows), seen_t))
            feats["mismatch"] = c.get("mismatch") if "initial_states" in kw else None
        elif c["base"] == 'random':
            if "initial_states" in kw:
                ls, rows = init_ls, init_rows
                for v in ls:
                    T.idx(v)
                conv = 0 if init_vt == vt else (1 if vt == 'BINARY' else 2)
            else:
                ls, rows, conv = list(bvars), [], 0
            nreads = c["num_reads"]
            if nreads is None:
                # not passed: the default of RandomSampler.sample's signature (read from the signature,
                # the number itself is not part of the property)
                import inspect
                nreads = inspect.signature(dimod.RandomSampler.sample).parameters["num_reads"].default
            terms.append("(CParse GRandom (Some %s) (PQuad %s) %s %s %s %s)" % (
                cnat(nreads), pterm, cbool(spin), bvl, init_term(T, kw, init_decl, ls, rows), seen_t))
            feats["mismatch"] = c.get("mismatch") if "initial_states" in kw else None
            if base_seen is not None:
                terms.append(f"(CFromRows (PQuad {pterm}) {bvl} {res_term(T, base_seen)})")
        if c["base"] == 'sa':
            brt = "None" if c.get("beta_range") is None else "(Some %s)" % clist([cq(Fraction(x)) for x in c["beta_range"]])
            ty = c.get("sa_types") or {}
            if not ty:
                terms.append(f"(CSaCall {cz(c['num_reads'])} {brt} {cz(c['num_sweeps'])} {cbool(raised == 'ValueError')})")

            def iarg(k):
                return "ANotInt" if ty.get(k) in ('float', 'str', 'npint') else f"(AInt {cz(c[k])})"
            if c.get("beta_range") is None:
                bt = "BDefault"
            elif ty.get("beta") in ('str', 'set'):
                bt = "BNotSeq"
            else:
                items = [f"(BNum {cq(Fraction(x))})" for x in c["beta_range"]]
                if ty.get("beta") == 'itemstr':
                    items[-1] = "BNotNum"
                elif ty.get("beta") == 'itemnone':
                    items[0] = "BNotNum"
                bt = f"(BSeq {clist(items)})"
            seen = {None: 'Accept', 'structure': 'Accept', 'ValueError': 'RaiseValueError', 'TypeError': 'RaiseTypeError'}[raised]
            terms.append(f"(CSaOutcome {iarg('num_reads')} {bt} {iarg('num_sweeps')} {seen})")
            feats["sa_rejected"] = raised
            feats["sa_types"] = bool(ty)
        if c["base"] in ('identity', 'random'):
            pass
        elif raised is None or base_seen is not None:
            if False:
                pass
            elif c["base"] == 'sa':
                terms.append(f"(CSa {cbool(not spin)} {bvl} {pterm} {res_term(T, base_seen)})")
                terms.append(f"(CFromRows (PQuad {pterm}) {bvl} {res_term(T, base_seen)})")
            elif c["base"] == 'null':
                terms.append(f"(CNull {bvl} {res_term(T, base_seen)})")
    if raised is None:
        final = snap(ss)
        if final["vartype"] != vt:
            py_fail = f"sample set vartype {final['vartype']} != problem vartype {vt}"
        terms.insert(0, f"(CPost (PQuad {pterm}) {vars_term(T, variables, vt)} {res_term(T, final)})")
        # layers: result of layer i = what recs[i] returned; its child returned recs[i+1]
        outs = [r.calls[-1][2] if r.calls else None for r in recs]
        if any(o is None for o in outs):
            py_fail = "a layer did not call its child"
        else:
            for i, l in enumerate(c["layers"]):
                if l["t"] == 'trunc':
                    k = trunc_term(l)
                elif l["t"] == 'track':
                    tr = objs[i]
                    tm, tinp = tracked_method(tr.inputs[-1]) if tr.inputs else (None, None)
                    if tm is None or tm != recs[i].attempts[-1][0]:
                        py_fail = "TrackingComposite did not record the call"
                        k = "KPass"
                    else:
                        k = "(KTrack %s %s %s %s %s)" % (cnat(len(T) + 2), cnat(len(tr.inputs)),
                                                          inp_term(T, *recs[i].attempts[-1]), inp_term(T, tm, tinp),
                                                          res_term(T, snap(tr.outputs[-1])))
                        if len(tr.outputs) != len(tr.inputs):
                            py_fail = "TrackingComposite inputs/outputs differ in length"
                else:
                    k = "KPass"
                terms.append(f"(CComp {k} {res_term(T, outs[i + 1])} {res_term(T, outs[i])})")
            if c["base"] == 'exact':
                call = recs[-1].calls[-1]
                if call[0] == 'sample':
                    order = list(call[1].variables)
                elif call[0] == 'ising':
                    order = list(dimod.BinaryQuadraticModel.from_ising(*call[1]).variables)
                else:
                    order = list(dimod.BinaryQuadraticModel.from_qubo(call[1]).variables)
                if set(map(repr, order)) != set(map(repr, variables)):
                    py_fail = f"the solver was given variables {order!r}, the problem has {variables!r}"
                else:
                    terms.append(f"(CExact (PQuad {pterm}) {cbool(spin)} {clist([cnat(T.idx(v)) for v in order])} {res_term(T, outs[-1])})")
    if not terms:
        return {"coq": None, "py_fail": py_fail, "features": feats, "nontrivial": False}
    return {"coq": terms[0], "extra_coq": terms[1:], "py_fail": py_fail, "features": feats,
            "nontrivial": len(variables) > 0 and raised is None,
            "observed": {"final": str(snap(ss))[:2000] if ss is not None else raised}}


def fold_selfloops(lin, quad):
    lin = list(lin)
    q2 = []
    for u, v, b in quad:
        if u == v:
            lin.append((u, b))
        else:
            q2.append((u, v, b))
    return lin, q2


def run_mixin(c):
    """stack of single-method samplers: c['upper'] (outermost first) over c['which'], the innermost
    solving exactly and answering with a plain sample set or (c['fut']) one built on a future"""
    entry, prob = c["entry"], c["prob"]
    vt = prob["vartype"]
    args, variables = build_quad_args(prob, entry)
    T = LabelTable()
    for v in prob["vars"]:
        T.idx(v)
    fut = c.get("fut")
    pending = []
    names = list(c.get("upper") or []) + [c["which"]]
    s = None
    stack = []
    for i, w in enumerate(reversed(names)):
        cls = IsingOnly if w == 'isingonly' else QuboOnly
        if s is None:
            s = cls(int_energies=bool(c.get("int_child")), fut=fut, pending=pending)
        else:
            s = cls(child=s, pending=pending)
        stack.append(s)
    stack.reverse()                  # stack[0] is the outermost sampler
    ss = getattr(s, {'sample': 'sample', 'ising': 'sample_ising', 'qubo': 'sample_qubo'}[entry])(*args)
    py_fail = None
    was_pending = not ss.done()
    expect_pending = fut in ('pending', 'lazy', 'hook', 'nonblocking')
    if was_pending != expect_pending:
        py_fail = f"done() of the returned sample set is {not was_pending} for a child answering with future mode {fut!r}"
    if expect_pending and any("child" in r for x in stack for r in x.calls):
        py_fail = py_fail or "the sample method resolved the child's future (the mixins must not block)"
    finish(pending)
    final = snap(ss)
    if entry == 'sample':
        bqm = args[0]
        variables = list(bqm.variables)
        lin, quad, off = list(bqm.linear.items()), [(u, v, b) for (u, v), b in bqm.quadratic.items()], bqm.offset
        pterm = poly_obs_term(T, off, lin, quad)
    elif entry == 'ising':
        lin, quad, off = list(args[0].items()), [(u, v, b) for (u, v), b in args[1].items()], 0
        pterm = poly_obs_term(T, 0, lin, quad)
    else:
        raw = [(u, v, b) for (u, v), b in args[0].items()]
        pterm = poly_obs_term(T, 0, [], raw)
        lin, quad = fold_selfloops([], raw)
        off = 0
    vs = clist([cnat(T.idx(v)) for v in variables])
    if final["vartype"] != vt:
        py_fail = py_fail or f"sample set vartype {final['vartype']} != problem vartype {vt}"
    terms = [f"(CPost (PQuad {pterm}) {vars_term(T, variables, vt)} {res_term(T, final)})"]
    # level by level: the problem the level's .sample received, what its implemented method was sent,
    # what that method's sample set held when it was resolved, what the level's .sample returned
    sub = poly_obs_term(T, off, lin, quad)
    sub_vt = vt
    res = final
    levels = []
    dirs = []
    for i, x in enumerate(stack):
        if len(x.calls) != 1 or "child" not in x.calls[-1]:
            py_fail = py_fail or f"level {i} of the stack was not called exactly once / never resolved"
            break
        call = x.calls[-1]
        if names[i] == 'isingonly':
            sent = poly_obs_term(T, 0, list(call["h"].items()), [(u, v, b) for (u, v), b in call["J"].items()])
            d = 'BinaryViaIsing' if sub_vt == 'BINARY' else 'SameVartype'
            next_vt = 'SPIN'
        else:
            l2, q2 = fold_selfloops([], [(u, v, b) for (u, v), b in call["Q"].items()])
            sent = poly_obs_term(T, 0, l2, q2)
            d = 'SpinViaQubo' if sub_vt == 'SPIN' else 'SameVartype'
            next_vt = 'BINARY'
        child = call["child"]
        terms.append(f"(CMixin {d} {cnat(len(T))} {vs} {sub} {sent} {res_term(T, child)} {res_term(T, res)})")
        levels.append(cpair(d, sub))
        dirs.append(d)
        sub, sub_vt, res = bqm_obs_term(T, call["bqm"]), next_vt, child
    else:
        kind = stack[-1].kind
        kt = "FNone" if kind is None else f"(FObject {cbool(kind[0])} {cbool(kind[1])})"
        # innermost level first
        terms.append(f"(CStack {kt} {cbool(was_pending)} {vs} {clist(list(reversed(levels)))} "
                     f"{res_term(T, stack[-1].calls[-1]['child'])} {res_term(T, final)})")
    last = stack[-1].calls[-1] if stack[-1].calls else {}
    feats = {"kind": "mixin", "which": c["which"], "entry": entry, "dir": "+".join(dirs), "fut": fut,
             "upper": len(names) - 1, "was_pending": was_pending,
             "int_child_energies": bool(last.get("child", {}).get("energies_dtype_int"))}
    return {"coq": terms[0], "extra_coq": terms[1:], "py_fail": py_fail, "features": feats,
            "nontrivial": len(variables) > 0, "observed": {"final": str(final)[:2000]}}


def frac_or_pair(x):
    if isinstance(x, list):
        return (float(Fraction(x[0])), float(Fraction(x[1])))
    return float(Fraction(x))


def rng_term(x):
    if isinstance(x, list):
        return f"(RPair {cq(Fraction(x[0]))} {cq(Fraction(x[1]))})"
    return f"(RNum {cq(Fraction(x))})"


def scale_raise_term(l, raised):
    sc = copt(cq(F(l["scalar"]))) if l.get("scalar") is not None else "None"
    br = l.get("bias_range", "1") or "1"
    prt = "None" if l.get("poly_range") is None else f"(Some {rng_term(l['poly_range'])})"
    return f"(CScaleRaise {sc} {rng_term(br)} {prt} {cbool(raised)})"


def run_poly(c):
    entry = c["entry"]
    vt = c["poly"]["vartype"]
    terms = [(tuple(dec_label(x) for x in t), F(b)) for t, b in c["poly"]["terms"]]
    T = LabelTable()
    variables = []
    for t, _ in terms:
        for x in t:
            T.idx(x)
        # a variable that cancels inside a term (s*s = 1) is not a variable of the problem through that term
        kept = [x for x in t if t.count(x) % 2 == 1] if vt == 'SPIN' else list(t)
        for x in kept:
            if not any(x == y and type(x) is type(y) for y in variables):
                variables.append(x)
    feats = {"kind": "poly", "entry": entry, "hoc": bool(c["hoc"]), "layers": "+".join(l["t"] for l in c["layers"]),
             "has_const": any(len(t) == 0 for t, _ in terms), "base": c.get("base", "exactpoly"), "async": c.get("async"),
             "raw_keys": any(len(set(map(repr, t))) != len(t) for t, _ in terms) or "h_keys" in c["poly"]}
    kw = {}
    bqm_rec = None
    if c["hoc"]:
        base, bkw = make_bqm_base(c, variables, vt)
        for k in ('initial_states', '_init_vt', '_init_ls', '_init_rows', '_init_dtype', '_init_decl'):
            bkw.pop(k, None)       # the reduced BQM has auxiliary variables the initial states do not cover
        bqm_rec = Rec(base)
        s = dimod.HigherOrderComposite(bqm_rec)
        kw.update(bkw)
        if not c["hoc"]["defaults"]:
            kw.update(penalty_strength=float(F(c["hoc"]["penalty_strength"])),
                      keep_penalty_variables=c["hoc"]["keep"], discard_unsatisfied=c["hoc"]["discard"])
        feats["keep"] = (not c["hoc"]["defaults"]) and c["hoc"]["keep"]
    else:
        s = dimod.ExactPolySolver()
        if c.get("async"):
            s = AsyncPolyBase(s, c["async"])
    recs = [PolyRec(s)]
    s = recs[0]
    for l in reversed(c["layers"]):
        if l["t"] == 'scale':
            s = dimod.PolyScaleComposite(s)
            for k in ('scalar', 'bias_range', 'poly_range'):
                if l.get(k) is not None:
                    kw[k] = frac_or_pair(l[k])
            if l.get("ignored") is not None:
                kw["ignored_terms"] = [tuple(dec_label(x) for x in t) for t in l["ignored"]]
        elif l["t"] == 'fixed':
            s = dimod.PolyFixedVariableComposite(s)
            if l["fixed"] is not None:
                kw["fixed_variables"] = {dec_label(v): x for v, x in l["fixed"]}
        else:
            s = dimod.PolyTruncateComposite(s, l["n"], sorted_by=l["sorted_by"], aggregate=bool(l.get("aggregate")))
        s = PolyRec(s)
        recs.append(s)
    recs.reverse()
    top = recs[0]
    if entry == 'poly':
        poly = dimod.BinaryPolynomial({t: float(b) for t, b in terms}, vt)
        call = lambda: top.sample_poly(poly, **kw)
    elif entry == 'hising':
        if "h_keys" in c["poly"]:
            want = [dec_label(x) for x in c["poly"]["h_keys"]]
            hk = set()
            for i, (t, b) in enumerate(terms):
                if len(t) == 1 and any(t[0] == w and type(t[0]) is type(w) for w in want) \
                        and not any(terms[j][0] == t for j in hk):
                    hk.add(i)
        else:
            hk = {i for i, (t, _) in enumerate(terms) if len(t) == 1}
        h = {t[0]: float(b) for i, (t, b) in enumerate(terms) if i in hk}
        J = {t: float(b) for i, (t, b) in enumerate(terms) if i not in hk}
        call = lambda: top.sample_hising(h, J, **kw)
    else:
        H = {t: float(b) for t, b in terms}
        call = lambda: top.sample_hubo(H, **kw)
    try:
        ss = call()
    except Exception as e:
        feats["raised"] = type(e).__name__ + ": " + str(e)[:80]
        if isinstance(e, ZeroDivisionError):
            # BinaryPolynomial.normalize divides by every bound of the ranges: the model says when
            sl = [l for l in c["layers"] if l["t"] == 'scale']
            if sl:
                return {"coq": scale_raise_term(sl[0], True), "features": dict(feats, zero_bound=True),
                        "nontrivial": False, "py_fail": None, "observed": {"raised": feats["raised"]}}
        # PolyFixedVariableComposite whose child returned no rows while some variable is left unfixed
        for i, l in enumerate(c["layers"]):
            if l["t"] == 'fixed' and l.get("fixed") and recs[i + 1].calls and not recs[i + 1].calls[-1][1]["rows"] \
                    and isinstance(e, KeyError):
                feats["fixed_over_empty_child"] = True
        return {"coq": None, "features": feats, "nontrivial": False,
                "py_fail": "a valid stack raised instead of returning a sample set: " + feats["raised"],
                "observed": {"raised": feats["raised"]}}
    feats["top_pending"] = not ss.done()
    for b_ in (recs[-1].child, getattr(bqm_rec, 'child', None)):
        if isinstance(b_, (AsyncBase, AsyncPolyBase)):
            finish(b_.pending)
    final = snap(ss)
    py_fail = None
    if final["vartype"] != vt:
        py_fail = f"sample set vartype {final['vartype']} != problem vartype {vt}"
    hp = hp_term(T, terms)
    keep = bool(c["hoc"]) and feats.get("keep")
    exp_vars = list(variables)
    red = []
    if c["hoc"] and bqm_rec.calls:
        bqm = bqm_rec.calls[-1][1]
        for (u, v), d in bqm.info.get('reduction', {}).items():
            red.append((u, v, d['product']))
        if keep:
            for v in bqm.variables:
                T.idx(v)
                if not any(v == y and type(v) is type(y) for y in exp_vars):
                    exp_vars.append(v)
    out_terms = [f"(CPostRaw {hp} {vars_term(T, exp_vars, vt)} {res_term(T, final)})"]
    outs = [r.calls[-1][1] if r.calls else None for r in recs]
    inps = [r.calls[-1][0] if r.calls else None for r in recs]
    if any(o is None for o in outs):
        py_fail = py_fail or "a layer did not call its child"
    else:
        # what the outermost layer received must be the submitted polynomial
        cur = inps[0][0]
        out_terms.append(f"(CEntryPoly {cbool(vt == 'SPIN')} {hp} {hp_term(T, cur)})")
        for i, l in enumerate(c["layers"]):
            orig = hp_term(T, inps[i][0])
            sent = hp_term(T, inps[i + 1][0])
            if l["t"] == 'scale':
                sc = copt(cq(F(l["scalar"]))) if l.get("scalar") is not None else "None"
                br = l.get("bias_range", "1") or "1"
                lr = parse_range(br)
                pr = parse_range(l["poly_range"]) if l.get("poly_range") is not None else lr
                ign = clist([clist([cnat(T.idx(dec_label(x))) for x in t]) for t in (l.get("ignored") or [])])
                out_terms.append(scale_raise_term(l, False))
                prt = "None" if l.get("poly_range") is None else f"(Some {rng_term(l['poly_range'])})"
                k = (f"(KScale {orig} {sc} {rng_term(br)} {prt} {ign} {sent})")
            elif l["t"] == 'fixed':
                fs = clist([cpair(cnat(T.idx(dec_label(v))), cq(x)) for v, x in (l["fixed"] or [])])
                k = f"(KFixed {orig} {fs} {sent})"
            else:
                k = trunc_term(l)
            out_terms.append(f"(CComp {k} {res_term(T, outs[i + 1])} {res_term(T, outs[i])})")
        inner_terms, inner_vt, inner_vars = inps[-1]
        if c["hoc"]:
            if bqm_rec.calls:
                child = bqm_rec.calls[-1][2]
                pv = clist([cnat(T.idx(v)) for v in inner_vars])
                redt = clist([f"({cnat(T.idx(u))}, {cnat(T.idx(v))}, {cnat(T.idx(p))})" for u, v, p in red])
                kd = ("None", "None") if c["hoc"]["defaults"] else (f"(Some {cbool(c['hoc']['keep'])})",
                                                                    f"(Some {cbool(c['hoc']['discard'])})")
                out_terms.append(f"(CComp (KPolymorph {hp_term(T, inner_terms)} {pv} {redt} {kd[0]} {kd[1]}) "
                                 f"{res_term(T, child)} {res_term(T, outs[-1])})")
        else:
            order = inner_vars
            out_terms.append(f"(CExact (PPoly {hp_term(T, inner_terms)}) {cbool(vt == 'SPIN')} "
                             f"{clist([cnat(T.idx(v)) for v in order])} {res_term(T, outs[-1])})")
            feats["empty_problem"] = len(order) == 0
    return {"coq": out_terms[0], "extra_coq": out_terms[1:], "py_fail": py_fail, "features": feats,
            "nontrivial": len(variables) > 0, "observed": {"final": str(final)[:2000]}}


def run_dqm(c):
    labels = [dec_label(l) for l in c["labels"]]
    d = dimod.DiscreteQuadraticModel()
    for l, k in zip(labels, c["ncases"]):
        d.add_variable(k, l)
    for i, l in enumerate(labels):
        for ci, b in enumerate(c["lin"][i]):
            d.set_linear_case(l, ci, float(F(b)))
    for i, ci, j, cj, b in c["quad"]:
        d.set_quadratic_case(labels[i], ci, labels[j], cj, float(F(b)))
    d.offset = float(F(c["off"]))
    stride = 8
    lin, quad = [], []
    for i, l in enumerate(labels):
        for ci, b in enumerate(d.get_linear(l)):
            lin.append((i * stride + ci, F(b)))
    for i in range(len(labels)):
        for j in range(i + 1, len(labels)):
            try:
                q = d.get_quadratic(labels[i], labels[j])
            except Exception:
                q = {}
            for (ci, cj), b in q.items():
                quad.append((i * stride + ci, j * stride + cj, F(b)))
    p = "(mkPoly %s %s %s)" % (cq(F(d.offset)), clist([cpair(cnat(a), cq(b)) for a, b in lin]),
                               clist([f"({cnat(a)}, {cnat(b)}, {cq(x)})" for a, b, x in quad]))
    ss = dimod.ExactDQMSolver().sample_dqm(d)
    final = snap(ss)
    T = LabelTable(list(d.variables))
    py_fail = None
    if final["vartype"] not in ('DISCRETE', 'INTEGER'):     # DISCRETE is an alias of INTEGER
        py_fail = "vartype is not DISCRETE"
    nc = clist([cnat(d.num_cases(v)) for v in d.variables])
    coq = f"(CExactDqm {p} {cnat(stride)} {nc} {res_term(T, final)})"
    return {"coq": coq, "py_fail": py_fail, "features": {"kind": "dqm", "empty_problem": not labels},
            "nontrivial": bool(labels), "observed": {"final": str(final)[:2000]}}


def run_cqm(c):
    vars_ = c["vars"]
    labels = [dec_label(v[0]) for v in vars_]
    cqm = dimod.ConstrainedQuadraticModel()

    def add_var(i):
        l, vt, lb, ub = vars_[i]
        if vt == 'INTEGER':
            cqm.add_variable(vt, dec_label(l), lower_bound=lb, upper_bound=ub)
        else:
            cqm.add_variable(vt, dec_label(l))
    glabels = []
    if c["group_first"]:
        for g in c["groups"]:
            glabels.append(cqm.add_discrete([labels[i] for i in g], label=f"d{len(glabels)}"))
    for i in c["order"]:
        if labels[i] not in cqm.variables:
            add_var(i)

    def build(e):
        qm = dimod.QuadraticModel()
        used = {i for i, _ in e["lin"]} | {i for t in e["quad"] for i in t[:2]}
        for i in sorted(used):
            l, vt, lb, ub = vars_[i]
            if vt == 'INTEGER':
                qm.add_variable(vt, dec_label(l), lower_bound=lb, upper_bound=ub)
            else:
                qm.add_variable(vt, dec_label(l))
        for i, b in e["lin"]:
            qm.add_linear(labels[i], float(F(b)))
        for i, j, b in e["quad"]:
            qm.add_quadratic(labels[i], labels[j], float(F(b)))
        qm.offset = float(F(e["off"]))
        return qm
    cqm.set_objective(build(c["obj"]))
    clabels = []
    for k, e in enumerate(c["cons"]):
        clabels.append(cqm.add_constraint_from_model(build(e), e["sense"], rhs=float(F(e["rhs"])), label=f"c{k}"))
    if not c["group_first"]:
        for g in c["groups"]:
            glabels.append(cqm.add_discrete([labels[i] for i in g], label=f"d{len(glabels)}"))
    T = LabelTable(labels)
    tol = c.get("tol")
    if tol is None:
        ss = dimod.ExactCQMSolver().sample_cqm(cqm)
        tol_t = "None"
    else:
        atol, rtol = F(tol[0]), F(tol[1])
        ss = dimod.ExactCQMSolver().sample_cqm(cqm, rtol=float(rtol), atol=float(atol))
        tol_t = f"(Some ({cq(atol)}, {cq(rtol)}))"
    final = snap(ss)
    py_fail = None
    if len(cqm.variables) and final["vartype"] != 'INTEGER':
        py_fail = "vartype is not INTEGER"
    # the problem as the CQM object reports it
    vt_terms = []
    frac = False
    for v in cqm.variables:
        vt = cqm.vartype(v).name
        if vt == 'INTEGER':
            lb, ub = F(cqm.lower_bound(v)), F(cqm.upper_bound(v))
            d = f"(DIntQ {cq(lb)} {cq(ub)})"       # enumerated by the generated range(ceil(lb), floor(ub)+1) rule
            if lb.denominator != 1 or ub.denominator != 1:
                frac = True
        else:
            d = dom_term(vt)
        vt_terms.append(cpair(cnat(T.idx(v)), d))
    groups = [list(cqm.constraints[d].lhs.variables) for d in cqm.discrete]
    gt = clist([clist([cnat(T.idx(v)) for v in g]) for g in groups])

    def expr_term(e):
        return poly_obs_term(T, e.offset, list(e.linear.items()), [(u, v, b) for (u, v), b in e.quadratic.items()])
    cons = []
    for lab, cmp_ in cqm.constraints.items():
        sn = {'<=': 'Le', '>=': 'Ge', '==': 'Eq'}[cmp_.sense.value]
        cons.append(f"({expr_term(cmp_.lhs)}, {sn}, {cq(F(cmp_.rhs))})")
    feas = clist([cbool(bool(x)) for x in ss.record.is_feasible]) if len(ss) else "[]"
    coq = (f"(CExactCqm {expr_term(cqm.objective)} {clist(vt_terms)} {gt} {clist(cons)} {tol_t} "
           f"{res_term(T, final)} {feas})")
    feats = {"kind": "cqm", "empty_problem": len(cqm.variables) == 0, "discrete": len(groups),
             "spin": any(v[1] == 'SPIN' for v in vars_), "neg_lb": any(v[1] == 'INTEGER' and v[2] < 0 for v in vars_),
             "frac_bounds": frac, "tol": tol is not None}
    return {"coq": coq, "py_fail": py_fail, "features": feats, "nontrivial": bool(labels),
            "observed": {"final": str(final)[:2000]}}


def run_case(c):
    k = c["kind"]
    if k == 'bqm':
        return run_bqm(c)
    if k == 'mixin':
        return run_mixin(c)
    if k == 'poly':
        return run_poly(c)
    if k == 'dqm':
        return run_dqm(c)
    return run_cqm(c)


if __name__ == "__main__":
    wlib.main(gen_case, run_case)
