PID = "C03"
WORKER = "w_c03"
HEADER = "From Coq Require Import List ZArith QArith Qcanon.\nFrom Dimod Require Import Base.Util Model.Poly Model.HPoly Model.ChkC03.\nFrom Dimod Require Model.Expr.\nImport ListNotations."
CHECK_FN = "check"
N_QUICK = 1600
N_THOROUGH = 40000
SHRINK_KEYS = ["fixes", "exprs", "terms"]
RULE = ("random BQM (float64/float32/object), QM, CQM (in-place one-by-one, in-place bulk, copying path) and BinaryPolynomial "
        "models with dyadic coefficients, squared integer terms, constants, variables missing from some expressions; a random "
        "subset of variables is fixed; BQMs are also fixed through the live view of the opposite vartype, labels are sometimes the default range 0..n-1, CQMs carry a discrete constraint half of the time (is_discrete() compared after both paths), and for CQMs the raw index-level state before/after is fed to the "
        "copy-path / in-place-path models; expressions keep their own (shuffled) variable order, `fixed` is given as dict / list of pairs / one-shot generator, zip or list iterator (CQM both paths, BQM on 3 dtypes and through views, QM), nothing or everything may be fixed, QMs also in float32 storage, "
        "the model returned by fix_variables(inplace=False) is edited afterwards to show it shares no state with the receiver, and PolyFixedVariableComposite.sample_poly is run over ExactPolySolver "
        "(every returned row carries the fixed values and has the energy of the ORIGINAL polynomial; all variables fixed / nothing fixed / fixed_variables=None included); a case is non-trivial when the model has at least one term; distinct by canonical JSON of the case")
TRUSTED = ["model: coq/theories/Model/Poly.v, HPoly.v, ChkC03.v (hand written, tied by this correspondence); code-shaped models Model/FixPy.v (views/quadratic.py loop) and Model/FixCopy.v over Model/Expr.v (constrained_quadratic_model.h fix_variables / fix_variables_expr and the in-place path with shifted indices), run on the raw expression state (_iindices/_ilinear/_iquadratic, varinfo) observed before and compared with the raw state observed after",
           "float arithmetic of the implementation is exact on the generated dyadic data (not verified)"]
ASSUMPTIONS = ["the coefficients a model reports (linear, quadratic, offset) define its energy (that is property C01)",
               "IEEE-754 arithmetic is exact on the small dyadic coefficients generated"]
PARTIAL = []
