"""C08 worker: all feasibility / violation entry points of a CQM on the real implementation."""
from fractions import Fraction
import itertools
import numpy as np
import dimod

import wlib
from wlib import cq, clist, cnat, cpair, cbool, copt
import gen
from gen import F, enc_label, dec_label, LabelTable, coq_obs

TOLS = ["0", "1/1024", "1/4", "1"]
SENSE = {'<=': 'Le', '>=': 'Ge', '==': 'Eq'}


DTYPES = ['int8', 'int16', 'int32', 'int64', 'uint8', 'uint16', 'uint32', 'uint64', 'float32', 'float64']


def rand_value(rng, v):
    _, vt, lb, ub = v
    if vt == 'SPIN':
        return rng.choice([-1, 1])
    lb, ub = int(lb), int(ub)
    if ub - lb > 8:
        # wide integer domains: the ends, values around the signed maxima of every width, anything
        cands = [lb, ub, 127, 128, 200, 255, 256, 32767, 32768, 40000, 65535, rng.randint(lb, ub), rng.randint(lb, ub)]
        return rng.choice([x for x in cands if lb <= x <= ub])
    return rng.randint(lb, ub)


def fitting_dtypes(rows):
    flat = [x for r in rows for x in r]
    lo, hi = min(flat), max(flat)
    out = []
    for d in DTYPES:
        if d.startswith('float'):
            if hi < 2 ** 24 and lo > -2 ** 24:
                out.append(d)
        else:
            info = np.iinfo(d)
            if info.min <= lo and hi <= info.max:
                out.append(d)
    return out


def rand_expr(rng, vars_, integer, allow_quad=True):
    coef = (lambda: Fraction(rng.randint(-4, 4))) if integer else (lambda: rng.dyadic(6, 1))
    if rng.random() < 0.12:
        return {"lin": [], "quad": [], "off": str(coef())}           # constant only
    sub = [v for v in vars_ if rng.random() < 0.7] or [rng.choice(vars_)]
    lin = [[v[0], str(coef())] for v in sub]
    quad = []
    if allow_quad and rng.random() < 0.4:
        for i in range(len(sub)):
            for j in range(i, len(sub)):
                if i == j and sub[i][1] != 'INTEGER':
                    continue
                if rng.random() < 0.4:
                    quad.append([sub[i][0], sub[j][0], str(coef())])
    return {"lin": lin, "quad": quad, "off": str(coef()) if rng.random() < 0.6 else "0"}


def gen_case(rng, tier):
    nv = rng.randint(1, 5)
    labels = gen.rand_labels(rng, nv)
    vars_ = []
    for l in labels:
        vt = rng.choice(['BINARY', 'BINARY', 'SPIN', 'INTEGER'])
        if vt == 'INTEGER':
            if rng.random() < 0.3:
                lb = 0; ub = rng.choice([200, 255, 300, 40000, 65535])     # wide: exercised through unsigned / narrow arrays
            else:
                lb = rng.choice([0, 0, -1]); ub = lb + rng.choice([1, 2])
        elif vt == 'SPIN':
            lb, ub = -1, 1
        else:
            lb, ub = 0, 1
        vars_.append([enc_label(l), vt, lb, ub])
    default_tol = rng.random() < 0.25
    integer = default_tol or rng.random() < 0.4
    obj = rand_expr(rng, vars_, integer)
    cons = []
    for _ in range(rng.randint(0, 4)):
        e = rand_expr(rng, vars_, integer)
        e["sense"] = rng.choice(['<=', '>=', '=='])
        e["rhs"] = str(Fraction(rng.randint(-4, 5)) if integer or rng.random() < 0.6 else rng.dyadic(6, 1))
        if rng.random() < 0.45:
            e["weight"] = str(Fraction(rng.randint(1, 6), 1 if integer else rng.choice([1, 2])))
            e["penalty"] = rng.choice(['linear', 'quadratic'])
        cons.append(e)
    rows = [[rand_value(rng, v) for v in vars_] for _ in range(rng.randint(1, 6))]
    fit = fitting_dtypes(rows)
    # unsigned and narrow types first when they fit: those are the ones conversions get wrong
    pref = [d for d in fit if d.startswith('u')] * 3 + fit
    c = {"vars": vars_, "obj": obj, "cons": cons, "rows": rows,
         "form": rng.choice(['dict', 'array', 'array', 'array']), "dtype": rng.choice(pref),
         "atol": None if default_tol else rng.choice(TOLS), "rtol": None if default_tol else rng.choice(TOLS),
         "exact": rng.random() < 0.5}
    return c


def expr_qm(e, vinfo):
    qm = dimod.QuadraticModel()
    used = [t[0] for t in e["lin"]] + [x for t in e["quad"] for x in t[:2]]
    for l in used:
        _, vt, lb, ub = vinfo[repr(l)]
        if dec_label(l) in qm.variables:
            continue
        if vt == 'INTEGER':
            qm.add_variable(vt, dec_label(l), lower_bound=lb, upper_bound=ub)
        else:
            qm.add_variable(vt, dec_label(l))
    for l, b in e["lin"]:
        qm.add_linear(dec_label(l), float(F(b)))
    for u, v, b in e["quad"]:
        qm.add_quadratic(dec_label(u), dec_label(v), float(F(b)))
    qm.offset = float(F(e["off"]))
    return qm


def build(c):
    cqm = dimod.ConstrainedQuadraticModel()
    vinfo = {repr(v[0]): v for v in c["vars"]}
    for l, vt, lb, ub in c["vars"]:
        if vt == 'INTEGER':
            cqm.add_variable(vt, dec_label(l), lower_bound=lb, upper_bound=ub)
        else:
            cqm.add_variable(vt, dec_label(l))
    cqm.set_objective(expr_qm(c["obj"], vinfo))
    labels = []
    for i, e in enumerate(c["cons"]):
        kw = {}
        if "weight" in e:
            pen = e["penalty"]
            used = [t[0] for t in e["lin"]] + [x for t in e["quad"] for x in t[:2]]
            if pen == 'quadratic' and any(vinfo[repr(l)][1] == 'INTEGER' for l in used):
                pen = 'linear'
            kw = dict(weight=float(F(e["weight"])), penalty=pen)
        labels.append(cqm.add_constraint_from_model(expr_qm(e, vinfo), e["sense"], rhs=float(F(e["rhs"])),
                                                    label=f"c{i}", **kw))
    return cqm, labels


def nq(pairs, pos):
    return clist([cpair(cnat(pos[l]), cq(F(v))) for l, v in pairs])


def run_case(c):
    cqm, labels = build(c)
    T = LabelTable([v[0] for v in c["vars"]])
    pos = {l: i for i, l in enumerate(labels)}
    default_tol = c["atol"] is None
    atol = F(0) if default_tol else F(c["atol"])
    rtol = F(0) if default_tol else F(c["rtol"])
    tk = {} if default_tol else {"atol": float(atol), "rtol": float(rtol)}
    py_fail = None
    if list(cqm.constraints) != labels:
        py_fail = "constraint order differs from insertion order"
    cons = []
    any_soft = False
    for l in labels:
        con = cqm.constraints[l]
        if con.lhs.is_soft():
            any_soft = True
            soft = f"(Some ({cq(F(con.lhs.weight()))}, {'PLinear' if con.lhs.penalty() == 'linear' else 'PQuadratic'}))"
        else:
            soft = "None"
            if con.lhs.weight() != float('inf'):
                py_fail = "hard constraint with finite weight"
        cons.append(f"({coq_obs(gen.observe(con.lhs), T)}, {SENSE[con.sense.value]}, {cq(F(con.rhs))}, {soft})")
    cvars = [dec_label(v[0]) for v in c["vars"]]
    samples = [dict(zip(cvars, r)) for r in c["rows"]]
    form = c.get("form", 'dict' if len(samples) % 2 else 'array')
    dtype = np.dtype(c.get("dtype", 'int8' if len(samples) % 4 else 'float64'))
    if form == 'dict':
        sl = samples
    else:
        sl = (np.array(c["rows"], dtype=dtype).reshape(len(samples), len(cvars)), cvars)
        if [[int(x) for x in r] for r in sl[0]] != [list(r) for r in c["rows"]]:
            raise RuntimeError("generated rows are not representable in the chosen dtype")
    ss = dimod.SampleSet.from_samples_cqm(sl, cqm, **tk)
    if ss.info.get('constraint_labels') != labels:
        py_fail = "info['constraint_labels'] differs from the constraint order"
    rows = []
    soft_violated_feasible = False
    for k in range(len(ss.record)):
        rec = ss.record[k]
        sd = {v: int(rec.sample[i]) for i, v in enumerate(ss.variables)}
        if sd != samples[k]:
            py_fail = "from_samples_cqm reordered or changed the samples"
        # the per-sample entry points get the sample in the same form (a one-row array of the same dtype)
        s = sd if form == 'dict' else (np.array([c["rows"][k]], dtype=dtype), cvars)
        data = list(cqm.iter_constraint_data(s))
        if [d.label for d in data] != labels:
            py_fail = "iter_constraint_data labels/order"
        if any(SENSE[d.sense.value] != SENSE[cqm.constraints[d.label].sense.value] for d in data):
            py_fail = "iter_constraint_data sense"
        viol = cqm.violations(s)
        if list(viol) != labels:
            py_fail = "violations() keys/order"
        vclip = list(cqm.iter_violations(s, clip=True))
        vskip = list(cqm.iter_violations(s, skip_satisfied=True))
        vboth = list(cqm.iter_violations(s, skip_satisfied=True, clip=True))
        if dict(cqm.iter_violations(s)) != viol or cqm.violations(s, clip=True) != dict(vclip) \
                or cqm.violations(s, skip_satisfied=True) != dict(vskip):
            py_fail = "violations() differs from iter_violations()"
        cf = cqm.check_feasible(s, **tk)
        if (not cf) and bool(rec.is_feasible):
            soft_violated_feasible = True
        sample = clist([cpair(cnat(T.idx(enc_label(v))), cq(a)) for v, a in sd.items()])
        rdata = clist([f"({cq(F(d.lhs_energy))}, {cq(F(d.rhs_energy))}, {cq(F(d.activity))}, {cq(F(d.violation))})" for d in data])
        rows.append(f"(mkRow {sample} {rdata} {nq(viol.items(), pos)} {nq(vclip, pos)} {nq(vskip, pos)} {nq(vboth, pos)} "
                    f"{cbool(cf)} {clist([cbool(b) for b in rec.is_satisfied])} {cbool(rec.is_feasible)} {cq(F(rec.energy))})")
    xrows = []
    dom = 1
    for l, vt, lb, ub in c["vars"]:
        dom *= (int(ub) - int(lb) + 1) if vt != 'SPIN' else 2
    if c.get("exact") and dom <= 250:
        xs = dimod.ExactCQMSolver().sample_cqm(cqm, **tk)
        if len(xs.record) != dom:
            py_fail = f"ExactCQMSolver returned {len(xs.record)} rows for {dom} assignments"
        for k in range(len(xs.record)):
            rec = xs.record[k]
            sample = clist([cpair(cnat(T.idx(enc_label(v))), cq(int(rec.sample[i]))) for i, v in enumerate(xs.variables)])
            xrows.append(f"(mkXRow {sample} {clist([cbool(b) for b in rec.is_satisfied])} {cbool(rec.is_feasible)} {cq(F(rec.energy))})")
    strict = bool(c.get("cf_strict"))
    coq = (f"(mkCase {coq_obs(gen.observe(cqm.objective), T)} {clist(cons)} {cq(atol)} {cq(rtol)} {cbool(strict)} "
           f"{clist(rows)} {clist(xrows)})")
    feats = {"default_tol": default_tol, "soft": any_soft, "exact": bool(xrows), "form": form,
             "dtype": dtype.name if form != 'dict' else None}
    if strict and soft_violated_feasible:
        feats["check_feasible_counts_soft"] = True
    return {"coq": coq, "py_fail": py_fail, "features": feats, "nontrivial": len(labels) > 0,
            "observed": {"is_feasible": str(ss.record.is_feasible), "energy": str(ss.record.energy)}}


if __name__ == "__main__":
    wlib.main(gen_case, run_case)
