"""C08 worker: all feasibility / violation entry points of a CQM on the real implementation.

Coverage (which stream reaches which clause of the property text):
  every CQM        labels: mixed pool | 0..n-1 added in ascending order | 0..n-1 added in ANY order | integers not at
                   their own index ("labels");  variables declared up-front or entering through the objective /
                   the constraints in order of first use, expression terms in shuffled order ("preadd", "shuf");
                   variables only in constraints / only in the objective / in neither; BINARY, SPIN, small and wide INTEGER
  all senses, soft/hard, linear/quadratic penalty, constant-only     rand_expr / gen_case (unchanged)
  all samples      forms ("form"): list of dicts (key order = column order) | (ndarray, labels) | (list of lists, labels)
                   | unlabelled ndarray | unlabelled list of lists (only for 0..n-1 labels) | SampleSet
                   | list of dicts (some given as (row, labels)) EACH WITH ITS OWN key order
                   (rotations = non-self-inverse permutations included; as_samples re-aligns them to the first; the same
                   objects as an ITERATOR go through objective.energies);
                   the COLUMN ORDER is a random permutation independent of the model's order ("cols"), with columns the
                   model does not know ("extra"); per-sample entry points get a one-row matrix, a 1-d row or a dict
                   ("single"); every sample dtype that can hold the values; zero rows ("rows": []);
                   a model label missing from the samples ("drop": ValueError exactly when an expression needs it)
  all tolerances   {0, 1/1024, 1/4, 1}^2 or the defaults
  entry points     violations, iter_violations x (skip_satisfied, clip), iter_constraint_data, check_feasible,
                   from_samples_cqm (is_satisfied, is_feasible, energy), objective.energies, ExactCQMSolver
The sample handed to Coq is the INPUT (column labels + values as passed in), never what the implementation echoes back.
"""
from fractions import Fraction
import itertools
import numpy as np
import dimod

import wlib
from wlib import cq, clist, cnat, cpair, cbool, copt
import gen
from gen import F, enc_label, dec_label, LabelTable, coq_obs

TOLS = ["0", "1/1024", "1/4", "1"]
SENSE = {'<=': 'Le', '>=': 'Ge', '==': 'Eq'}


DTYPES = ['int8', 'int16', 'int32', 'int64', 'uint8', 'uint16', 'uint32', 'uint64', 'float32', 'float64']


def rand_value(rng, v):
    _, vt, lb, ub = v
    if vt == 'SPIN':
        return rng.choice([-1, 1])
    lb, ub = int(lb), int(ub)
    if ub - lb > 8:
        # wide integer domains: the ends, values around the signed maxima of every width, anything
        cands = [lb, ub, 127, 128, 200, 255, 256, 32767, 32768, 40000, 65535, rng.randint(lb, ub), rng.randint(lb, ub)]
        return rng.choice([x for x in cands if lb <= x <= ub])
    return rng.randint(lb, ub)


def fitting_dtypes(rows):
    flat = [x for r in rows for x in r]
    lo, hi = min(flat), max(flat)
    out = []
    for d in DTYPES:
        if d.startswith('float'):
            if hi < 2 ** 24 and lo > -2 ** 24:
                out.append(d)
        else:
            info = np.iinfo(d)
            if info.min <= lo and hi <= info.max:
                out.append(d)
    return out


def rand_expr(rng, vars_, integer, allow_quad=True):
    coef = (lambda: Fraction(rng.randint(-4, 4))) if integer else (lambda: rng.dyadic(6, 1))
    if rng.random() < 0.12:
        return {"lin": [], "quad": [], "off": str(coef())}           # constant only
    sub = [v for v in vars_ if rng.random() < 0.7] or [rng.choice(vars_)]
    lin = [[v[0], str(coef())] for v in sub]
    quad = []
    if allow_quad and rng.random() < 0.4:
        for i in range(len(sub)):
            for j in range(i, len(sub)):
                if i == j and sub[i][1] != 'INTEGER':
                    continue
                if rng.random() < 0.4:
                    quad.append([sub[i][0], sub[j][0], str(coef())])
    return {"lin": lin, "quad": quad, "off": str(coef()) if rng.random() < 0.6 else "0"}


def gen_labels(rng, nv):
    r = rng.random()
    if r < 0.3:
        return gen.rand_labels(rng, nv)                 # mixed kinds
    if r < 0.6:
        l = list(range(nv)); rng.shuffle(l); return l   # 0..n-1, added in any order
    if r < 0.72:
        return list(range(nv))                          # 0..n-1 in order: every label at its own index
    return rng.sample(range(0, nv + 2), nv)             # integers, some not at their own index, gaps


EXTRA_LABELS = ['zz', ('t', 9), 11, 'q']


def gen_case(rng, tier):
    nv = rng.randint(1, 5)
    labels = gen_labels(rng, nv)
    vars_ = []
    for l in labels:
        vt = rng.choice(['BINARY', 'BINARY', 'SPIN', 'INTEGER'])
        if vt == 'INTEGER':
            if rng.random() < 0.3:
                lb = 0; ub = rng.choice([200, 255, 300, 40000, 65535])     # wide: exercised through unsigned / narrow arrays
            else:
                lb = rng.choice([0, 0, -1]); ub = lb + rng.choice([1, 2])
        elif vt == 'SPIN':
            lb, ub = -1, 1
        else:
            lb, ub = 0, 1
        vars_.append([enc_label(l), vt, lb, ub])
    default_tol = rng.random() < 0.25
    integer = default_tol or rng.random() < 0.4
    obj = rand_expr(rng, vars_, integer)
    cons = []
    for _ in range(rng.randint(0, 4)):
        e = rand_expr(rng, vars_, integer)
        e["sense"] = rng.choice(['<=', '>=', '=='])
        e["rhs"] = str(Fraction(rng.randint(-4, 5)) if integer or rng.random() < 0.6 else rng.dyadic(6, 1))
        if rng.random() < 0.45:
            e["weight"] = str(Fraction(rng.randint(1, 6), 1 if integer else rng.choice([1, 2])))
            e["penalty"] = rng.choice(['linear', 'quadratic'])
        elif not integer and not e["quad"] and rng.random() < 0.25:
            # a HARD, linear constraint violated (or satisfied) by far less than any 'reasonable' tolerance but not by zero:
            # 2**-30 next to small dyadics is exact in binary64 as long as nothing is squared (so: no penalty, no products)
            e["off"] = str(Fraction(e["off"]) + Fraction(rng.choice([1, -1]), 2 ** 30))
        cons.append(e)
    rows = [[rand_value(rng, v) for v in vars_] for _ in range(rng.randint(1, 6))]
    if rng.random() < 0.03:
        rows = []
    fit = fitting_dtypes(rows or [[0]])
    # unsigned and narrow types first when they fit: those are the ones conversions get wrong
    pref = [d for d in fit if d.startswith('u')] * 3 + fit
    c = {"vars": vars_, "obj": obj, "cons": cons, "rows": rows,
         # constraint labels are arbitrary hashables: besides 'c<i>', integers next to their string forms and tuples (labels
         # that NumPy would coerce to one string: np.isin / np.array over them confuses 1 with '1'; round-6 miss C08 r6m3)
         "clab": rng.choice(['c', 'c', 'lookalike', 'lookalike', 'mixed']),
         "form": rng.choice(['dict', 'array', 'array', 'array', 'list', 'sampleset']), "dtype": rng.choice(pref),
         "atol": None if default_tol else rng.choice(TOLS), "rtol": None if default_tol else rng.choice(TOLS),
         "exact": rng.random() < 0.5}
    # how the variables enter the model, and in which order the terms of each expression are added
    c["preadd"] = rng.random() < 0.5
    c["shuf"] = rng.randrange(1 << 30) if rng.random() < 0.6 else None
    # the columns of the samples: a permutation of the model's labels chosen independently of the model's order
    cols = [v[0] for v in vars_]
    if rng.random() < 0.6:
        rng.shuffle(cols)
    isrange = all(isinstance(l, int) for l in labels) and sorted(labels) == list(range(nv))
    unl = isrange and rng.random() < 0.5
    if unl:
        cols = list(range(nv))
        c["form"] = rng.choice(['unlabelled', 'unlabelled', 'unlabelled_list'])
    if rng.random() < 0.2:
        if unl or (isrange and rng.random() < 0.5):
            cols = cols + [nv]                           # still a plain range, one column more than the model has
        else:
            ex = [enc_label(x) for x in EXTRA_LABELS if x not in labels]
            cols.insert(rng.randint(0, len(cols)), rng.choice(ex))
    elif not unl and rows and rng.random() < 0.08:
        c["drop"] = True
        cols.remove(rng.choice(cols))                    # a model label the samples do not have
    c["cols"] = cols
    if not unl and c["form"] in ('dict', 'list', 'array') and rng.random() < 0.45:
        c["form"] = 'dicts_own'      # every sample in its own label order (dicts, some as (row, labels))
        c["permseed"] = rng.randrange(1 << 30)
    c["single"] = rng.choice(['same', 'same', '1d', 'dict'])
    return c


def expr_qm(e, vinfo, shuf=None):
    qm = dimod.QuadraticModel()
    if shuf is not None:
        import random
        r = random.Random(shuf)
        e = dict(e, lin=list(e["lin"]), quad=[list(t) for t in e["quad"]])
        r.shuffle(e["lin"]); r.shuffle(e["quad"])
        for t in e["quad"]:
            if r.random() < 0.5:
                t[0], t[1] = t[1], t[0]
        if e["quad"] and r.random() < 0.5:
            used = [x for t in e["quad"] for x in t[:2]] + [t[0] for t in e["lin"]]
        else:
            used = [t[0] for t in e["lin"]] + [x for t in e["quad"] for x in t[:2]]
    else:
        used = [t[0] for t in e["lin"]] + [x for t in e["quad"] for x in t[:2]]
    for l in used:
        _, vt, lb, ub = vinfo[repr(l)]
        if dec_label(l) in qm.variables:
            continue
        if vt == 'INTEGER':
            qm.add_variable(vt, dec_label(l), lower_bound=lb, upper_bound=ub)
        else:
            qm.add_variable(vt, dec_label(l))
    for l, b in e["lin"]:
        qm.add_linear(dec_label(l), float(F(b)))
    for u, v, b in e["quad"]:
        qm.add_quadratic(dec_label(u), dec_label(v), float(F(b)))
    qm.offset = float(F(e["off"]))
    return qm


CLABELS = {'lookalike': [1, '1', 0, '0', 2, '2', 3, '3', 4, '4', 5, '5'],
           'mixed': [('k', 0), 0, 'c1', '0', ('k', 1), 7, '7', 'x', 1, '1', 'c9', 9]}


def clabel(c, i):
    tab = CLABELS.get(c.get("clab", 'c'))
    return tab[i] if tab and i < len(tab) else f"c{i}"


def build(c):
    cqm = dimod.ConstrainedQuadraticModel()
    vinfo = {repr(v[0]): v for v in c["vars"]}
    shuf = c.get("shuf")

    def declare():
        for l, vt, lb, ub in c["vars"]:
            if dec_label(l) in cqm.variables:
                continue
            if vt == 'INTEGER':
                cqm.add_variable(vt, dec_label(l), lower_bound=lb, upper_bound=ub)
            else:
                cqm.add_variable(vt, dec_label(l))
    if c.get("preadd", True):
        declare()
    cqm.set_objective(expr_qm(c["obj"], vinfo, shuf))
    labels = []
    for i, e in enumerate(c["cons"]):
        kw = {}
        if "weight" in e:
            pen = e["penalty"]
            used = [t[0] for t in e["lin"]] + [x for t in e["quad"] for x in t[:2]]
            if pen == 'quadratic' and any(vinfo[repr(l)][1] == 'INTEGER' for l in used):
                pen = 'linear'
            kw = dict(weight=float(F(e["weight"])), penalty=pen)
        labels.append(cqm.add_constraint_from_model(expr_qm(e, vinfo, None if shuf is None else shuf + i + 1),
                                                    e["sense"], rhs=float(F(e["rhs"])), label=clabel(c, i), **kw))
    declare()          # variables used nowhere come last
    return cqm, labels


def nq(pairs, pos):
    return clist([cpair(cnat(pos[l]), cq(F(v))) for l, v in pairs])


def xexpr_term(target, cqm):
    """raw state of an objective / constraint view: parent indices + biases over local indices"""
    idx = [int(x) for x in target._iindices()]
    pv = list(cqm.variables)
    rvts = clist([cqm.vartype(pv[i]).name for i in idx])
    rlin = clist([cq(F(x)) for x in target._ilinear()])
    rquad = clist([f"({cnat(int(u))}, {cnat(int(v))}, {cq(F(b))})" for u, v, b in target._iquadratic()])
    return f"(mkX {clist([cnat(i) for i in idx])} (qm_of_raw {rvts} {rlin} {rquad} {cq(F(target.offset))}))"


def own_order(cols, seed, k):
    """label order of sample k in the forms where every sample has its own: the first keeps `cols`, later ones are
    rotated (a non-self-inverse permutation for >= 3 labels), shuffled or left alone"""
    if k == 0 or seed is None or len(cols) < 2:
        return list(cols)
    import random
    r = random.Random(seed + k)
    mode = r.choice(['rot', 'rot', 'shuffle', 'same'])
    if mode == 'rot':
        j = r.randint(1, len(cols) - 1)
        return list(cols[j:]) + list(cols[:j])
    out = list(cols)
    if mode == 'shuffle':
        r.shuffle(out)
    return out


def make_samples_like(form, mat, cols, dtype, rls=None):
    """the samples-like object of the given form for the matrix `mat` (rows x cols); rls = per-row label orders"""
    n = len(cols)
    if form in ('dicts_own', 'rows_own'):
        cpos = {repr(v): i for i, v in enumerate(cols)}
        out = []
        for r, ls in zip(mat, rls):
            vals = [r[cpos[repr(v)]] for v in ls]
            # a list with at least one dict may mix dicts and (row, labels) samples; the first stays a dict
            as_dict = form == 'dicts_own' and (len(out) == 0 or (len(out) + len(ls) + sum(vals)) % 3 != 0)
            out.append(dict(zip(ls, vals)) if as_dict else (vals, list(ls)))
        return out
    if form == 'dict':
        return [dict(zip(cols, r)) for r in mat]
    if form == 'array':
        return (np.array(mat, dtype=dtype).reshape(len(mat), n), cols)
    if form == 'list':
        return ([list(r) for r in mat], cols) if mat else (np.empty((0, n), dtype=dtype), cols)
    if form == 'unlabelled':
        return np.array(mat, dtype=dtype).reshape(len(mat), n)
    if form == 'unlabelled_list':
        return [list(r) for r in mat] if mat else np.empty((0, n), dtype=dtype)
    if form == 'sampleset':
        return dimod.SampleSet.from_samples((np.array(mat, dtype=dtype).reshape(len(mat), n), cols),
                                            energy=[0] * len(mat), vartype='INTEGER')
    raise RuntimeError(form)


def single_like(form, single, row, cols, dtype):
    if form in ('dicts_own', 'rows_own'):
        # row / cols are already in the sample's own order
        return dict(zip(cols, row)) if form == 'dicts_own' or single == 'dict' else (list(row), list(cols))
    if single == 'dict' and form not in ('unlabelled', 'unlabelled_list'):
        return dict(zip(cols, row))
    if single == '1d':
        if form in ('unlabelled', 'sampleset'):
            return np.array(row, dtype=dtype) if form == 'unlabelled' else (np.array(row, dtype=dtype), cols)
        if form == 'unlabelled_list':
            return list(row)
        if form == 'array':
            return (np.array(row, dtype=dtype), cols)
        if form == 'list':
            return (list(row), cols)
        return dict(zip(cols, row))
    sl = make_samples_like(form, [row], cols, dtype)
    return sl[0] if form == 'dict' else sl


def run_case(c):
    cqm, labels = build(c)
    T = LabelTable([v[0] for v in c["vars"]])
    pos = {l: i for i, l in enumerate(labels)}
    default_tol = c["atol"] is None
    atol = F(0) if default_tol else F(c["atol"])
    rtol = F(0) if default_tol else F(c["rtol"])
    tk = {} if default_tol else {"atol": float(atol), "rtol": float(rtol)}
    py_fail = None
    if list(cqm.constraints) != labels:
        py_fail = "constraint order differs from insertion order"
    cons = []
    xcons = []
    any_soft = False
    for l in labels:
        con = cqm.constraints[l]
        if con.lhs.is_soft():
            any_soft = True
            soft = f"(Some ({cq(F(con.lhs.weight()))}, {'PLinear' if con.lhs.penalty() == 'linear' else 'PQuadratic'}))"
        else:
            soft = "None"
            if con.lhs.weight() != float('inf'):
                py_fail = "hard constraint with finite weight"
        cons.append(f"({coq_obs(gen.observe(con.lhs), T)}, {SENSE[con.sense.value]}, {cq(F(con.rhs))}, {soft})")
        xcons.append(f"(mkXCon {xexpr_term(con.lhs, cqm)} {SENSE[con.sense.value]} {cq(F(con.rhs))} {soft})")
    mvars = [dec_label(v[0]) for v in c["vars"]]
    if sorted(map(repr, cqm.variables)) != sorted(map(repr, mvars)):
        py_fail = "the model's variables are not the declared ones"
    # the samples AS PASSED IN: column labels (any order, extra columns, possibly one model label missing) and values
    cols = [dec_label(l) for l in c["cols"]] if "cols" in c else list(mvars)
    form = c.get("form", 'dict' if len(c["rows"]) % 2 else 'array')
    single = c.get("single", 'same')
    dtype = np.dtype(c.get("dtype", 'int8' if len(c["rows"]) % 4 else 'float64'))
    mpos = {repr(v): i for i, v in enumerate(mvars)}
    mat = [[r[mpos[repr(col)]] if repr(col) in mpos else (k + j) % 2 for j, col in enumerate(cols)]
           for k, r in enumerate(c["rows"])]
    if form in ('array', 'unlabelled', 'sampleset') and mat:
        if [[int(x) for x in r] for r in np.array(mat, dtype=dtype)] != mat:
            raise RuntimeError("generated rows are not representable in the chosen dtype")
    if form in ('unlabelled', 'unlabelled_list') and cols != list(range(len(cols))):
        raise RuntimeError("unlabelled samples need columns 0..n-1")
    own = form in ('dicts_own', 'rows_own')
    rls = [own_order(cols, c.get("permseed"), k) if own else cols for k in range(len(mat))]
    cpos = {repr(v): i for i, v in enumerate(cols)}
    omat = [[mat[k][cpos[repr(v)]] for v in rls[k]] for k in range(len(mat))]      # values in each sample's own order
    sl = make_samples_like(form, mat, cols, dtype, rls)
    xm = (f"(mkXCqm {clist([cnat(T.idx(enc_label(v))) for v in cqm.variables])} {xexpr_term(cqm.objective, cqm)} "
          f"{clist(xcons)})")
    ls = clist([cnat(T.idx(enc_label(v))) for v in (rls[0] if mat else cols)])     # as_samples: the first sample's labels
    cls_ = clist([cnat(T.idx(enc_label(v))) for v in cols])
    cmat = [clist([cq(x) for x in r]) for r in mat]
    missing = [v for v in mvars if repr(v) not in set(map(repr, cols))]
    feats = {"default_tol": default_tol, "soft": any_soft, "form": form, "single": single,
             "dtype": dtype.name if form in ('array', 'unlabelled', 'sampleset') else None,
             "cols_in_model_order": [repr(x) for x in cols] == [repr(x) for x in cqm.variables],
             "range_labels": all(isinstance(v, int) for v in mvars) and sorted(mvars) == list(range(len(mvars))),
             "labels_at_own_index": all(isinstance(v, int) and v == i for i, v in enumerate(cqm.variables)),
             "own_orders": own and any([repr(x) for x in l] != [repr(x) for x in rls[0]] for l in rls),
             "extra_cols": len(cols) + len(missing) - len(mvars), "dropped": bool(missing), "rows": len(mat)}
    if missing and not mat:
        # zero rows and a missing label: which path from_samples_cqm takes depends on len(samples_like); not compared
        return {"coq": None, "py_fail": py_fail, "features": feats, "nontrivial": False}
    if missing:
        # a model label is missing: ValueError exactly when an evaluated expression needs it
        ps_raised = []
        for k, row in enumerate(mat):
            s = single_like(form, single, omat[k], rls[k], dtype)
            outs = []
            for f in (lambda: cqm.violations(s), lambda: list(cqm.iter_constraint_data(s)),
                      lambda: cqm.check_feasible(s, **tk)):
                try:
                    f(); outs.append(False)
                except ValueError:
                    outs.append(True)
            if outs[0] != outs[1]:
                py_fail = "violations() and iter_constraint_data() do not raise alike on a missing label"
            if outs[2] and not outs[0]:
                py_fail = "check_feasible raised where iter_constraint_data did not"
            ps_raised.append(outs[1])
        try:
            dimod.SampleSet.from_samples_cqm(sl, cqm, **tk); vec_raised = False
        except ValueError:
            vec_raised = True
        if vec_raised or any(ps_raised):
            lhs = clist([coq_obs(gen.observe(cqm.constraints[l].lhs), T) for l in labels])
            coq = (f"(mkRCase {cnat(len(T))} {coq_obs(gen.observe(cqm.objective), T)} {lhs} {xm} {cls_} {clist(cmat)} "
                   f"{clist([cbool(b) for b in ps_raised])} {cbool(vec_raised)})")
            feats["raised"] = True
            return {"coq": coq, "check_fn": "check_raise", "py_fail": py_fail, "features": feats, "nontrivial": True}
    ss = dimod.SampleSet.from_samples_cqm(sl, cqm, **tk)
    if 'constraint_labels' not in ss.info and len(ss.record) == 0:
        # the zero-row early return of from_samples_cqm does not fill info['constraint_labels'] (reported, not part of C08)
        feats["empty_without_constraint_labels"] = True
    elif ss.info.get('constraint_labels') != labels:
        py_fail = "info['constraint_labels'] differs from the constraint order"
    if len(ss.record) != len(mat):
        py_fail = "from_samples_cqm changed the number of rows"
    if ss.record.is_satisfied.shape != (len(mat), len(labels)) or ss.record.is_satisfied.dtype != np.bool_:
        py_fail = "is_satisfied has the wrong shape / dtype"
    obj_en = [F(x) for x in cqm.objective.energies(sl)] if mat else []
    if own and mat:
        # the same samples as an ITERATOR, and as an iterator of (row, labels) samples only
        # (a (row, labels) sample with NO columns is an empty 1-d array: it cannot say whether it is one sample of zero
        # variables or no sample at all - the list form of it is refused by as_samples - so that form needs a column)
        if [F(x) for x in cqm.objective.energies(iter(sl))] != obj_en \
                or (cols and [F(x) for x in cqm.objective.energies(iter(make_samples_like('rows_own', mat, cols, dtype, rls)))] != obj_en):
            py_fail = "objective.energies(iterator of samples) differs from energies(list of the same samples)"
    rows = []
    soft_violated_feasible = False
    for k in range(len(mat)):
        rec = ss.record[k]
        sd = {repr(v): int(rec.sample[i]) for i, v in enumerate(ss.variables)}
        if sd != {repr(v): a for v, a in zip(cols, mat[k])}:
            py_fail = "from_samples_cqm reordered or changed the samples"
        s = single_like(form, single, omat[k], rls[k], dtype)
        data = list(cqm.iter_constraint_data(s))
        if [d.label for d in data] != labels:
            py_fail = "iter_constraint_data labels/order"
        if any(SENSE[d.sense.value] != SENSE[cqm.constraints[d.label].sense.value] for d in data):
            py_fail = "iter_constraint_data sense"
        viol = cqm.violations(s)
        if list(viol) != labels:
            py_fail = "violations() keys/order"
        # the `labels=` keyword: a sub-list of the constraints in another order
        sub = labels[::-2]
        key = lambda d: (d.label, d.lhs_energy, d.rhs_energy, d.sense, d.activity, d.violation)
        full = {d.label: key(d) for d in data}
        if [key(d) for d in cqm.iter_constraint_data(s, labels=sub)] != [full[l] for l in sub]:
            py_fail = "iter_constraint_data(labels=...) differs from the full data / the requested order"
        if list(cqm.iter_violations(s, labels=sub)) != [(l, viol[l]) for l in sub]:
            py_fail = "iter_violations(labels=...) differs from violations() / the requested order"
        vclip = list(cqm.iter_violations(s, clip=True))
        vskip = list(cqm.iter_violations(s, skip_satisfied=True))
        vboth = list(cqm.iter_violations(s, skip_satisfied=True, clip=True))
        # skip_satisfied drops exactly the constraints whose violation is <= 0 (no tolerance is documented), clip floors at 0
        if vskip != [(l, v) for l, v in cqm.iter_violations(s) if v > 0]:
            py_fail = "iter_violations(skip_satisfied=True) is not the list of constraints with a positive violation"
        if vboth != [(l, v) for l, v in vclip if v > 0]:
            py_fail = "iter_violations(skip_satisfied=True, clip=True) is not the list of constraints with a positive violation"
        if dict(cqm.iter_violations(s)) != viol or cqm.violations(s, clip=True) != dict(vclip) \
                or cqm.violations(s, skip_satisfied=True) != dict(vskip):
            py_fail = "violations() differs from iter_violations()"
        cf = cqm.check_feasible(s, **tk)
        if (not cf) and bool(rec.is_feasible):
            soft_violated_feasible = True
        rdata = clist([f"({cq(F(d.lhs_energy))}, {cq(F(d.rhs_energy))}, {cq(F(d.activity))}, {cq(F(d.violation))})" for d in data])
        rl = clist([cnat(T.idx(enc_label(v))) for v in rls[k]])
        rows.append(f"(mkRow {rl} {clist([cq(x) for x in omat[k]])} {rdata} {nq(viol.items(), pos)} {nq(vclip, pos)} {nq(vskip, pos)} {nq(vboth, pos)} "
                    f"{cbool(cf)} {clist([cbool(b) for b in rec.is_satisfied])} {cbool(rec.is_feasible)} {cq(F(rec.energy))})")
    xrows = []
    dom = 1
    for l, vt, lb, ub in c["vars"]:
        dom *= (int(ub) - int(lb) + 1) if vt != 'SPIN' else 2
    if c.get("exact") and dom <= 250:
        xs = dimod.ExactCQMSolver().sample_cqm(cqm, **tk)
        if len(xs.record) != dom:
            py_fail = f"ExactCQMSolver returned {len(xs.record)} rows for {dom} assignments"
        if len(set(map(tuple, xs.record.sample.tolist()))) != dom:
            py_fail = "ExactCQMSolver returned repeated assignments"
        for k in range(len(xs.record)):
            rec = xs.record[k]
            sample = clist([cpair(cnat(T.idx(enc_label(v))), cq(int(rec.sample[i]))) for i, v in enumerate(xs.variables)])
            xrows.append(f"(mkXRow {sample} {clist([cbool(b) for b in rec.is_satisfied])} {cbool(rec.is_feasible)} {cq(F(rec.energy))})")
    strict = bool(c.get("cf_strict"))
    cobj = coq_obs(gen.observe(cqm.objective), T)
    coq = (f"(mkCase {cnat(len(T))} {cobj} {clist(cons)} {xm} {ls} {clist([cq(x) for x in obj_en])} "
           f"{cq(atol)} {cq(rtol)} {cbool(strict)} {clist(rows)} {clist(xrows)})")
    feats["exact"] = bool(xrows)
    if strict and soft_violated_feasible:
        feats["check_feasible_counts_soft"] = True
    return {"coq": coq, "py_fail": py_fail, "features": feats, "nontrivial": len(labels) > 0,
            "observed": {"is_feasible": str(ss.record.is_feasible), "energy": str(ss.record.energy)}}


if __name__ == "__main__":
    wlib.main(gen_case, run_case)
