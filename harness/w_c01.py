"""C01 worker: energies of every model class under every samples_like encoding.

Coverage (property clause -> stream):
  BQM float64 / float32 / object storage     kinds bqm64 / bqm32 / bqmobj (+ raw adjacency / _adj dicts fed to the loop models)
  float32 accumulation                       "big_f32": float32 BQM / QM with biases +-2**24, +-2**25, +-1, 3 (exact singly, partial
                                             sums not representable in float32): the energy is the exact sum
  spin / binary views                        kind view, over a float64, float32 or object base ("vdtype")
  QM                                         kind qm, float64 and float32 storage ("qdtype")
  CQM objective / constraint / constant      cqm_obj / cqm_con / cqm_const, parent order shuffled, after a history of
                                             remove_variable / fix_variable / relabel_variables on the parent and of
                                             remove_variable on the EXPRESSION itself ("xremove": the variable stays in the CQM,
                                             later slots shift; reads and energies must still agree)
  DQM                                        kind dqm: dict, labelled array, SampleSet; case out of range; a variable omitted
  BinaryPolynomial                           kind poly: labelled array in any column order, dict, a variable omitted
  sample forms                               dict, (array, labels) in a random column order with extra columns and narrow /
                                             unsigned dtypes, list of dicts in differing key orders, SampleSet, the deprecated
                                             (mapping, labels), an UNLABELLED array / list of rows / single flat row for models
                                             labelled range(n) ("unlabelled"), zero rows ("zero_rows")
  SampleSet storage                          float / int8 / int64 sample arrays, also a future-backed (pending) SampleSet
  entry points                               energies on every case; energy (singular) whenever exactly one row is given;
                                             the dtype= keyword of BQM / QM / view energies ("dtype_kw")
  degenerate shapes                          0 variables, constant-only expression, no interactions, squared integer terms
  rejection                                  a model variable omitted ("missing", every class), DQM case out of range
"""
from fractions import Fraction
import warnings
import numpy as np
import dimod

warnings.simplefilter('ignore', DeprecationWarning)

import wlib
from wlib import cq, clist, cnat, cz, cpair, copt
import gen
from gen import F, enc_label, dec_label, LabelTable, coq_obs, fs

KINDS = ['bqm64', 'bqm32', 'bqmobj', 'view', 'qm', 'cqm_obj', 'cqm_con', 'cqm_const', 'dqm', 'poly', 'dicts', 'dicts']
FORMS = ['dict', 'array', 'array_extra', 'dicts', 'sampleset', 'missing', 'mapping_labels']   # + 'unlabelled' for range labels


def sample_value(rng, vt, lb, ub):
    if vt == 'BINARY':
        return rng.choice([0, 1])
    if vt == 'SPIN':
        return rng.choice([-1, 1])
    if vt == 'INTEGER':
        if rng.random() < 0.15:
            return rng.choice([128, 200, 255, 40000])      # beyond int8 / int16: exercises unsigned sample dtypes
        return rng.randint(int(lb), int(ub))
    return float(rng.choice([Fraction(lb), Fraction(ub), Fraction(lb) + Fraction(1, 2), Fraction(lb) + Fraction(1, 4)]))


def gen_case(rng, tier):
    kind = rng.choice(KINDS)
    if kind == 'dicts':
        n = rng.randint(1, 5)
        labels = gen.rand_labels(rng, n)
        rows = []
        for _ in range(rng.randint(1, 4)):
            order = list(labels)
            rng.shuffle(order)
            rows.append([[enc_label(l), rng.randint(-3, 3)] for l in order])
        if rng.random() < 0.15 and n > 1:
            rows[-1] = rows[-1][:-1] + [[enc_label('zz'), 1]]       # label set mismatch -> ValueError
        return {"kind": kind, "rows": rows}
    if kind == 'poly':
        n = rng.randint(0, 5)
        labels = gen.rand_labels(rng, n)
        vartype = rng.choice(['BINARY', 'SPIN'])
        terms = []
        if rng.random() < 0.5:
            terms.append([[], str(rng.dyadic())])
        for _ in range(rng.randint(0, 6)):
            if n == 0:
                break
            k = rng.randint(1, min(4, n))
            terms.append([[enc_label(x) for x in rng.sample(labels, k)], str(rng.dyadic())])
        vals = [[rng.choice([0, 1] if vartype == 'BINARY' else [-1, 1]) for _ in labels] for _ in range(rng.randint(1, 3))]
        order = list(range(n))
        rng.shuffle(order)
        return {"kind": kind, "vartype": vartype, "terms": terms, "labels": [enc_label(l) for l in labels],
                "vals": vals, "order": order, "pform": rng.choice(['array', 'array', 'dict', 'missing'])}
    if kind == 'dqm':
        n = rng.randint(0, 4)
        labels = gen.rand_labels(rng, n)
        ncases = [rng.randint(1, 4) for _ in labels]
        lin = [[[str(rng.dyadic()) if rng.random() < 0.7 else "0" for _ in range(k)]] for k in ncases]
        quad = []
        for i in range(n):
            for j in range(i + 1, n):
                if rng.random() < 0.6:
                    for ci in range(ncases[i]):
                        for cj in range(ncases[j]):
                            if rng.random() < 0.5:
                                quad.append([i, ci, j, cj, str(rng.dyadic())])
        # the order in which the case interactions are set and the orientation (u, v) / (v, u) of each call vary
        rng.shuffle(quad)
        quad = [[j, cj, i, ci, b] if rng.random() < 0.5 else [i, ci, j, cj, b] for i, ci, j, cj, b in quad]
        sample = [rng.randrange(k) for k in ncases]
        bad = None
        if n and rng.random() < 0.35:
            i = rng.randrange(n)
            bad = [i, rng.choice([-2, -1, ncases[i], ncases[i] + 1])]
        # the model may also have been edited by add_linear_equality_constraint before it is evaluated (the native
        # variable-level adjacency is merged with the constraint's variables there; round-6 miss C01 r6m2): terms over a
        # subset of the variables, several cases per variable, possibly the same (variable, case) twice
        eqc = []
        if n >= 2 and rng.random() < 0.4:
            for _ in range(rng.randint(1, 2)):
                vs = rng.sample(range(n), rng.randint(1, min(3, n)))
                terms = []
                for i in vs:
                    for ci in rng.sample(range(ncases[i]), rng.randint(1, min(2, ncases[i]))):
                        terms.append([i, ci, str(rng.choice([1, -1, 2, 3, Fraction(1, 2)]))])
                if rng.random() < 0.2:
                    terms.append(list(rng.choice(terms)))
                rng.shuffle(terms)
                eqc.append([terms, str(rng.choice([1, 2, Fraction(1, 2)])), str(rng.choice([0, 1, -1, -2]))])
        return {"kind": kind, "labels": [enc_label(l) for l in labels], "ncases": ncases, "lin": lin, "quad": quad,
                "off": str(rng.dyadic()), "sample": sample, "bad": bad, "eqc": eqc,
                "form": rng.choice(['dict', 'array', 'sampleset']), "omit": n > 0 and bad is None and rng.random() < 0.15}
    # quadratic models
    if kind in ('bqm64', 'bqm32', 'bqmobj', 'view'):
        desc = gen.rand_desc(rng, nmax=6, kinds=('BINARY', 'SPIN'), single_vartype=True,
                             kmax=6 if kind == 'bqm32' else 8, jmax=1 if kind == 'bqm32' else 2)
        if not desc["vars"]:
            desc["vartype"] = rng.choice(['BINARY', 'SPIN'])
    elif kind == 'cqm_const':
        desc = {"vars": [], "lin": [], "quad": [], "off": str(rng.dyadic())}
    elif kind == 'qm' and rng.random() < 0.35:
        desc = gen.rand_desc(rng, nmax=6, kmax=4, jmax=1)
        desc["qdtype"] = 'f32'
    else:
        desc = gen.rand_desc(rng, nmax=6)
    if (kind == 'bqm32' or desc.get("qdtype") == 'f32') and desc["vars"] and rng.random() < 0.35:
        # large-magnitude biases, each exact in float32 (powers of two) and with exact products, whose PARTIAL SUMS are
        # not representable in float32 (2**24 + 1): the documented accumulation is in the float64 result array
        big = [2 ** 24, -2 ** 24, 2 ** 25, -2 ** 25, 1, -1, 3, 0, 2 ** 24, 1]
        desc["lin"] = [[t[0], str(rng.choice(big))] for t in desc["lin"]]
        desc["quad"] = [[t[0], t[1], str(rng.choice(big))] for t in desc["quad"]]
        desc["off"] = str(rng.choice([0, 1, -1, 2 ** 24, 5]))
        desc["big"] = True
    extra = gen.rand_desc(rng, nmax=3)["vars"] if kind.startswith('cqm') else []
    have = {str(v[0]) for v in desc["vars"]}
    extra = [v for v in extra if str(v[0]) not in have]
    allvars = desc["vars"] + extra
    range_labels = rng.random() < 0.25
    if range_labels:
        # half of the time the labels 0..n-1 are NOT in index order (the model was built as 2, 0, 1 ...): an unlabelled
        # sample still means 'column j is the variable LABELLED j' (round-6 C01 r6m1 was caught by a source pin only)
        desc, extra = relabel_range(desc, extra, rng if rng.random() < 0.5 else None)
        allvars = desc["vars"] + extra
    rows = []
    for _ in range(rng.randint(1, 3)):
        rows.append([sample_value(rng, v[1], v[2], v[3]) for v in allvars])
    if desc.get("qdtype") == 'f32':
        rows = [[x if abs(x) < 100 else 7 for x in r] for r in rows]      # products stay exact in float32
    form = rng.choice(FORMS)
    if range_labels and rng.random() < 0.6:
        form = 'unlabelled'
    perm = list(range(len(allvars)))
    rng.shuffle(perm)
    perms = [perm]
    for _ in rows[1:]:
        p2 = list(perm)
        rng.shuffle(p2)
        perms.append(p2)
    c = {"kind": kind, "desc": desc, "extra": extra, "rows": rows, "form": form, "perms": perms,
         "view_flip": rng.random() < 0.5}
    if kind == 'view':
        c["vdtype"] = rng.choice(['f64', 'f64', 'f32', 'obj'])
    if kind in ('bqm64', 'bqm32', 'bqmobj', 'view', 'qm'):
        c["dtype_kw"] = rng.choice([None, None, 'float32', 'float64'])
    if form in ('array', 'array_extra', 'unlabelled') and rng.random() < 0.06:
        c["rows"] = []                      # zero rows
        c["perms"] = [perm]
    if kind.startswith('cqm'):
        # the parent's variable order is independent of the expression's, and variables are removed from /
        # fixed in the parent (used by the expression or not) before the expression is evaluated
        order = list(range(len(allvars)))
        rng.shuffle(order)
        c["cqm_order"] = order
        hist = []
        if allvars and rng.random() < 0.6:
            picks = rng.sample(range(len(allvars)), rng.randint(1, min(3, len(allvars))))
            forced = None
            if len(desc["vars"]) >= 3 and rng.random() < 0.5:
                forced = rng.randrange(len(desc["vars"]) - 2)      # an early slot of the expression: >= 2 slots follow it
                picks = [forced] + [i for i in picks if i != forced][:1]
                rng.shuffle(picks)
            for i in picks:
                vt = allvars[i][1]
                r = rng.random()
                if i != forced and rng.random() < 0.2:
                    # edits through the expression's own API: a bias on a variable (appended to the expression if new to
                    # it), an interaction with another variable, removal of an interaction
                    j = rng.randrange(len(allvars))
                    hist.append([rng.choice(["xadd_linear", "xadd_quadratic", "xremove_interaction"]), i, j, str(rng.dyadic(4, 1))])
                elif (i == forced or rng.random() < 0.35) and i < len(desc["vars"]):
                    # the EXPRESSION's own remove_variable (objective.remove_variable / lhs.remove_variable): the
                    # variable stays in the CQM, later slots of the expression shift down
                    hist.append(["xremove", i])
                elif r < 0.2 and form != 'unlabelled':
                    hist.append(["relabel", i])
                elif r < 0.6:
                    hist.append(["remove", i])
                else:
                    hist.append(["fix", i, sample_value(rng, vt, allvars[i][2], allvars[i][3]) if vt != 'REAL' else 1])
        c["cqm_hist"] = hist
    return c


def relabel_range(desc, extra, rng=None):
    """rename the variables to 0..n-1 in the order desc vars, then extra vars (or, with rng, to a random permutation of 0..n-1)"""
    import json
    key = lambda l: json.dumps(l, sort_keys=True)
    tgt = list(range(len(desc["vars"] + extra)))
    if rng is not None:
        rng.shuffle(tgt)
    m = {key(v[0]): tgt[i] for i, v in enumerate(desc["vars"] + extra)}
    r = lambda l: m[key(l)]
    d = dict(desc)
    d["vars"] = [[r(v[0])] + list(v[1:]) for v in desc["vars"]]
    d["lin"] = [[r(t[0]), t[1]] for t in desc["lin"]]
    d["quad"] = [[r(t[0]), r(t[1]), t[2]] for t in desc["quad"]]
    return d, [[r(v[0])] + list(v[1:]) for v in extra]


def encode_samples(form, labels, rows, perms, drop=None):
    """build the samples_like object; returns (samples_like, logical labels)"""
    use = [i for i in range(len(labels)) if i != drop]
    if form == 'dict':
        return {labels[i]: rows[0][i] for i in perms[0] if i in use}, 1
    if form == 'unlabelled':
        # no labels at all: column j is the variable labelled j (valid for models labelled range(n), in any order)
        inv = sorted(range(len(labels)), key=lambda i: labels[i])
        rows = [[r[i] for i in inv] for r in rows]
        if len(rows) == 1 and len(labels) % 2:
            return list(rows[0]), 1                                  # a single flat row
        if len(rows) and len(labels) and len(labels) % 3 == 0:
            return [list(r) for r in rows], len(rows)                # list of rows
        return np.array([list(r) for r in rows], dtype=float if any(isinstance(x, float) for r in rows for x in r) else np.int64).reshape(len(rows), len(labels)), len(rows)
    if form in ('array', 'array_extra', 'missing'):
        order = [i for i in perms[0] if i in use]
        arr = np.array([[r[i] for i in order] for r in rows], dtype=float if any(isinstance(x, float) for r in rows for x in r) else np.int64)
        arr = arr.reshape(len(rows), len(order))
        if arr.dtype == np.int64 and arr.size and arr.min() >= 0:
            # unsigned and narrow dtypes must be evaluated at the values they hold
            for dt in (np.uint8, np.uint16, np.uint32, np.int8, np.int16):
                if arr.max() <= np.iinfo(dt).max and (hash((arr.tobytes(), dt.__name__)) % 3 == 0):
                    arr = arr.astype(dt)
                    break
        return (arr, [labels[i] for i in order]), len(rows)
    if form == 'mapping_labels':
        # the (deprecated, still supported) (mapping, labels) form: the dict's insertion order and the order of
        # the labels are independent permutations
        order = [i for i in perms[0] if i in use]
        lab_order = [i for i in (perms[1] if len(perms) > 1 else order[1:] + order[:1]) if i in use]
        return ({labels[i]: rows[0][i] for i in order}, [labels[i] for i in lab_order]), 1
    if form == 'dicts':
        return [{labels[i]: r[i] for i in p if i in use} for r, p in zip(rows, perms)], len(rows)
    if form == 'sampleset':
        order = [i for i in perms[0] if i in use]
        isint = not any(isinstance(x, float) for r in rows for x in r)
        arr = np.array([[r[i] for i in order] for r in rows], dtype=float).reshape(len(rows), len(order))
        if isint and arr.size and np.abs(arr).max() < 128 and len(order) % 2:
            arr = arr.astype(np.int8)                     # narrow integer sample storage
        elif isint and len(order) % 3 == 0:
            arr = arr.astype(np.int64)
        ss = dimod.SampleSet.from_samples((arr, [labels[i] for i in order]), energy=[0] * len(rows),
                                          vartype='REAL' if arr.dtype.kind == 'f' else 'INTEGER')
        if perms[0] and perms[0][0] % 2:
            # a future-backed (not yet resolved) sample set: as_samples resolves it
            import concurrent.futures
            fut = concurrent.futures.Future()
            pending = dimod.SampleSet.from_future(fut)
            fut.set_result(ss)
            return pending, len(rows)
        return ss, len(rows)
    raise ValueError(form)


def coq_slike(sl, T):
    """a samples-like python object as a Coq AsSamples.slike term (None when outside the rendered shapes)"""
    def kv(d):
        return clist([cpair(cnat(T.idx(k)), cq(F(x))) for k, x in d.items()])

    def arrlike(a):
        a = np.asarray(a)
        if a.dtype == object or a.dtype.kind not in 'biuf':
            return None
        if a.ndim == 1:
            return "(AsSamples.A1 %s)" % clist([cq(F(x)) for x in a])
        if a.ndim == 2:
            return "(AsSamples.A2 %s %s)" % (cnat(a.shape[1]), clist([clist([cq(F(x)) for x in r]) for r in a]))
        return None
    if isinstance(sl, dimod.SampleSet):
        return "(AsSamples.SSet %s %s)" % (clist([cnat(T.idx(v)) for v in sl.variables]),
                                           clist([clist([cq(F(x)) for x in r]) for r in sl.record.sample]))
    if isinstance(sl, dict):
        return "(AsSamples.SMap %s)" % kv(sl)
    if isinstance(sl, tuple):
        if len(sl) != 2:
            return "AsSamples.STupBad"
        a, labels = sl
        cl = clist([cnat(T.idx(v)) for v in labels])
        if isinstance(a, dict):
            return "(AsSamples.STup (AsSamples.TFMap %s) %s)" % (kv(a), cl)
        t = arrlike(a)
        return None if t is None else "(AsSamples.STup (AsSamples.TFArr %s) %s)" % (t, cl)
    if isinstance(sl, list) and any(isinstance(x, dict) for x in sl):
        items = [coq_slike(x, T) for x in sl]
        return None if any(i is None for i in items) else "(AsSamples.SList %s)" % clist(items)
    if isinstance(sl, (list, np.ndarray)):
        t = arrlike(sl)
        return None if t is None else "(AsSamples.SArr %s)" % t
    return None


def as_samples_case(sl, T, as_iter=False):
    """ASCase term: the model of as_samples on `sl` against what dimod.as_samples returns / raises"""
    term = coq_slike(sl, T)
    if term is None:
        return None
    if as_iter:
        term = term.replace("(AsSamples.SList ", "(AsSamples.SIter ", 1)
    try:
        arr, labels = dimod.as_samples(iter(sl) if as_iter else sl)
        seen = "(AsSamples.Ok ((%s, %s), %s))" % (cnat(arr.shape[1]), clist([clist([cq(F(x)) for x in r]) for r in arr]),
                                                  clist([cnat(T.idx(v)) for v in labels]))
    except ValueError:
        seen = "(AsSamples.Err AsSamples.ValueError)"
    except TypeError:
        seen = "(AsSamples.Err AsSamples.TypeError)"
    il = clist([cnat(T.idx(i)) for i in range(12)])      # default labels of an unlabelled array (up to 9 columns are generated)
    return f"(ASCase {il} {term} {seen})"


def run_case(c):
    kind = c["kind"]
    T = LabelTable()
    feats = {"kind": kind}
    if kind == 'dicts':
        ds = [{dec_label(l): v for l, v in row} for row in c["rows"]]
        cds = clist([cpair(clist([cnat(T.idx(dec_label(l))) for l, _ in row]), clist([cq(v) for _, v in row])) for row in c["rows"]])
        try:
            arr, labels = dimod.as_samples(ds)
            seen = "(Some (%s, %s))" % (clist([cnat(T.idx(l)) for l in labels]),
                                        clist([clist([cq(F(x)) for x in r]) for r in arr]))
        except ValueError:
            seen = "None"
        extra = [t for t in (as_samples_case(ds, T), as_samples_case(ds, T, as_iter=True),
                             as_samples_case([list(d.values()) for d in ds], T),
                             as_samples_case(ds[:1] + [list(d.values()) for d in ds[1:]], T)) if t]
        return {"coq": f"(DictsCase {cds} {seen})", "extra_coq": extra, "features": feats, "nontrivial": len(ds) > 1}
    if kind == 'poly':
        labels = [dec_label(l) for l in c["labels"]]
        poly = dimod.BinaryPolynomial({tuple(dec_label(x) for x in t): float(F(b)) for t, b in c["terms"]}, c["vartype"])
        terms = [(list(k), F(v)) for k, v in poly.items()]
        order = c["order"]
        arr = np.array([[r[i] for i in order] for r in c["vals"]], dtype=np.int8).reshape(len(c["vals"]), len(order))
        pform = c.get("pform", 'array')
        py_fail = None
        used = [v for v in labels if any(v in k for k, _ in terms)]
        if pform == 'missing' and used:
            # a variable of the polynomial is omitted: must be rejected
            keep = [i for i in order if labels[i] != used[0]]
            try:
                poly.energies((arr[:, [order.index(i) for i in keep]], [labels[i] for i in keep]))
                py_fail = "BinaryPolynomial.energies accepted a sample that omits a variable of the polynomial"
            except Exception as e:
                feats["exc"] = type(e).__name__
            feats["missing"] = True
        vals = c["vals"]
        if pform == 'dict':
            vals = vals[:1]
            sl = {labels[i]: vals[0][i] for i in order}
        else:
            sl = (arr, [labels[i] for i in order])
        feats["form"] = pform
        try:
            en = poly.energies(sl)
            seen = "(Some %s)" % clist([cq(F(e)) for e in en])
            if len(vals) == 1 and F(poly.energy(sl)) != F(en[0]):
                py_fail = "BinaryPolynomial.energy and energies disagree"
        except Exception as e:
            seen = "None"
            feats["exc"] = type(e).__name__
        hp = clist([cpair(clist([cnat(T.idx(x)) for x in k]), cq(b)) for k, b in terms])
        ls = clist([cnat(T.idx(labels[i])) for i in order])
        rows = clist([clist([cq(r[i]) for i in order]) for r in vals])
        return {"coq": f"(HCase {hp} {ls} {rows} {seen})", "py_fail": py_fail, "features": feats, "nontrivial": bool(terms)}
    if kind == 'dqm':
        labels = [dec_label(l) for l in c["labels"]]
        d = dimod.DQM()
        for l, k in zip(labels, c["ncases"]):
            d.add_variable(k, l)
        for i, l in enumerate(labels):
            for ci, b in enumerate(c["lin"][i][0]):
                d.set_linear_case(l, ci, float(F(b)))
        for i, ci, j, cj, b in c["quad"]:
            d.set_quadratic_case(labels[i], ci, labels[j], cj, float(F(b)))
        d.offset = float(F(c["off"]))
        for terms, lam, const in c.get("eqc") or []:
            d.add_linear_equality_constraint([(labels[i], ci, float(F(b))) for i, ci, b in terms], float(F(lam)), float(F(const)))
        stride = 8
        lin = []
        for i, l in enumerate(labels):
            for ci, b in enumerate(d.get_linear(l)):
                lin.append((i * stride + ci, F(b)))
        quad = []
        for i in range(len(labels)):
            for j in range(i + 1, len(labels)):
                try:
                    q = d.get_quadratic(labels[i], labels[j])
                except Exception:
                    q = {}
                for (ci, cj), b in q.items():
                    quad.append((i * stride + ci, j * stride + cj, F(b)))
        o = "(mkObs %s %s %s)" % (cq(F(d.offset)), clist([cpair(cnat(a), cq(b)) for a, b in lin]),
                                  clist([f"({cnat(a)}, {cnat(b)}, {cq(x)})" for a, b, x in quad]))
        sample = list(c["sample"])
        if c["bad"]:
            sample[c["bad"][0]] = c["bad"][1]
            feats["bad_case"] = c["bad"][1]
        py_fail = None
        if c["form"] == 'dict':
            sl = {l: s for l, s in zip(labels, sample)}
        elif c["form"] == 'sampleset' and not c["bad"]:
            sl = dimod.SampleSet.from_samples((np.array([sample], dtype=np.int64).reshape(1, len(labels)), labels),
                                              energy=[0], vartype='INTEGER')
        else:
            sl = (np.array([sample], dtype=np.int64).reshape(1, len(labels)), labels)
        feats["form"] = c["form"]
        try:
            en = d.energies(sl)
            seen = "(Some %s)" % cq(F(en[0]))
            if F(d.energy(sl)) != F(en[0]):
                py_fail = "DQM.energy and energies disagree"
        except ValueError:
            seen = "None"
        if c.get("omit") and labels:
            # a sample that omits one of the model's variables must be rejected
            feats["missing"] = True
            try:
                d.energies({l: s for l, s in list(zip(labels, sample))[1:]})
                py_fail = "DQM.energies accepted a sample that omits a variable"
            except (ValueError, KeyError) as e:
                feats["exc"] = type(e).__name__
            try:
                d.energies((np.array([sample[:-1]], dtype=np.int64).reshape(1, len(labels) - 1), labels[:-1]))
                py_fail = "DQM.energies accepted a labelled array that omits a variable"
            except (ValueError, KeyError) as e:
                feats["exc"] = type(e).__name__
        nc = clist([cpair(cnat(i), cnat(k)) for i, k in enumerate(c["ncases"])])
        row = clist([cpair(cnat(i), cz(s)) for i, s in enumerate(sample)])
        # the code-shaped loop on the observed raw vectors, for a multi-row labelled matrix in a shuffled column order
        extra = []
        import random as _r
        rr = _r.Random(len(c["quad"]) * 7 + sum(c["sample"]))
        order = list(range(len(labels)))
        rr.shuffle(order)
        mrows = [list(sample)] + [[rr.randrange(k) for k in c["ncases"]] for _ in range(rr.randint(0, 2))]
        if c["bad"] and len(mrows) > 1 and rr.random() < 0.5:
            mrows[0], mrows[-1] = mrows[-1], mrows[0]          # the bad row is not the first one
        arr = np.array([[r[i] for i in order] for r in mrows], dtype=np.int64).reshape(len(mrows), len(labels))
        try:
            en2 = d.energies((arr, [labels[i] for i in order]))
            seen2 = "(Some %s)" % clist([cq(F(e)) for e in en2])
        except ValueError:
            seen2 = "None"
        import warnings
        with warnings.catch_warnings():
            warnings.simplefilter("ignore")
            vec = d.to_numpy_vectors()
        starts = clist([cnat(int(x)) for x in vec[0]])
        vlin = clist([cq(F(x)) for x in vec[1]])
        vquad = clist([f"({cnat(int(a))}, {cnat(int(b))}, {cq(F(x))})" for a, b, x in zip(*vec[2])])
        adjv = clist([clist([cnat(int(v)) for v in row_]) for row_ in d._cydqm.adj])
        vars_ = clist([cnat(T.idx(l)) for l in d.variables])
        ls2 = clist([cnat(T.idx(labels[i])) for i in order])
        rows2 = clist([clist([cz(int(x)) for x in r]) for r in arr])
        extra.append(f"(DLoop {starts} {vlin} {vquad} {cq(F(d.offset))} {adjv} {vars_} {ls2} {rows2} {seen2})")
        return {"coq": f"(DCase {o} {cnat(stride)} {nc} {row} {seen})", "extra_coq": extra, "py_fail": py_fail, "features": feats,
                "nontrivial": bool(labels)}
    # quadratic models
    desc = c["desc"]
    allvars = desc["vars"] + c["extra"]
    labels = [dec_label(v[0]) for v in allvars]
    if kind in ('bqm64', 'bqm32', 'bqmobj', 'view'):
        dtype = {'bqm64': np.float64, 'bqm32': np.float32, 'bqmobj': object,
                 'view': {'f64': np.float64, 'f32': np.float32, 'obj': object}[c.get("vdtype", 'f64')]}[kind]
        if kind == 'view':
            feats["vdtype"] = c.get("vdtype", 'f64')
        m = gen.build_bqm(desc, dtype=dtype)
        if kind == 'view':
            # evaluate through the live view of the other vartype: samples are in the view's domain
            base_obs = gen.observe(m)
            view_dir = 'Gen_View.SpinOverBin' if m.vartype is dimod.BINARY else 'Gen_View.BinOverSpin'
            m = m.spin if m.vartype is dimod.BINARY else m.binary
            other = {0: -1, 1: 1, -1: 0}
            conv = (lambda x: 2 * x - 1) if m.vartype is dimod.SPIN else (lambda x: (x + 1) // 2)
            rows = [[conv(x) for x in r] for r in c["rows"]]
        else:
            rows = c["rows"]
        target = m
    elif kind == 'qm':
        target = gen.build_qm(desc, dtype=np.float32 if desc.get("qdtype") == 'f32' else None)
        feats["qdtype"] = desc.get("qdtype", 'f64')
        rows = c["rows"]
    else:
        cqm = dimod.ConstrainedQuadraticModel()
        for i in c.get("cqm_order", range(len(allvars))):
            l, vt, lb, ub = allvars[i]
            if vt in ('INTEGER', 'REAL'):
                cqm.add_variable(vt, dec_label(l), lower_bound=lb, upper_bound=ub)
            else:
                cqm.add_variable(vt, dec_label(l))
        qm = gen.build_qm(desc)
        if kind == 'cqm_obj':
            cqm.set_objective(qm)
            target = cqm.objective
        else:
            lab = cqm.add_constraint_from_model(qm, '<=', rhs=1.0)
            target = cqm.constraints[lab].lhs
        # edit history on the parent: the expression must still evaluate to the polynomial it reports
        for op in c.get("cqm_hist", []):
            v = dec_label(allvars[op[1]][0])
            v = labels[op[1]]
            if op[0] in ("xadd_linear", "xadd_quadratic", "xremove_interaction"):
                w = labels[op[2]]
                try:
                    if op[0] == "xadd_linear":
                        target.add_linear(v, float(F(op[3])))
                    elif op[0] == "xadd_quadratic":
                        target.add_quadratic(v, w, float(F(op[3])))
                    else:
                        target.remove_interaction(v, w)
                    feats["xedit"] = True
                except (ValueError, KeyError):
                    pass                      # refused edit (self-loop of a binary, REAL interaction, absent interaction)
            elif op[0] == "xremove":
                target.remove_variable(v)
                feats["xremove"] = True
                if v not in cqm.variables or v in target.variables:
                    return {"py_fail": "expression.remove_variable: the variable must leave the expression and stay in the CQM", "features": feats}
            elif op[0] == "remove":
                cqm.remove_variable(v)
            elif op[0] == "relabel":
                new = ('r', op[1])
                cqm.relabel_variables({v: new})
                labels[op[1]] = new
                feats["relabelled"] = True
            else:
                cqm.fix_variable(v, op[2])
            feats["hist"] = True
        rows = c["rows"]
    o = gen.observe(target)
    mvars = [dec_label(v) for v in o["vars"]]
    form = c["form"]
    drop = None
    if form == 'missing':
        if not mvars:
            form = 'array'
        else:
            drop = labels.index(mvars[0])
            feats["missing"] = True
    sl, nrows = encode_samples(form, labels, rows, c["perms"], drop)
    py_fail = None
    if not rows:
        feats["zero_rows"] = True
    try:
        en = target.energies(sl)
        seen = "(Some %s)" % clist([cq(F(e)) for e in np.atleast_1d(en)])
        if nrows == 1 and len(np.atleast_1d(en)) == 1:
            # the singular entry point
            e1 = target.energy(sl)
            if F(e1) != F(np.atleast_1d(en)[0]):
                py_fail = f"energy() returned {e1!r}, energies() {en!r}"
        dk = c.get("dtype_kw")
        if dk and kind in ('bqm64', 'bqm32', 'bqmobj', 'view', 'qm'):
            # the dtype keyword only casts the result
            e2 = target.energies(sl, dtype=np.dtype(dk))
            if e2.dtype != np.dtype(dk) or not np.array_equal(e2, np.asarray(en, dtype=np.float64).astype(np.dtype(dk))):
                py_fail = f"energies(dtype={dk}) returned {e2!r} ({e2.dtype}), energies() {en!r}"
            feats["dtype_kw"] = dk
    except (ValueError, KeyError) as e:
        seen = "None"
        feats["exc"] = type(e).__name__
    use = [i for i in range(len(labels)) if i != drop]
    ls = clist([cnat(T.idx(labels[i])) for i in use])
    crows = clist([clist([cq(F(r[i])) for i in use]) for r in rows[:nrows]])
    vars_ = clist([cnat(T.idx(v)) for v in mvars])
    feats["form"] = form
    feats["nvars"] = len(mvars)
    if desc.get("big"):
        feats["big_f32"] = True
    extra = []
    t_as = as_samples_case(sl, T)
    if t_as:
        extra.append(t_as)
    cobs = coq_obs(o, T)
    if kind in ('bqm64', 'bqm32', 'qm'):
        # the code-shaped loop of cyQMBase._energies evaluated on the raw adjacency structure
        d = target.data
        rlin = clist([cq(F(x)) for x in np.asarray(d._ilinear())])
        radj = clist([clist([cpair(cnat(int(e[0])), cq(F(e[1]))) for e in np.asarray(d._ineighborhood(i))])
                      for i in range(target.num_variables)])
        rvts = clist([target.vartype(v).name for v in target.variables])
        raw = f"(Adj.mkQM {rlin} {radj} {cq(F(target.offset))} {rvts})"
        extra.append(f"(CyCase {cnat(len(T))} {cobs} {raw} {vars_} {ls} {crows} {seen})")
    elif kind == 'view' and seen != "None":
        # VartypeView.energies: sample conversion + base energies, on the coefficients the BASE reports
        extra.append(f"(ViewE {view_dir} {coq_obs(base_obs, T)} {ls} {crows} {seen[6:-1]})")
    elif kind == 'bqmobj':
        # pyBQM.energies on the observed dict-of-dicts (insertion order kept, diagonal = linear bias)
        adj = clist([cpair(cnat(T.idx(u)), clist([cpair(cnat(T.idx(v)), cq(F(b))) for v, b in Nu.items()]))
                     for u, Nu in target.data._adj.items()])
        pb = f"(PyBqm.mkPyBqm {adj} {cq(F(target.data.offset))})"
        extra.append(f"(PyCase {cnat(len(T))} {cobs} {pb} {ls} {crows} {seen})")
    elif kind in ('cqm_obj', 'cqm_con', 'cqm_const'):
        # cyexpression._energies on the raw expression state
        idx = [int(x) for x in target._iindices()]
        pv = list(cqm.variables)
        rvts = clist([cqm.vartype(pv[i]).name for i in idx])
        rlin = clist([cq(F(x)) for x in target._ilinear()])
        rquad = clist([f"({cnat(int(u))}, {cnat(int(v))}, {cq(F(b))})" for u, v, b in target._iquadratic()])
        pvars = clist([cnat(T.idx(v)) for v in pv])
        xe = f"(mkX {clist([cnat(i) for i in idx])} (qm_of_raw {rvts} {rlin} {rquad} {cq(F(target.offset))}))"
        extra.append(f"(XCase {cnat(len(T))} {cobs} {xe} {pvars} {ls} {crows} {seen})")
    return {"coq": f"(QCase {cobs} {vars_} {ls} {crows} {seen})", "extra_coq": extra, "py_fail": py_fail, "features": feats,
            "nontrivial": bool(o["lin"] or o["quad"]) or kind == 'cqm_const'}


if __name__ == "__main__":
    wlib.main(gen_case, run_case)
