PID = "C13"
WORKER = "w_c13"
HEADER = "From Coq Require Import List ZArith Bool.\nFrom Dimod Require Import Base.Util Model.Vars Model.ChkC13.\nImport ListNotations."
CHECK_FN = "check"
N_QUICK = 4000
N_THOROUGH = 120000
SHARD = 400
SHRINK_KEYS = ["steps", "init", "slices"]
RULE = ("random histories (1-14 ops quick, 1-40 thorough) on an object built by the legacy append loop, Variables(list), Variables(generator), Variables(Variables(..)) or Variables(range(a, b, s)) (fast path range(n) incl. n <= 0; state compared right after construction) of fork steps (the history continues on copy() / copy.copy / deepcopy / pickle round trip / Variables(v) / Variables(list(v)) / Variables(generator) / v[:]; the objects left behind must keep their snapshot after every later call), index(v, permissive=True), _extend with a list / tuple / generator / Variables / range argument, relabels whose keys and targets are drawn from the labels currently held (integer labels at their own index included), _append (explicit/auto/permissive), _extend, _pop, _relabel (partial, "
        "swap, cycle, conflicting, absent keys), _relabel_as_integers, _remove, _clear over an alphabet mixing ints, 1.0/np.int64 "
        "aliases, strings, tuples and a non-integral float; after every op the three internal fields, the sequence and count/index "
        "for the probe alphabet, and list(v[a:b:s]) for 3-6 random slice probes per case (missing, negative, out-of-range bounds; steps of both signs and 0), are compared with the Coq model and with the Python list; the alphabet holds pairs of distinct labels with equal hashes (-1/-2, 0/2**61-1, (-1,)/(-2,)) and integers far beyond any index; non-trivial = at least one successful mutating op; distinct by case JSON")
TRUSTED = ["translator translators/vars_ctor.py (cyVariables.__init__ dispatch on the argument shape, fast path condition and value, container _relabel passes to iter_safe_relabels; fail-closed)", "model: coq/theories/Model/Vars.v, ChkC13.v (hand written mirror of cyvariables.pyx and utilities.iter_safe_relabels)",
           "Python dict semantics (hash/eq of 1, 1.0, np.int64(1)) are modelled by label normalisation"]
ASSUMPTIONS = ["Python dict and numeric-tower equality behave as modelled (1 == 1.0 == np.int64(1) is one key)"]
PARTIAL = []
