PID = "C20"
WORKER = "w_c20"
HEADER = ("From Coq Require Import List ZArith QArith Qcanon Bool.\n"
          "From Dimod Require Import Base.Util Model.Poly Model.Adj Model.AdjMore Proofs.AdjFacts Model.ChkC20 Model.Expr Model.ExprOps Model.ChkC20Cqm Model.DqmNative Model.ChkC20Dqm.\n"
          "Import ListNotations.\nOpen Scope Qc_scope.")
CHECK_FN = "check"
N_QUICK = 1600
N_THOROUGH = 12000
SHARD = 60
TIMEOUT = 3000
SHRINK_KEYS = ["ops", "calls"]
RULE = ("four case kinds. cpp_models (46%): random op lists (4-28 ops quick, 4-60 thorough) on two QuadraticModel<double,int> and two "
        "BinaryQuadraticModel<double,int> objects executed by cpp/driver.cpp, which is compiled on every run against <tree>/dimod/include "
        "with ASan+UBSan, -UNDEBUG and -D_GLIBCXX_ASSERTIONS; ops: add_variable(s) with/without bounds, add/set linear, offset, "
        "add/set quadratic (domain_error caught), add_quadratic_back (only when its ordering promise holds), dense (double and long), "
        "COO iterators (BQM may grow), remove_interaction, remove_interactions(filter), remove_variable, remove_variables (sorted and "
        "unsorted), resize (3 overloads), scale, fix_variable (double and int), substitute_variable(s), change_vartype, set bounds / "
        "vartype, clear, copy ctor / assignment (incl. self), move ctor / assignment (source then cleared or assigned), swap, "
        "QM(BQM) both constructors, BQM dense constructor, energy; all arguments within the documented preconditions (filtered against "
        "the state the driver printed); after EVERY op the raw state of all four objects is compared with the Coq model and inv_b is "
        "evaluated on model and observed state. cpp_cqm (27%): ops on ConstrainedQuadraticModel / Constraint / Expression (labels API, "
        "add_constraint copy/move/from QM/linear, set_objective, remove/fix/substitute variables, fix_variables, remove constraints, "
        "copy/move/swap of whole CQMs, weak_ptr) with the native invariant after every op. py_dqm (11%): histories (3-24 calls quick, 3-50 thorough) of VALID calls on a real DiscreteQuadraticModel, through the Python wrapper with labels that differ from the indices or on the Cython object: add_variable (1-3 cases, <= 5 variables), set_linear, set_linear_case, set_quadratic_case with the two variables in either order, set_quadratic with a dict or a dense array (zeros skipped), add_linear_equality_constraint (duplicate cases, repeated variables, empty), offset, copy (history continues on the copy, the original is re-read at the end), to_numpy_vectors -> from_numpy_vectors (continues on the rebuilt object); after EVERY call the raw adj_, case starts, the case-level BQM (neighbourhood order as emitted), both interaction counts, every degree, get_quadratic of every ordered pair (dict, array form and get_quadratic_case cross-checked) and two energies are compared with Model/DqmNative.v, and dinv_b is evaluated on the model and on the observed state. py (16%): 6 calls each, in child interpreters; besides the malformed-argument catalogue two families added in round 5: 'fresh' - invalid calls that carry a FRESH hashable label where the entry point creates variables on the fly (the same fresh label twice, fresh label followed by an invalid label / bias, iterables whose later item is malformed, new variables with wrong vartype / bounds / case count, whole models with a fresh and a conflicting variable) for BQM (4 fixtures, 3 dtypes), QM, CQM (model, objective and constraint views), DQM: a raise must leave the full dump (variables included) unchanged; 'reduce' - reduce_linear / reduce_neighborhood / reduce_quadratic and the max / min / sum of the linear, quadratic and adj[v] views on degree-0 variables (middle and end of the index range) of models that have interactions, on interaction-free and on empty models, with and without initializer / default, 6 functions: no crash, no change, the empty cases without initializer raise, and every numeric result is recomputed from the dump taken before the call (functools.reduce over the dumped biases in index order). Generic: 6 malformed calls each against "
        "BQM (float64/float32/object), QM, CQM, DQM in child interpreters, 10 s limit per call; thorough adds a valgrind sample. "
        "non-trivial = at least 3 executed ops / any py case; distinct by case JSON")
TRUSTED = ["model for the py_dqm cases: coq/theories/Model/DqmNative.v, ChkC20Dqm.v (hand written mirror of cydiscrete_quadratic_model.pyx); the round-6 theorems about the rebuild, energies and get_quadratic are statements about this mirror, tied to the code by the per-call comparison of the raw state",
           "model: coq/theories/Model/Adj.v, AdjMore.v, ChkC20.v (hand written mirror of abc.h, binary_quadratic_model.h, quadratic_model.h, utils.h)",
           "model for the cq.* ops: coq/theories/Model/Expr.v, ExprOps.v (g9's mirror of expression.h / constrained_quadratic_model.h), ChkC20Cqm.v",
           "cpp/driver.cpp (executes the ops, prints the state through the public C++ API, re-checks the invariant natively)",
           "clang++ 14 -fsanitize=address,undefined with libstdc++ assertions: a run without report is taken to be free of the UB classes these tools detect",
           "valgrind 3.19 memcheck for the Python level sample (thorough tier)"]
ASSUMPTIONS = ["biases are small dyadic rationals (|x| < 2^16, denominators <= 2^12, op arguments from a fixed small set) so every "
               "floating point operation of the implementation is exact and comparison with the rational model is exact",
               "moved-from objects are only cleared or assigned to, as the standard library guarantees no more",
               "sanitizers see the header code compiled into the driver, not the code compiled into the Python extension (that half is covered by the child-interpreter stream and valgrind)"]
PARTIAL = ["cyDiscreteQuadraticModel: the invariant (case-level BQM invariant, case starts, adj_ strictly sorted / symmetric / self-free / covering every case interaction) is proved preserved by EVERY modelled call, the to_numpy_vectors/from_numpy_vectors rebuild included (C20_dqm_every_step_preserves_invariant). Round 6: the rebuild is now fully specified by theorems on every state satisfying the invariant - the rebuilt case-level BQM is EQUAL to the old one (linear vector, every neighbourhood with its order and biases, zero biases included, offset, vartypes: C20_dqm_round_trip_bqm_identity), the case starts are the same, the whole rebuilt object is (old BQM, old starts, projection of the case interactions) (C20_dqm_round_trip_whole_state), the rebuild is idempotent, it is the identity exactly when adj_ recorded no pair of variables without a case interaction (C20_dqm_round_trip_identity_iff_tight; an all-zero dense set_quadratic records such a pair, Example C20_dqm_round_trip_examples), the rebuilt adj_ is a subset of the old one, every energy of a valid sample is kept (C20_dqm_round_trip_keeps_energies), every get_quadratic answer after the rebuild is the old answer and a pair that is gone had an empty listing. Reads: energies equals offset + chosen-case linear biases + the stored bias between the chosen cases of EVERY pair of variables (C20_dqm_energy_is_case_polynomial; pairs adj_ does not record have no stored bias) and equals the polynomial Adj.abs of the case-level BQM at the one-hot encoding of the sample (C20_dqm_energy_is_onehot_polynomial); get_quadratic lists exactly the stored case interactions (C20_dqm_get_quadratic_lists_stored). Still only compared per case, without a theorem: the exact ORDER of the COO arrays emitted by to_numpy_vectors (the worker turns the arrays back into neighbourhoods in emission order and these are compared with the model's), the array form of get_quadratic and get_quadratic_case (cross-checked against the dict form in the worker), and energies on samples with an out-of-range case (the theorems assume 0 <= case < num_cases(v); the generator only produces such samples); translators/dqm_native_shapes.py ties the model to the .pyx source for the two track-in-adjacency blocks and the energies break (generated definitions proved equal to the model's: C20_dqm_track_generated, C20_dqm_energy_break_generated) and recognises, fail-closed, the per-case cursor reset of the adjacency rebuild and the five-branch merge loop; the rest of DqmNative.v is hand written; the DQM file format and CaseLabelDQM are not part of this stream",
           "every cq.* op of the driver now has a Coq-side model (Model/ChkC20Cqm.v over g9's Model/Expr.v + ExprOps.mstep) and every dump of "
           "both CQM objects is compared: variable info, per expression variables() order, linear by position, offset, quadratic per "
           "unordered pair (sum + presence), constraint attributes (sense, rhs, weight, penalty, discrete marker), the values returned "
           "by energy and is_disjoint, expr_ok on the observed state; NOT compared: weak_ptr expiry (executed under the sanitizers only), "
           "and the order of the stored quadratic terms inside an expression (the model keeps an unordered term list; sortedness of the "
           "stored neighbourhoods is checked by the driver's native invariant, not in Coq)",
           "indices_ of an Expression is not observable through the public C++ API: its consistency with variables() is checked by the "
           "driver's write-through-label / read-through-index probe, not in Coq",
           "the cq.* cases run on a g++ build of the driver (same flags and sanitizers): the order in which "
           "add_quadratic(enforce_variable(u), enforce_variable(v)) evaluates its arguments is unspecified in C++ and Model/Expr.v mirrors GCC "
           "(v first); clang evaluates u first, which changes variables() order only",
           "the model functions of ChkC20Cqm.v that are not in g9's ExprOps now have theorems (Proofs/ChkC20CqmFacts.v): ExprInv preservation for "
           "set_quadratic, expression fix_variable, scale, the copying fix_variables path (over the new variable count) and "
           "remove_constraints_if; functional statements for set_quadratic (read-back), fix_variable (variable gone), scale (energy * k; "
           "Constraint::scale with its LE/GE flip keeps the satisfying samples for k <> 0), is_onehot (reflection), energy (= energy of the "
           "abstraction). Round 6: the VALUES of the three fixing paths now have energy-level theorems 'fixing = evaluating at the assignment' "
           "(Proofs/C20FixEnergy.v): Expression::fix_variable (C20_expr_fix_variable_energy: energy of the result at s = energy of the source "
           "at s[v := a]; the result no longer depends on s(v)), the copying fix_variables path (C20_fix_expr_is_fix_variables_expr identifies "
           "the C20 model fix_expr with the C03 mirror Model/FixCopy.fix_variables_expr, C20_fix_expr_energy / C20_fix_variables_copy_energy: "
           "objective and every constraint of the new model at s' = the old ones at s' extended by the fixed values, for samples that respect "
           "the new vartypes - the only place the domain matters is a self interaction of a BINARY/SPIN variable folded by add_quadratic_back) "
           "and the in-place op MFixVariable of ExprOps.mstep (C20_mstep_fix_variable_energy). Still only compared per case: QAddConCopyRaw "
           "with repeated labels, and the discrete marker recomputed by the copying path (is_onehot of the rebuilt constraint; its reflection "
           "C20 theorem is_onehot_spec exists, the marker's value after fixing is compared, not specified)",
           "energy-level specification of substitute_variables / BQM change_vartype: proved by identifying AdjMore.substitute_variables with "
           "g11's loop-shaped mirror (AdjSubstAll) and re-exporting its theorems; it needs 'no self-loops', which holds for every BQM object; "
           "for a QuadraticModel with self-loops abc.h's substitute_variables is NOT the substitution (g11's refutation), the check only "
           "compares the stored values there",
           "use-after-free through weak_ptr, signed overflow and allocator behaviour are not expressible in the model; they are covered only by the sanitizer run",
           "Python boundary: the catalogue of malformed calls is tied to the .pyx sources by translators/c20_py_surface.py (every "
           "argument-taking method of the six Cython classes must have a catalogue entry or a stated exemption), but it samples argument "
           "values, it does not enumerate them"]
