PID = "C20"
WORKER = "w_c20"
HEADER = ("From Coq Require Import List ZArith QArith Qcanon Bool.\n"
          "From Dimod Require Import Base.Util Model.Poly Model.Adj Model.AdjMore Proofs.AdjFacts Model.ChkC20 Model.Expr Model.ExprOps Model.ChkC20Cqm Model.DqmNative Model.ChkC20Dqm.\n"
          "Import ListNotations.\nOpen Scope Qc_scope.")
CHECK_FN = "check"
N_QUICK = 1600
N_THOROUGH = 12000
SHARD = 60
TIMEOUT = 3000
SHRINK_KEYS = ["ops", "calls"]
RULE = ("four case kinds. cpp_models (46%): random op lists (4-28 ops quick, 4-60 thorough) on two QuadraticModel<double,int> and two "
        "BinaryQuadraticModel<double,int> objects executed by cpp/driver.cpp, which is compiled on every run against <tree>/dimod/include "
        "with ASan+UBSan, -UNDEBUG and -D_GLIBCXX_ASSERTIONS; ops: add_variable(s) with/without bounds, add/set linear, offset, "
        "add/set quadratic (domain_error caught), add_quadratic_back (only when its ordering promise holds), dense (double and long), "
        "COO iterators (BQM may grow), remove_interaction, remove_interactions(filter), remove_variable, remove_variables (sorted and "
        "unsorted), resize (3 overloads), scale, fix_variable (double and int), substitute_variable(s), change_vartype, set bounds / "
        "vartype, clear, copy ctor / assignment (incl. self), move ctor / assignment (source then cleared or assigned), swap, "
        "QM(BQM) both constructors, BQM dense constructor, energy; all arguments within the documented preconditions (filtered against "
        "the state the driver printed); after EVERY op the raw state of all four objects is compared with the Coq model and inv_b is "
        "evaluated on model and observed state. cpp_cqm (27%): ops on ConstrainedQuadraticModel / Constraint / Expression (labels API, "
        "add_constraint copy/move/from QM/linear, set_objective, remove/fix/substitute variables, fix_variables, remove constraints, "
        "copy/move/swap of whole CQMs, weak_ptr) with the native invariant after every op. py_dqm (11%): histories (3-24 calls quick, 3-50 thorough) of VALID calls on a real DiscreteQuadraticModel, through the Python wrapper with labels that differ from the indices or on the Cython object: add_variable (1-3 cases, <= 5 variables), set_linear, set_linear_case, set_quadratic_case with the two variables in either order, set_quadratic with a dict or a dense array (zeros skipped), add_linear_equality_constraint (duplicate cases, repeated variables, empty), offset, copy (history continues on the copy, the original is re-read at the end), to_numpy_vectors -> from_numpy_vectors (continues on the rebuilt object); after EVERY call the raw adj_, case starts, the case-level BQM (neighbourhood order as emitted), both interaction counts, every degree, get_quadratic of every ordered pair (dict, array form and get_quadratic_case cross-checked) and two energies are compared with Model/DqmNative.v, and dinv_b is evaluated on the model and on the observed state. py (16%): 6 calls each, in child interpreters; besides the malformed-argument catalogue two families added in round 5: 'fresh' - invalid calls that carry a FRESH hashable label where the entry point creates variables on the fly (the same fresh label twice, fresh label followed by an invalid label / bias, iterables whose later item is malformed, new variables with wrong vartype / bounds / case count, whole models with a fresh and a conflicting variable) for BQM (4 fixtures, 3 dtypes), QM, CQM (model, objective and constraint views), DQM: a raise must leave the full dump (variables included) unchanged; 'reduce' - reduce_linear / reduce_neighborhood / reduce_quadratic and the max / min / sum of the linear, quadratic and adj[v] views on degree-0 variables (middle and end of the index range) of models that have interactions, on interaction-free and on empty models, with and without initializer / default, 6 functions: no crash, no change, the empty cases without initializer raise, and every numeric result is recomputed from the dump taken before the call (functools.reduce over the dumped biases in index order). Generic: 6 malformed calls each against "
        "BQM (float64/float32/object), QM, CQM, DQM in child interpreters, 10 s limit per call; thorough adds a valgrind sample. "
        "non-trivial = at least 3 executed ops / any py case; distinct by case JSON")
TRUSTED = ["model for the py_dqm cases: coq/theories/Model/DqmNative.v, ChkC20Dqm.v (hand written mirror of cydiscrete_quadratic_model.pyx)",
           "model: coq/theories/Model/Adj.v, AdjMore.v, ChkC20.v (hand written mirror of abc.h, binary_quadratic_model.h, quadratic_model.h, utils.h)",
           "model for the cq.* ops: coq/theories/Model/Expr.v, ExprOps.v (g9's mirror of expression.h / constrained_quadratic_model.h), ChkC20Cqm.v",
           "cpp/driver.cpp (executes the ops, prints the state through the public C++ API, re-checks the invariant natively)",
           "clang++ 14 -fsanitize=address,undefined with libstdc++ assertions: a run without report is taken to be free of the UB classes these tools detect",
           "valgrind 3.19 memcheck for the Python level sample (thorough tier)"]
ASSUMPTIONS = ["biases are small dyadic rationals (|x| < 2^16, denominators <= 2^12, op arguments from a fixed small set) so every "
               "floating point operation of the implementation is exact and comparison with the rational model is exact",
               "moved-from objects are only cleared or assigned to, as the standard library guarantees no more",
               "sanitizers see the header code compiled into the driver, not the code compiled into the Python extension (that half is covered by the child-interpreter stream and valgrind)"]
PARTIAL = ["cyDiscreteQuadraticModel: the invariant (case-level BQM invariant, case starts, adj_ strictly sorted / symmetric / self-free / covering every case interaction) is proved preserved by EVERY modelled call, the to_numpy_vectors/from_numpy_vectors rebuild included (C20_dqm_every_step_preserves_invariant); for the rebuild only 'no interaction is invented' is a theorem, that none is lost and the bias values are compared per case; energies, get_quadratic and to_numpy_vectors are compared per case, without a theorem relating them to the polynomial; translators/dqm_native_shapes.py ties the model to the .pyx source for the two track-in-adjacency blocks and the energies break (generated definitions proved equal to the model's: C20_dqm_track_generated, C20_dqm_energy_break_generated) and recognises, fail-closed, the per-case cursor reset of the adjacency rebuild and the five-branch merge loop; the rest of DqmNative.v is hand written; the DQM file format and CaseLabelDQM are not part of this stream",
           "every cq.* op of the driver now has a Coq-side model (Model/ChkC20Cqm.v over g9's Model/Expr.v + ExprOps.mstep) and every dump of "
           "both CQM objects is compared: variable info, per expression variables() order, linear by position, offset, quadratic per "
           "unordered pair (sum + presence), constraint attributes (sense, rhs, weight, penalty, discrete marker), the values returned "
           "by energy and is_disjoint, expr_ok on the observed state; NOT compared: weak_ptr expiry (executed under the sanitizers only), "
           "and the order of the stored quadratic terms inside an expression (the model keeps an unordered term list; sortedness of the "
           "stored neighbourhoods is checked by the driver's native invariant, not in Coq)",
           "indices_ of an Expression is not observable through the public C++ API: its consistency with variables() is checked by the "
           "driver's write-through-label / read-through-index probe, not in Coq",
           "the cq.* cases run on a g++ build of the driver (same flags and sanitizers): the order in which "
           "add_quadratic(enforce_variable(u), enforce_variable(v)) evaluates its arguments is unspecified in C++ and Model/Expr.v mirrors GCC "
           "(v first); clang evaluates u first, which changes variables() order only",
           "the model functions of ChkC20Cqm.v that are not in g9's ExprOps now have theorems (Proofs/ChkC20CqmFacts.v): ExprInv preservation for "
           "set_quadratic, expression fix_variable, scale, the copying fix_variables path (over the new variable count) and "
           "remove_constraints_if; functional statements for set_quadratic (read-back), fix_variable (variable gone), scale (energy * k; "
           "Constraint::scale with its LE/GE flip keeps the satisfying samples for k <> 0), is_onehot (reflection), energy (= energy of the "
           "abstraction). Still only compared per case: the VALUES produced by expression fix_variable and by the copying fix_variables path "
           "(no energy-level theorem 'fixing = evaluating at the assignment' for these two), and QAddConCopyRaw with repeated labels",
           "energy-level specification of substitute_variables / BQM change_vartype: proved by identifying AdjMore.substitute_variables with "
           "g11's loop-shaped mirror (AdjSubstAll) and re-exporting its theorems; it needs 'no self-loops', which holds for every BQM object; "
           "for a QuadraticModel with self-loops abc.h's substitute_variables is NOT the substitution (g11's refutation), the check only "
           "compares the stored values there",
           "use-after-free through weak_ptr, signed overflow and allocator behaviour are not expressible in the model; they are covered only by the sanitizer run",
           "Python boundary: the catalogue of malformed calls is tied to the .pyx sources by translators/c20_py_surface.py (every "
           "argument-taking method of the six Cython classes must have a catalogue entry or a stated exemption), but it samples argument "
           "values, it does not enumerate them"]
