"""C13 worker: operation histories on dimod.variables.Variables.

Coverage map (clause of the property -> stream that reaches it):
  appends, explicit / auto label / permissive ......... step "append" (label None = auto), "index_perm" (index(v, permissive=True))
  extends ............................................. step "extend" (argument passed as list / tuple / one-shot generator / Variables
                                                        object), "extend_range" (a range object, also with start != 0, negative step, empty)
  pops, removals, clears .............................. steps "pop", "remove", "clear"
  partial / swapping / cyclic / merging relabels ...... step "relabel" (cycle, reversed, random targets incl. existing labels and absent keys;
                                                        a third of the random targets are drawn from the labels currently held, so
                                                        integer labels sitting at their own index - stored implicitly - are hit often;
                                                        15 % are swaps / cycles with extra entries keyed or targeted at the integers
                                                        2*len(mapping).. that resolve_label_conflict tries as intermediate labels)
  relabel-as-integers ................................. step "relabel_ints" (the returned mapping must restore the labels)
  copies and pickling ................................. step "fork": the history CONTINUES on copy() / copy.copy / deepcopy / pickle round
                                                        trip / Variables(v) (same three fields, Coq OCopy) or on Variables(list(v)) /
                                                        Variables(generator) / v[:] (rebuilt, Coq OCtor); the abandoned objects are kept and
                                                        must still show their old snapshot after every later call (no aliasing)
  construction ........................................ case key "ctor": labels appended one by one (legacy cases), Variables(list),
                                                        Variables(generator), Variables(Variables(list)), Variables(range(a, b, s)) incl. the
                                                        fast path range(n) with n < 0, n = 0; the state right after construction is compared
  len, iteration, indexing, slicing, index, count,
  membership with numeric aliases, equality ........... after every step (probe alphabet with 1.0 / np.int64 aliases, 3-6 random slice probes)
  integer labels that differ from their position ...... alphabet holds 0..6, 9, -1, -2, 2**40, 2**61-1; histories shuffle them by relabel/remove
"""
import copy
import pickle
import numpy as np
from dimod.variables import Variables

import wlib
from wlib import clist, cnat, cz, cbool, copt, cpair

# -1/-2 and 0/2**61-1 are pairs of distinct labels with equal CPython hashes; so are the tuples (-1,)/(-2,)
ALPHABET = [0, 1, 2, 3, 4, 5, 6, 9, -1, -2, 2**61 - 1, 2**40, 'a', 'b', 'c', 'd', ('t', 1), ('t', 2), (-1,), (-2,), 1.5]
ALIASES = {1: [1.0, 'np1'], 2: [2.0], 3: ['np3'], 0: [0.0]}


def enc(l):
    if isinstance(l, tuple):
        return {"t": list(l)}
    if isinstance(l, float):
        return {"f": l}
    return l


def dec(j, alias=False):
    if isinstance(j, dict):
        if "t" in j:
            return tuple(j["t"])
        if "f" in j:
            return float(j["f"])
        if "np" in j:
            return np.int64(j["np"])
    return j


class Atoms:
    def __init__(self):
        self.tab = {}

    def lab(self, l):
        """python label -> Coq lab term"""
        if isinstance(l, (int, np.integer)) and not isinstance(l, bool):
            return f"(LI {cz(int(l))})"
        if isinstance(l, float) and l == int(l):
            return f"(LI {cz(int(l))})"
        k = repr(l)
        if k not in self.tab:
            self.tab[k] = len(self.tab)
        return f"(LA {cnat(self.tab[k])})"


def rand_label(rng, np_ok=True):
    l = rng.choice(ALPHABET)
    r = rng.random()
    if r < 0.12 and isinstance(l, int) and l >= 0:
        return {"f": float(l)}
    if r < 0.2 and isinstance(l, int) and np_ok:
        return {"np": l}
    return enc(l)


def strip_tuples(j):
    if isinstance(j, dict) and "t" in j:
        return "tt%s" % j["t"][1]
    if isinstance(j, list):
        return [strip_tuples(x) for x in j]
    return j


def strip_np(j):
    if isinstance(j, dict) and "np" in j:
        return j["np"]
    if isinstance(j, list):
        return [strip_np(x) for x in j]
    return j


def has_kind(j, k):
    if isinstance(j, dict):
        return k in j
    if isinstance(j, list):
        return any(has_kind(x, k) for x in j)
    return False


def gen_case(rng, tier):
    # numpy-integer labels and tuple labels are mixed freely again: the defect recorded as
    # C13-np-tuple (np.int64(4) == ('t', 2) is an array in NumPy) was repaired in /repo (6afc2cb)
    return gen_case0(rng, tier)


FORKS = ["copy", "copy_mod", "deepcopy", "pickle", "ctor_vars", "rebuild_list", "rebuild_iter", "slice_all"]


def rand_range(rng):
    r = rng.random()
    if r < 0.55:
        return [0, rng.choice([0, 1, 2, 3, 4, 6, -1, -3]), 1]            # the constructor's fast path
    return [rng.randint(-2, 3), rng.randint(-3, 7), rng.choice([1, 1, 2, -1, -2, 3])]


def gen_case0(rng, tier):
    n0 = rng.randint(0, 6)
    init = []
    for _ in range(n0):
        init.append(rand_label(rng))
    r = rng.random()
    ctor = "append" if r < 0.4 else "list" if r < 0.55 else "iter" if r < 0.65 else "vars" if r < 0.75 else "range"
    if ctor == "range":
        init = {"range": rand_range(rng)}
    steps = []
    for _ in range(rng.randint(1, 14 if tier == "quick" else 40)):
        r = rng.random()
        if r < 0.06:
            steps.append(["fork", rng.choice(FORKS)])
        elif r < 0.09:
            steps.append(["index_perm", rand_label(rng)])
        elif r < 0.12:
            steps.append(["extend_range", rand_range(rng), rng.random() < 0.6])
        elif r < 0.22:
            steps.append(["append", rand_label(rng) if rng.random() < 0.75 else None, rng.random() < 0.4])
        elif r < 0.30:
            steps.append(["extend", [rand_label(rng) for _ in range(rng.randint(0, 3))], rng.random() < 0.6,
                          rng.choice(["list", "tuple", "iter", "vars"])])
        elif r < 0.40:
            steps.append(["pop"])
        elif r < 0.70:
            # relabel: partial / swap / cycle / conflicting / absent keys
            k = rng.randint(1, 4)
            keys = [rand_label(rng) for _ in range(k)]
            mode = rng.random()
            if mode < 0.35:
                vals = keys[1:] + keys[:1]          # cycle / swap
            elif mode < 0.5:
                vals = list(reversed(keys))
            elif mode < 0.8:
                vals = [rand_label(rng) for _ in range(k)]
            else:
                # {"cur": i}: the label currently at position i (mod len) - resolved when the case runs; reaches existing labels
                # of every storage shape (integers at their own index, displaced integers, strings) as relabel targets / keys
                vals = [{"cur": rng.randint(0, 7)} for _ in range(k)]
                if rng.random() < 0.5:
                    keys = [{"cur": rng.randint(0, 7)} for _ in range(k)]
            if rng.random() < 0.15:
                # two-pass route next to the intermediate labels resolve_label_conflict would pick: a swap / cycle among
                # labels currently held plus entries whose keys or targets are the integers 2*len(mapping), +1, ...
                # (absent or present, before or after the overlapping entries)
                kk = rng.randint(2, 3)
                base = rng.randint(0, 7)
                keys = [{"cur": base + i} for i in range(kk)]
                vals = keys[1:] + keys[:1]
                extra = rng.randint(1, 2)
                n = kk + extra
                pairs = [[a, b] for a, b in zip(keys, vals)]
                for _e in range(extra):
                    c = 2 * n + rng.randint(0, 2)
                    ent = [c, rand_label(rng)] if rng.random() < 0.6 else [rand_label(rng), c]
                    pairs.insert(rng.randint(0, len(pairs)) if rng.random() < 0.4 else len(pairs), ent)
                steps.append(["relabel", pairs])
                continue
            steps.append(["relabel", [[a, b] for a, b in zip(keys, vals)]])
        elif r < 0.76:
            steps.append(["relabel_ints"])
        elif r < 0.95:
            steps.append(["remove", rand_label(rng)])
        else:
            steps.append(["clear"])
    return {"init": init, "ctor": ctor, "steps": steps, "slices": rand_slices(rng)}


DEFAULT_SLICES = [[1, None, None], [None, 2, None], [None, None, 2], [None, -1, None], [None, None, -1], [-2, 9, None]]


def rand_slices(rng):
    """slice probes asked after every operation: missing, negative, out-of-range bounds; steps of both signs and 0"""
    out = []
    for _ in range(rng.randint(3, 6)):
        q = []
        for _k in range(2):
            q.append(None if rng.random() < 0.3 else rng.randint(-9, 9))
        r = rng.random()
        q.append(None if r < 0.3 else (0 if r < 0.34 else rng.choice([1, -1, 2, -2, 3, -3, 5, -7])))
        out.append(q)
    return out


def list_slice(lst, q):
    try:
        return lst[slice(*q)]
    except ValueError:
        return None


def safe_eq(a, b):
    if isinstance(a, tuple) != isinstance(b, tuple):
        return False
    return bool(a == b)


def norm_key(l):
    """python dict semantics: 1 == 1.0 == np.int64(1)"""
    return l


def run_case(c):
    mix = has_kind([c["init"], c["steps"]], "np") and has_kind([c["init"], c["steps"]], "t")
    try:
        return run_case0(c, mix)
    except ValueError as e:
        if "truth value of an array" in str(e):
            return {"py_fail": "ValueError from comparing a numpy-integer label with a tuple label: " + str(e),
                    "features": {"np_tuple_mix": mix}}
        raise


def run_case0(c, mix):
    A = Atoms()
    probes = list(ALPHABET) + [1.0, np.int64(3), 7]
    ctor = c.get("ctor", "append")
    init = []
    first = None                      # (Coq op, label) of the construction when it is not the legacy append loop
    if isinstance(c["init"], dict):
        a, b, st = c["init"]["range"]
        v = Variables(range(a, b, st))
        # the model dispatches like cyVariables.__init__ (fast path condition generated from the source)
        first = f"(ORangeCtor {cz(a)} {cz(b)} {cz(st)})"
        if list(v) != list(range(a, b, st)):
            return {"py_fail": f"Variables(range({a}, {b}, {st})) holds {list(v)!r}", "features": {"op": "ctor_range"}}
    elif ctor == "append":
        v = Variables()
        for j in c["init"]:
            l = dec(j)
            v._append(l, permissive=True)
            init.append(l)
    else:
        ls = [dec(j) for j in c["init"]]
        if ctor == "list":
            v = Variables(ls)
        elif ctor == "iter":
            v = Variables(x for x in ls)
        else:
            v = Variables(Variables(ls))
        first = f"(OCtor {clist([A.lab(l) for l in ls])})"
    py_fail = None
    slices = c.get("slices", DEFAULT_SLICES)
    olds = []                         # (object, snapshot, how) of objects the history has left behind

    def snapshot(w):
        st = w.__reduce__()[2][:3]
        return (list(w), repr(sorted(map(repr, st[0].items()))), repr(sorted(map(repr, st[1].items()))), st[2])

    def cslice(q):
        return "(%s, %s, %s)" % tuple("None" if x is None else f"(Some {cz(int(x))})" for x in q)

    def seen(ok, ret):
        i2l, l2i, stop = v.__reduce__()[2][:3]
        for k in i2l:
            if isinstance(k, (str, tuple)) or k != int(k) or k < 0:
                raise AssertionError(f"non-index key {k!r} in _index_to_label")
        for k, val in l2i.items():
            if isinstance(val, (str, tuple)) or val != int(val) or val < 0:
                raise AssertionError(f"non-index value {val!r} in _label_to_index")
        lst = list(v)
        cnt = [bool(v.count(p)) for p in probes]
        idx = []
        for p in probes:
            try:
                idx.append(int(v.index(p)))
            except ValueError:
                idx.append(None)
        sl = []
        for q in slices:
            try:
                sl.append(list(v[slice(*q)]))
            except (ValueError, IndexError):
                sl.append(None)
        seen.slices = sl
        return ("(mkSeen %s %s %s %s %s %s %s %s %s)" % (
            cbool(ok), copt(A.lab(ret)) if ret is not None else "None",
            clist([cpair(cnat(int(k)), A.lab(l)) for k, l in i2l.items()]),
            clist([cpair(A.lab(l), cnat(int(k))) for l, k in l2i.items()]),
            cnat(stop), clist([A.lab(l) for l in lst]), clist([cbool(b) for b in cnt]),
            clist([copt(cnat(i)) if i is not None else "None" for i in idx]),
            clist(["None" if x is None else "(Some %s)" % clist([A.lab(l) for l in x]) for x in sl])), lst)

    steps = []
    nontrivial = False
    kinds = set()
    if first is not None:
        try:
            s0, _ = seen(True, None)
        except AssertionError as e:
            return {"py_fail": "internal dicts corrupted: " + str(e), "features": {"op": "ctor", "np_tuple_mix": mix}}
        steps.append(cpair(first, s0))
        kinds.add("ctor_" + ("range" if isinstance(c["init"], dict) else ctor))

    def cur_label(j):
        """{"cur": i} -> the label currently at position i mod len (a fixed fresh label when empty)"""
        if isinstance(j, dict) and "cur" in j:
            n = len(v)
            return v[j["cur"] % n] if n else 'd'
        return dec(j)

    for st in c["steps"]:
        name = st[0]
        ok, ret = True, None
        try:
            if name == "fork":
                how = st[1]
                old = v
                if how == "copy":
                    v = old.copy()
                elif how == "copy_mod":
                    v = copy.copy(old)
                elif how == "deepcopy":
                    v = copy.deepcopy(old)
                elif how == "pickle":
                    v = pickle.loads(pickle.dumps(old))
                elif how == "ctor_vars":
                    v = Variables(old)
                elif how == "rebuild_list":
                    v = Variables(list(old))
                elif how == "rebuild_iter":
                    v = Variables(x for x in list(old))
                else:
                    v = old[:]
                if how in ("copy", "copy_mod", "deepcopy", "pickle", "ctor_vars"):
                    coqop = "OCopy"
                else:
                    coqop = f"(OCtor {clist([A.lab(l) for l in list(old)])})"
                if v is old or type(v) is not Variables:
                    py_fail = py_fail or f"{how} returned {'the same object' if v is old else type(v).__name__}"
                olds.append((old, snapshot(old), how))
                del olds[:-3]
            elif name == "index_perm":
                l = dec(st[1])
                coqop = f"(OAppend {copt(A.lab(l))} true)"
                i = v.index(l, permissive=True)
                ret = l
                lst_now = list(v)
                if not (0 <= i < len(lst_now)) or A.lab(lst_now[i]) != A.lab(l):
                    py_fail = py_fail or f"index({l!r}, permissive=True) returned {i} but the labels are {lst_now!r}"
            elif name == "extend_range":
                a, b, stp = st[1]
                coqop = f"(OExtend {clist([A.lab(l) for l in range(a, b, stp)])} {cbool(st[2])})"
                v._extend(range(a, b, stp), permissive=st[2])
            elif name == "append":
                l = None if st[1] is None else dec(st[1])
                coqop = f"(OAppend {copt(A.lab(l)) if l is not None else 'None'} {cbool(st[2])})"
                ret = v._append(l, permissive=st[2])
            elif name == "extend":
                ls = [dec(x) for x in st[1]]
                coqop = f"(OExtend {clist([A.lab(l) for l in ls])} {cbool(st[2])})"
                form = st[3] if len(st) > 3 else "list"
                if form == "vars":
                    try:
                        arg = Variables(ls)
                        if [repr(x) for x in arg] != [repr(x) for x in ls]:
                            arg = ls                   # duplicates among the labels: keep the plain list
                    except ValueError:
                        arg = ls
                else:
                    arg = tuple(ls) if form == "tuple" else (x for x in ls) if form == "iter" else ls
                v._extend(arg, permissive=st[2])
            elif name == "pop":
                coqop = "OPop"
                ret = v._pop()
            elif name == "relabel":
                pairs = []
                seenk = []
                for a, b in st[1]:
                    a, b = cur_label(a), cur_label(b)
                    if any(safe_eq(a, k) for k in seenk):
                        continue
                    seenk.append(a)
                    pairs.append((a, b))
                coqop = f"(ORelabel {clist([cpair(A.lab(a), A.lab(b)) for a, b in pairs])})"
                v._relabel(dict(pairs))
            elif name == "relabel_ints":
                coqop = "ORelabelInts"
                before = list(v)
                back = v._relabel_as_integers()
                w = v.copy()
                w._relabel(back)
                if list(w) != before:
                    py_fail = f"_relabel_as_integers mapping does not restore labels: {before} -> {list(w)}"
            elif name == "remove":
                l = dec(st[1])
                coqop = f"(ORemove {A.lab(l)})"
                v._remove(l)
            elif name == "clear":
                coqop = "OClear"
                v._clear()
        except (ValueError, IndexError):
            ok = False
        try:
            s, lst = seen(ok, ret)
        except AssertionError as e:
            return {"py_fail": "internal dicts corrupted: " + str(e), "features": {"op": name, "np_tuple_mix": mix}}
        kinds.add(name)
        steps.append(cpair(coqop, s))
        if ok and name not in ("clear", "fork"):
            nontrivial = True
        # objects left behind by a fork must not be affected by what happens to the object the history continued on
        if py_fail is None:
            for old, snap, how in olds:
                if snapshot(old) != snap:
                    py_fail = (f"the object left behind by {how} changed from {snap[0]!r} to {list(old)!r} when {name} was called "
                               f"on the other object")
                    break
        # list-like behaviour of the public API against the sequence it shows
        if py_fail is None:
            if len(v) != len(lst):
                py_fail = "len differs from iteration"
            elif any(v[i] != lst[i] for i in range(len(lst))) or (lst and v[-1] != lst[-1]):
                py_fail = "indexing differs from iteration"
            elif list(v[1:]) != lst[1:] or list(v[:min(2, len(lst))]) != lst[:2] or list(v[::2]) != lst[::2]:
                py_fail = "slicing differs from list slicing"
            elif any(got != list_slice(lst, q) for q, got in zip(slices, seen.slices)):
                q, got = next((q, got) for q, got in zip(slices, seen.slices) if got != list_slice(lst, q))
                py_fail = f"v[{q[0]}:{q[1]}:{q[2]}] gives {got!r}, the list gives {list_slice(lst, q)!r};"
            elif not (v == lst) or (lst and v == lst[:-1]) or (v != lst):
                py_fail = "equality with the list is wrong"
            # (with a numpy-integer label next to a tuple label even two plain Python lists cannot be compared
            #  position by position, so the order test is only made without that mix)
            elif not (v == Variables(lst)) or (v != Variables(lst)):
                py_fail = "equality with an equal Variables object is wrong"
            elif len(lst) > 1 and not mix and (v == Variables(lst[1:] + lst[:1]) or v == Variables(lst[::-1]) and lst[::-1] != lst):
                py_fail = "a Variables object with the same labels in another order compares equal"
            elif list(v.copy()) != lst or list(copy.deepcopy(v)) != lst or list(pickle.loads(pickle.dumps(v))) != lst:
                py_fail = "copy/pickle differs"
            elif any((p in v) != any(safe_eq(p, x) for x in lst) for p in probes):
                py_fail = "membership differs from list membership"
            elif v._is_range() != (lst == list(range(len(lst)))) and v._is_range():
                py_fail = "_is_range true for a non-range"
            if py_fail:
                py_fail += f" after {name} (labels {lst!r})"
    coq = "(mkCase %s %s %s %s)" % (clist([A.lab(l) for l in init]), clist([A.lab(p) for p in probes]),
                                   clist([cslice(q) for q in slices]), clist(steps))
    return {"coq": coq, "py_fail": py_fail, "nontrivial": nontrivial,
            "features": {"ops": sorted(kinds), "np_tuple_mix": mix},
            "observed": {"ops": sorted(kinds)}}


if __name__ == "__main__":
    wlib.main(gen_case, run_case)
