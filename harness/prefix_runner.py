"""Child process of the C10 worker: loads prefixes of one file, one result line per prefix.

stdin : {"kind": bqm|qm|cqm|dqm, "hex": <file>, "ks": [...], "how": bytes|file|load_bytes, "timeout": seconds,
         "member": optional name of a zip member of a CQM file: then k cuts that member inside a valid zip}
stdout: "R <digest of the reference state>" then, per k, "k E|Q|D <detail>" flushed immediately, so that
        the parent knows which prefix was being loaded when the process died (crash) or was killed by the
        per-prefix SIGALRM (hang: the default action of SIGALRM terminates the process even inside C code).
"""
import json
import signal
import sys
import hashlib


def main():
    job = json.load(sys.stdin)
    import codecgen as G
    data = bytes.fromhex(job["hex"])
    kind, how = job["kind"], job.get("how", "bytes")
    member = job.get("member")        # cut this zip member instead of the file
    if job.get("noref"):
        # the file itself is already a cut: any successful load is a different model
        ref = {"noref": True}
        sys.stdout.write("R noref\n")
    else:
        ref = G.state_of(G.load_as(kind, data, how))
        sys.stdout.write("R " + hashlib.sha256(json.dumps(ref, sort_keys=True).encode()).hexdigest() + "\n")
    sys.stdout.flush()
    tmo = float(job.get("timeout", 10))
    for k in job["ks"]:
        sys.stdout.write(f"S {k}\n")
        sys.stdout.flush()
        signal.setitimer(signal.ITIMER_REAL, tmo)
        try:
            if isinstance(member, list):     # k encodes (member index, cut) as index*100000 + cut
                m = G.load_as('cqm', G.cut_member(data, member[k // 100000], k % 100000), how)
            elif member is not None:
                m = G.load_as('cqm', G.cut_member(data, member, k), how)
            else:
                m = G.load_as(kind, data[:k], how)
            d = G.diff_state(ref, G.state_of(m))
            out = "Q" if d is None else "D " + d.replace("\n", " ")[:300]
        except Exception as e:        # ordinary Python exception
            out = "E " + type(e).__name__
        except BaseException as e:    # SystemExit & co. are not ordinary
            out = "D BaseException " + type(e).__name__
        signal.setitimer(signal.ITIMER_REAL, 0)
        sys.stdout.write(f"{k} {out}\n")
        sys.stdout.flush()


if __name__ == "__main__":
    main()
