"""C20, C++ half: build + drive cpp/driver.cpp (compiled against the headers of
the tree under test with ASan/UBSan and live assertions), op generators, the
precondition filter, and the rendering of the observations as Coq terms."""
import fcntl
import hashlib
import json
import os
import select
import subprocess
import time
from fractions import Fraction

from wlib import cq, clist, cnat, cpair, cbool, copt

ROOT = os.path.dirname(os.path.dirname(os.path.abspath(__file__)))
DRIVER_SRC = os.path.join(ROOT, "cpp", "driver.cpp")
CACHE = os.path.join(ROOT, "_work", "c20-driver")
FLAGS = ["-std=c++11", "-O1", "-g", "-fsanitize=address,undefined", "-fno-sanitize-recover=all",
         "-UNDEBUG", "-D_GLIBCXX_ASSERTIONS", "-Wno-deprecated-declarations"]
VT = ["BINARY", "SPIN", "INTEGER", "REAL"]
INT_MAX = Fraction(2 ** 53 - 1)
REAL_MAX = Fraction(1e30)
DEFAULT_BOUNDS = {0: (Fraction(0), Fraction(1)), 1: (Fraction(-1), Fraction(1)),
                  2: (Fraction(0), INT_MAX), 3: (Fraction(0), REAL_MAX)}
VT_MIN = {0: Fraction(0), 1: Fraction(-1), 2: -INT_MAX, 3: -REAL_MAX}
VT_MAX = {0: Fraction(1), 1: Fraction(1), 2: INT_MAX, 3: REAL_MAX}


# ----------------------------------------------------------------------------
# build
# ----------------------------------------------------------------------------
def tree_of_dimod():
    import dimod
    return os.path.dirname(os.path.dirname(os.path.abspath(dimod.__file__)))


def ensure_driver(tree=None, compilers=("clang++", "g++")):
    """compile cpp/driver.cpp against <tree>/dimod/include; cached on a hash of
    the headers, the driver, the flags and the compiler preference.  Returns (path, compiler, error).
    compilers=("g++",) gives the build used for the cq.* comparison: the order in which
    add_quadratic(enforce_variable(u), enforce_variable(v)) evaluates its arguments is unspecified
    in C++; Model/Expr.v mirrors the GCC-built extension (v first), so that comparison needs GCC."""
    # C20_HEADERS_TREE: test-only override used by the mutation sanity script (headers from another tree)
    tree = tree or os.environ.get("C20_HEADERS_TREE") or tree_of_dimod()
    inc = os.path.join(tree, "dimod", "include")
    h = hashlib.sha256()
    hdrs = []
    for d, _, fn in os.walk(inc):
        for f in fn:
            hdrs.append(os.path.join(d, f))
    for p in sorted(hdrs) + [DRIVER_SRC]:
        h.update(os.path.relpath(p, tree if p != DRIVER_SRC else ROOT).encode())
        h.update(open(p, "rb").read())
    h.update(" ".join(FLAGS).encode())
    h.update("|".join(compilers).encode())
    key = h.hexdigest()[:20]
    os.makedirs(CACHE, exist_ok=True)
    out = os.path.join(CACHE, key)
    exe = os.path.join(out, "driver")
    with open(os.path.join(CACHE, ".lock-" + key), "w") as lk:
        fcntl.flock(lk, fcntl.LOCK_EX)
        if os.path.exists(exe):
            os.utime(exe)
            return exe, open(os.path.join(out, "compiler")).read().strip(), None
        os.makedirs(out, exist_ok=True)
        errs = []
        for cxx in compilers:
            r = subprocess.run([cxx] + FLAGS + ["-I", inc, DRIVER_SRC, "-o", exe + ".tmp"],
                               capture_output=True, text=True)
            ok = r.returncode == 0
            if ok:
                # the sanitizer runtime must actually link and start
                t = subprocess.run([exe + ".tmp"], input="case probe\nnop\n", capture_output=True, text=True)
                ok = t.returncode == 0 and '"done"' in t.stdout
                if not ok:
                    errs.append(f"{cxx}: binary does not run: {t.stderr[-500:]}")
            else:
                errs.append(f"{cxx}: {r.stderr[-3000:]}")
            if ok:
                os.rename(exe + ".tmp", exe)
                open(os.path.join(out, "compiler"), "w").write(cxx)
                # keep the cache small
                ds = sorted((d for d in os.listdir(CACHE) if os.path.isdir(os.path.join(CACHE, d))),
                            key=lambda d: os.path.getmtime(os.path.join(CACHE, d)), reverse=True)
                for d in ds[6:]:
                    if d != key:
                        subprocess.run(["rm", "-rf", os.path.join(CACHE, d)])
                return exe, cxx, None
        return None, None, "\n".join(errs)


# ----------------------------------------------------------------------------
# interactive driver session
# ----------------------------------------------------------------------------
class Session:
    def __init__(self, exe, timeout=10.0):
        env = dict(os.environ)
        env["ASAN_OPTIONS"] = "detect_leaks=1:abort_on_error=0:exitcode=23:allocator_may_return_null=1"
        env["UBSAN_OPTIONS"] = "print_stacktrace=1:halt_on_error=1:exitcode=24"
        self.p = subprocess.Popen([exe], stdin=subprocess.PIPE, stdout=subprocess.PIPE, stderr=subprocess.PIPE,
                                  env=env, bufsize=0)
        self.buf = b""
        self.timeout = timeout
        self.sent = []

    def _line(self):
        fd = self.p.stdout.fileno()
        end = time.time() + self.timeout
        while b"\n" not in self.buf:
            left = end - time.time()
            if left <= 0:
                return "timeout"
            r, _, _ = select.select([fd], [], [], left)
            if not r:
                return "timeout"
            chunk = os.read(fd, 1 << 16)
            if not chunk:
                return None
            self.buf += chunk
        line, self.buf = self.buf.split(b"\n", 1)
        return line.decode()

    def send(self, text):
        """returns parsed JSON line, or {'dead': reason}"""
        self.sent.append(text)
        try:
            self.p.stdin.write((text + "\n").encode())
            self.p.stdin.flush()
        except (BrokenPipeError, OSError):
            return self.dead("pipe closed")
        ln = self._line()
        if ln is None:
            return self.dead("eof")
        if ln == "timeout":
            self.p.kill()
            return self.dead("hang (no answer in %.0f s)" % self.timeout)
        try:
            d = json.loads(ln)
        except Exception:
            return self.dead("unparsable output: " + ln[:200])
        if "invariant_broken" in d:
            x = self.dead("invariant")
            x["invariant_broken"] = d["invariant_broken"]
            return x
        return d

    def dead(self, why):
        try:
            self.p.stdin.close()
        except Exception:
            pass
        try:
            err = self.p.stderr.read().decode(errors="replace")
        except Exception:
            err = ""
        try:
            rc = self.p.wait(timeout=10)
        except Exception:
            self.p.kill()
            rc = "killed"
        return {"dead": why, "rc": rc, "stderr": err[-6000:]}

    def close(self):
        """end of input: the driver destroys every object; leaks / double frees show here"""
        try:
            self.p.stdin.close()
        except Exception:
            pass
        try:
            out = self.p.stdout.read()
            err = self.p.stderr.read()
            self.p.wait(timeout=20)
        except subprocess.TimeoutExpired:
            self.p.kill()
            return {"dead": "hang at exit", "rc": "killed", "stderr": ""}
        out = (self.buf + (out or b"")).decode(errors="replace")
        if self.p.returncode != 0 or '"done"' not in out:
            return {"dead": "exit", "rc": self.p.returncode, "stderr": (err or b"").decode(errors="replace")[-6000:]}
        return None


def classify_death(d):
    e = d.get("stderr", "")
    if d.get("dead") == "invariant" or "INVARIANT:" in e:
        return "native_invariant"
    if "BADINPUT" in e:
        return "harness_badinput"
    if "AddressSanitizer" in e or "LeakSanitizer" in e:
        return "asan"
    if "runtime error:" in e:
        return "ubsan"
    if "Assertion" in e:
        return "assertion"
    if "hang" in str(d.get("dead")):
        return "hang"
    return "crash"


def fhex(s):
    if s in ("inf", "-inf", "nan"):
        return s
    return Fraction(float.fromhex(s))


def fnum(x):
    """exact decimal text of a dyadic Fraction for the driver's strtod"""
    x = Fraction(x)
    if x.denominator == 1:
        return str(x.numerator)
    f = float(x)
    assert Fraction(f) == x, x
    return repr(f)


# ----------------------------------------------------------------------------
# QM / BQM ops: generation
# ----------------------------------------------------------------------------
MULTS = [Fraction(1), Fraction(-1), Fraction(2), Fraction(-2), Fraction(1, 2), Fraction(-1, 2), Fraction(3),
         Fraction(3, 2), Fraction(0), Fraction(1, 4), Fraction(-3)]
SHIFTS = [Fraction(0), Fraction(1), Fraction(-1), Fraction(1, 2), Fraction(-1, 2), Fraction(2), Fraction(-2),
          Fraction(3, 2), Fraction(3)]


def small(rng):
    return Fraction(rng.randint(-12, 12), rng.choice([1, 1, 2, 4]))


def rand_bounds(rng, vt):
    if vt == 0:
        return Fraction(0), Fraction(1)
    if vt == 1:
        return Fraction(-1), Fraction(1)
    lo = Fraction(rng.randint(-9, 4)) if vt == 2 else Fraction(rng.randint(-18, 8), 2)
    hi = lo + (Fraction(rng.randint(0, 12)) if vt == 2 else Fraction(rng.randint(0, 24), 2))
    return lo, hi


class Track:
    """sizes and vartypes only; the exact precondition filter runs against the observed state"""

    def __init__(self):
        self.n = [0, 0, 0, 0]
        self.vt = [[], [], 0, 1]          # QM: list per variable; BQM: single code

    def isq(self, s):
        return s < 2


def gen_model_ops(rng, nops):
    T = Track()
    ops = []

    def idx(s):
        return rng.randrange(T.n[s])

    def grow(s, k=None):
        k = k or rng.randint(1, 3)
        for _ in range(k):
            if T.isq(s):
                vt = rng.choice([0, 1, 2, 2, 2, 3])
                r = rng.random()
                if r < 0.6:
                    ops.append(["addvar", s, vt])
                else:
                    lb, ub = rand_bounds(rng, vt)
                    ops.append(["addvarb", s, vt, str(lb), str(ub)])
                T.vt[s].append(vt)
            else:
                ops.append(["addvar", s, 0])
            T.n[s] += 1

    def del_at(s, v):
        if T.isq(s):
            del T.vt[s][v]
        T.n[s] -= 1

    def set_n(s, k, vt=0):
        if T.isq(s):
            T.vt[s] = T.vt[s][:k] + [vt] * max(0, k - len(T.vt[s]))
        T.n[s] = k

    def copy_slot(a, b):
        T.n[a] = T.n[b]
        T.vt[a] = list(T.vt[b]) if T.isq(b) else T.vt[b]

    focus = rng.choice([0, 0, 1, 2, 2, 3])
    nmult = 0
    while len(ops) < nops:
        s = focus if rng.random() < 0.7 else rng.randrange(4)
        n = T.n[s]
        r = rng.random()
        if n == 0 or (n < 3 and r < 0.3) or (n < 7 and r < 0.06):
            grow(s)
            continue
        k = rng.choice(["addlin", "setlin", "addoff", "setoff", "addq", "addq", "addq", "addq", "setq", "setq",
                        "addqb", "dense", "coo", "remint", "remint", "remints", "remvar", "remvars", "resize",
                        "scale", "fix", "subst", "substall", "chvt", "clear", "copy", "move", "swap", "qmofbqm",
                        "ctor", "energy", "bounds", "addvars", "setvt"])
        if k in ("addlin", "setlin"):
            ops.append([k, s, idx(s), str(small(rng))])
        elif k in ("addoff", "setoff"):
            ops.append([k, s, str(small(rng))])
        elif k in ("addq", "setq"):
            u, v = idx(s), idx(s)
            if rng.random() < 0.75 and n > 1:
                while v == u:
                    v = idx(s)
            ops.append([k, s, u, v, str(small(rng))])
        elif k == "addqb":
            # a fresh variable has no neighbours and the largest index: the ordering promise holds for
            # increasing u; further random attempts are filtered against the observed state
            if rng.random() < 0.6:
                grow(s, 1)
                v = T.n[s] - 1
                us = sorted(rng.sample(range(v), rng.randint(1, min(3, v)))) if v > 0 else []
                for u in us:
                    ops.append(["addqb", s, u, v, str(small(rng))] if rng.random() < 0.5 else
                               ["addqb", s, v, u, str(small(rng))])
                if rng.random() < 0.5:
                    ops.append(["addqb", s, v, v, str(small(rng))])
            else:
                ops.append(["addqb", s, idx(s), idx(s), str(small(rng))])
        elif k == "dense":
            kk = rng.randint(0, min(n, 4))
            if rng.random() < 0.25:
                ops.append(["densei", s, kk] + [rng.choice([0, 0, 1, -2, 3]) for _ in range(kk * kk)])
            else:
                ops.append(["dense", s, kk] + [str(small(rng)) if rng.random() < 0.6 else "0" for _ in range(kk * kk)])
        elif k == "coo":
            m = rng.randint(0, 5)
            hi = n if T.isq(s) else n + rng.choice([0, 0, 1, 3])
            rows = [rng.randrange(hi) for _ in range(m)]
            cols = [rng.randrange(hi) for _ in range(m)]
            ops.append(["coo", s, m] + rows + cols + [str(small(rng)) for _ in range(m)])
            if not T.isq(s) and m:
                set_n(s, max(n, max(rows + cols) + 1))
        elif k == "remint":
            ops.append(["remint", s, idx(s), idx(s)])
        elif k == "remints":
            kind = rng.choice([0, 1, 1, 2, 3])
            par = {0: str(small(rng)), 1: rng.choice([0, 1]), 2: idx(s), 3: 0}[kind]
            ops.append(["remints", s, kind, par])
        elif k == "remvar":
            v = idx(s)
            ops.append(["remvar", s, v])
            del_at(s, v)
        elif k == "remvars":
            m = rng.randint(0, min(n, 4))
            vs = rng.sample(range(n), m)
            if rng.random() < 0.5:
                vs.sort()
            ops.append(["remvars", s, m] + vs)
            for v in sorted(vs, reverse=True):
                del_at(s, v)
        elif k == "resize":
            if T.isq(s):
                r2 = rng.random()
                if r2 < 0.4:
                    kk = rng.randint(0, n)
                    ops.append(["resize", s, kk])
                    set_n(s, kk)
                elif r2 < 0.7:
                    kk = rng.randint(0, n + 3)
                    vt = rng.choice([0, 1])
                    ops.append(["resizevt", s, kk, vt])
                    set_n(s, kk, vt)
                else:
                    kk = rng.randint(1, n + 3)
                    vt = rng.choice([0, 1, 2, 3])
                    lb, ub = rand_bounds(rng, vt)
                    ops.append(["resizeb", s, kk, vt, str(lb), str(ub)])
                    set_n(s, kk, vt)
            else:
                kk = rng.randint(0, n + 3)
                ops.append(["resize", s, kk])
                set_n(s, kk)
        elif k == "scale" and nmult < 4:
            nmult += 1
            ops.append(["scale", s, str(rng.choice(MULTS))])
        elif k == "fix":
            v = idx(s)
            if rng.random() < 0.3:
                ops.append(["fixi", s, v, rng.choice([0, 1, -1, 2, 3])])
            else:
                ops.append(["fix", s, v, str(rng.choice(SHIFTS))])
            del_at(s, v)
        elif k == "subst" and nmult < 4:
            nmult += 1
            ops.append(["subst", s, idx(s), str(rng.choice(MULTS)), str(rng.choice(SHIFTS))])
        elif k == "substall" and nmult < 4:
            nmult += 1
            ops.append(["substall", s, str(rng.choice(MULTS)), str(rng.choice(SHIFTS))])
        elif k == "chvt" and nmult < 5:
            nmult += 1
            if T.isq(s):
                v = idx(s)
                vt = rng.choice([0, 1, 2, 2, 3])
                ops.append(["chvt", s, vt, v])
                src = T.vt[s][v]
                if (src, vt) in ((1, 0), (0, 1), (1, 2), (0, 2)):
                    T.vt[s][v] = vt
            else:
                vt = rng.choice([0, 1, 0, 1, 2])
                ops.append(["chvt", s, vt])
                if vt < 2:
                    T.vt[s] = vt
        elif k == "clear" and rng.random() < 0.4:
            ops.append(["clear", s])
            set_n(s, 0)
        elif k in ("copy", "move", "swap"):
            mates = [0, 1] if T.isq(s) else [2, 3]
            o = mates[1] if s == mates[0] else mates[0]
            if k == "copy":
                a, b = rng.choice([(s, o), (o, s), (s, s)])
                ops.append([rng.choice(["copyctor", "copyassign"]) if a != b else "copyassign", a, b])
                copy_slot(a, b)
            elif k == "swap":
                ops.append(["swap", s, o])
                nn, vv = T.n[s], T.vt[s]
                copy_slot(s, o)
                T.n[o], T.vt[o] = nn, vv
            else:
                a, b = rng.choice([(s, o), (o, s)])
                kind = rng.choice(["movector", "moveassign"])
                if rng.random() < 0.5:
                    ops.append([kind, a, b, "clear"])
                    copy_slot(a, b)
                    if T.isq(b):
                        T.vt[b] = []
                    T.n[b] = 0
                else:
                    ops.append([kind, a, b, "assign", a])
                    copy_slot(a, b)
        elif k == "qmofbqm":
            a, b = rng.choice([0, 1]), rng.choice([2, 3])
            ops.append(["qmofbqm", a, b, rng.choice([0, 1])])
            T.n[a] = T.n[b]
            T.vt[a] = [T.vt[b]] * T.n[b]
        elif k == "ctor" and not T.isq(s) and rng.random() < 0.5:
            kk = rng.randint(0, 4)
            vt = rng.choice([0, 1])
            if rng.random() < 0.6:
                ops.append(["densector", s, kk, vt] + [str(small(rng)) if rng.random() < 0.6 else "0"
                                                        for _ in range(kk * kk)])
            else:
                ops.append(["bqmctor", s, kk, vt])
            T.n[s] = kk
            T.vt[s] = vt
        elif k == "energy":
            ops.append(["energy", s] + [str(rng.choice([0, 1, -1, 2, 3, Fraction(1, 2)])) for _ in range(n)])
        elif k == "bounds" and T.isq(s):
            v = idx(s)
            if T.vt[s][v] >= 2:
                lb, ub = rand_bounds(rng, T.vt[s][v])
                ops.append(["setlb", s, v, str(lb)])
                ops.append(["setub", s, v, str(ub)])
        elif k == "addvars" and T.isq(s):
            vt = rng.choice([0, 1, 2, 3])
            m = rng.randint(0, 3)
            if rng.random() < 0.5:
                ops.append(["addvars", s, vt, m])
            else:
                lb, ub = rand_bounds(rng, vt)
                ops.append(["addvarsb", s, vt, m, str(lb), str(ub)])
            T.vt[s] += [vt] * m
            T.n[s] += m
        elif k == "setvt" and T.isq(s) and rng.random() < 0.5:
            v = idx(s)
            vt = rng.choice([2, 3, 2, 0, 1])
            ops.append(["setvt", s, v, vt])
            T.vt[s][v] = vt     # dropped by the filter when v carries a self-loop and vt is BINARY/SPIN
    return ops[:nops + 6]


# ----------------------------------------------------------------------------
# precondition filter against the observed state (documented preconditions only)
# ----------------------------------------------------------------------------
def empty_slots():
    def e(bvt):
        return {"n": 0, "lin": [], "adj": [], "off": "0x0p+0", "ni": 0, "deg": [], "isl": 1, "vt": [], "lb": [], "ub": [],
                "bvt": bvt}
    return [e(-1), e(-1), e(0), e(1)]


def F(x):
    return Fraction(x)


def bounds_ok(vt, lb, ub):
    lb, ub = F(lb), F(ub)
    if not lb <= ub:
        return False
    if vt == 0:
        return (lb, ub) == (0, 1)
    if vt == 1:
        return (lb, ub) == (-1, 1)
    return VT_MIN[vt] <= lb and ub <= VT_MAX[vt]


def model_op_valid(op, slots):
    try:
        return _model_op_valid(op, slots)
    except (IndexError, ValueError, TypeError, KeyError):
        return False


def _model_op_valid(op, slots):
    k = op[0]
    a = op[1:]

    def sl(s, kind=None):
        if not isinstance(s, int) or not 0 <= s <= 3:
            raise ValueError
        if kind == "q" and s >= 2:
            raise ValueError
        if kind == "b" and s < 2:
            raise ValueError
        return slots[s]

    def inr(x, n):
        return isinstance(x, int) and 0 <= x < n

    if k == "addvar":
        sl(a[0])
        return a[1] in (0, 1, 2, 3) and len(a) == 2
    if k == "addvarb":
        sl(a[0], "q")
        return a[1] in (0, 1, 2, 3) and bounds_ok(a[1], a[2], a[3]) and len(a) == 4
    if k == "addvars":
        sl(a[0], "q")
        return a[1] in (0, 1, 2, 3) and inr(a[2], 6) and len(a) == 3
    if k == "addvarsb":
        sl(a[0], "q")
        return a[1] in (0, 1, 2, 3) and inr(a[2], 6) and bounds_ok(a[1], a[3], a[4]) and len(a) == 5
    if k in ("addlin", "setlin"):
        return inr(a[1], sl(a[0])["n"]) and len(a) == 3
    if k in ("addoff", "setoff", "scale"):
        sl(a[0])
        return len(a) == 2
    if k in ("addq", "setq"):
        n = sl(a[0])["n"]
        return inr(a[1], n) and inr(a[2], n) and len(a) == 4
    if k == "addqb":
        x = sl(a[0])
        n = x["n"]
        if not (inr(a[1], n) and inr(a[2], n) and len(a) == 4):
            return False
        u, v = a[1], a[2]
        lu = x["adj"][u][-1][0] if x["adj"][u] else -1
        lv = x["adj"][v][-1][0] if x["adj"][v] else -1
        return lu < v and lv < u
    if k in ("dense", "densei"):
        x = sl(a[0])
        return inr(a[1], x["n"] + 1) and len(a) == 2 + a[1] * a[1]
    if k == "coo":
        x = sl(a[0])
        m = a[1]
        if not (isinstance(m, int) and 0 <= m and len(a) == 2 + 3 * m):
            return False
        hi = x["n"] if a[0] < 2 else x["n"] + 4
        return all(inr(i, hi) for i in a[2:2 + 2 * m])
    if k == "remint":
        n = sl(a[0])["n"]
        return inr(a[1], n) and inr(a[2], n) and len(a) == 3
    if k == "remints":
        sl(a[0])
        return a[1] in (0, 1, 2, 3) and len(a) == 3 and (a[1] == 0 or isinstance(a[2], int))
    if k == "remvar":
        return inr(a[1], sl(a[0])["n"]) and len(a) == 2
    if k == "remvars":
        n = sl(a[0])["n"]
        vs = a[2:]
        return a[1] == len(vs) and all(inr(v, n) for v in vs) and len(set(vs)) == len(vs)
    if k == "resize":
        x = sl(a[0])
        return isinstance(a[1], int) and 0 <= a[1] <= (x["n"] if a[0] < 2 else x["n"] + 4) and len(a) == 2
    if k == "resizevt":
        x = sl(a[0], "q")
        return inr(a[1], x["n"] + 5) and a[2] in (0, 1) and len(a) == 3
    if k == "resizeb":
        x = sl(a[0], "q")
        return inr(a[1], x["n"] + 5) and a[1] > 0 and a[2] in (0, 1, 2, 3) and bounds_ok(a[2], a[3], a[4]) and len(a) == 5
    if k in ("fix", "fixi"):
        return inr(a[1], sl(a[0])["n"]) and len(a) == 3
    if k == "subst":
        return inr(a[1], sl(a[0])["n"]) and len(a) == 4
    if k == "substall":
        sl(a[0])
        return len(a) == 3
    if k == "chvt":
        x = sl(a[0])
        if a[0] < 2:
            return a[1] in (0, 1, 2, 3) and inr(a[2], x["n"]) and len(a) == 3
        return a[1] in (0, 1, 2, 3) and len(a) == 2
    if k in ("setlb", "setub"):
        x = sl(a[0], "q")
        if not (inr(a[1], x["n"]) and len(a) == 3):
            return False
        vt = x["vt"][a[1]]
        lb = F(a[2]) if k == "setlb" else fhex(x["lb"][a[1]])
        ub = F(a[2]) if k == "setub" else fhex(x["ub"][a[1]])
        return vt >= 2 and VT_MIN[vt] <= F(a[2]) <= VT_MAX[vt]
    if k == "setvt":
        x = sl(a[0], "q")
        if not (inr(a[1], x["n"]) and a[2] in (0, 1, 2, 3) and len(a) == 3):
            return False
        if a[2] < 2:
            # bounds must fit the new type and the variable may not carry a self-loop
            if any(e[0] == a[1] for e in x["adj"][a[1]]):
                return False
            return (fhex(x["lb"][a[1]]), fhex(x["ub"][a[1]])) == DEFAULT_BOUNDS[a[2]]
        return True
    if k == "clear":
        sl(a[0])
        return len(a) == 1
    if k in ("copyctor", "copyassign"):
        sl(a[0]), sl(a[1])
        return (a[0] < 2) == (a[1] < 2) and len(a) == 2 and (k == "copyassign" or a[0] != a[1])
    if k in ("movector", "moveassign"):
        sl(a[0]), sl(a[1])
        if (a[0] < 2) != (a[1] < 2) or a[0] == a[1]:
            return False
        if a[2] == "clear":
            return len(a) == 3
        if a[2] == "assign":
            sl(a[3])
            return (a[3] < 2) == (a[1] < 2) and a[3] != a[1] and len(a) == 4
        return False
    if k == "swap":
        sl(a[0]), sl(a[1])
        return (a[0] < 2) == (a[1] < 2) and a[0] != a[1] and len(a) == 2
    if k == "qmofbqm":
        sl(a[0], "q"), sl(a[1], "b")
        return a[2] in (0, 1) and len(a) == 3
    if k == "densector":
        sl(a[0], "b")
        return inr(a[1], 6) and a[2] in (0, 1) and len(a) == 3 + a[1] * a[1]
    if k == "bqmctor":
        sl(a[0], "b")
        return inr(a[1], 8) and a[2] in (0, 1) and len(a) == 3
    if k == "energy":
        return len(a) == 1 + sl(a[0])["n"]
    if k == "nop":
        return len(a) == 0
    return False


def op_text(op):
    out = []
    for t in op:
        if isinstance(t, int):
            out.append(str(t))
        elif t in ("clear", "assign") or t == op[0]:
            out.append(t)
        else:
            out.append(fnum(Fraction(t)))
    return " ".join(out)


# ----------------------------------------------------------------------------
# rendering for Coq
# ----------------------------------------------------------------------------
def q(x):
    return cq(Fraction(x))


def cvt(k):
    return VT[k]


def coq_xop(op):
    k, a = op[0], op[1:]
    s = cnat(a[0]) if a else ""
    if k == "addvar":
        return f"(XB {s} (CAddVar {cvt(a[1])}))"
    if k == "addvarb":
        return f"(XAddVars {s} {cvt(a[1])} 1%nat (Some ({q(a[2])}, {q(a[3])})))"
    if k == "addvars":
        return f"(XAddVars {s} {cvt(a[1])} {cnat(a[2])} None)"
    if k == "addvarsb":
        return f"(XAddVars {s} {cvt(a[1])} {cnat(a[2])} (Some ({q(a[3])}, {q(a[4])})))"
    if k == "addlin":
        return f"(XB {s} (CAddLin {cnat(a[1])} {q(a[2])}))"
    if k == "setlin":
        return f"(XB {s} (CSetLin {cnat(a[1])} {q(a[2])}))"
    if k == "addoff":
        return f"(XB {s} (CAddOff {q(a[1])}))"
    if k == "setoff":
        return f"(XB {s} (CSetOff {q(a[1])}))"
    if k == "addq":
        return f"(XB {s} (CAddQuad {cnat(a[1])} {cnat(a[2])} {q(a[3])}))"
    if k == "setq":
        return f"(XB {s} (CSetQuad {cnat(a[1])} {cnat(a[2])} {q(a[3])}))"
    if k == "addqb":
        return f"(XB {s} (CAddQuadBack {cnat(a[1])} {cnat(a[2])} {q(a[3])}))"
    if k in ("dense", "densei"):
        return f"(XDense {s} {cnat(a[1])} {clist([q(x) for x in a[2:]])})"
    if k == "coo":
        m = a[1]
        rows, cols, bs = a[2:2 + m], a[2 + m:2 + 2 * m], a[2 + 2 * m:]
        return f"(XCoo {s} {clist([f'({cnat(r)}, {cnat(c)}, {q(b)})' for r, c, b in zip(rows, cols, bs)])})"
    if k == "remint":
        return f"(XB {s} (CRemInt {cnat(a[1])} {cnat(a[2])}))"
    if k == "remints":
        if a[1] == 0:
            return f"(XRemInts {s} 0%nat 0%nat {q(a[2])})"
        return f"(XRemInts {s} {cnat(a[1])} {cnat(a[2])} 0)"
    if k == "remvar":
        return f"(XB {s} (CRemVar {cnat(a[1])}))"
    if k == "remvars":
        return f"(XRemVars {s} {clist([cnat(v) for v in a[2:]])})"
    if k == "resize":
        return f"(XB {s} (CResize BINARY {cnat(a[1])}))"
    if k == "resizevt":
        return f"(XB {s} (CResize {cvt(a[2])} {cnat(a[1])}))"
    if k == "resizeb":
        return f"(XResizeB {s} {cnat(a[1])} {cvt(a[2])} ({q(a[3])}, {q(a[4])}))"
    if k == "scale":
        return f"(XB {s} (CScale {q(a[1])}))"
    if k in ("fix", "fixi"):
        return f"(XB {s} (CFix {cnat(a[1])} {q(a[2])}))"
    if k == "subst":
        return f"(XB {s} (CSubst {cnat(a[1])} {q(a[2])} {q(a[3])}))"
    if k == "substall":
        return f"(XSubstAll {s} {q(a[1])} {q(a[2])})"
    if k == "chvt":
        return f"(XChVt {s} {cvt(a[1])} {cnat(a[2] if len(a) > 2 else 0)})"
    if k == "setlb":
        return f"(XSetLb {s} {cnat(a[1])} {q(a[2])})"
    if k == "setub":
        return f"(XSetUb {s} {cnat(a[1])} {q(a[2])})"
    if k == "setvt":
        return f"(XSetVt {s} {cnat(a[1])} {cvt(a[2])})"
    if k == "clear":
        return f"(XClear {s})"
    if k in ("copyctor", "copyassign"):
        return f"(XCopy {cnat(a[0])} {cnat(a[1])})"
    if k in ("movector", "moveassign"):
        c = "None" if a[2] == "clear" else f"(Some {cnat(a[3])})"
        return f"(XMove {cnat(a[0])} {cnat(a[1])} {c})"
    if k == "swap":
        return f"(XSwap {cnat(a[0])} {cnat(a[1])})"
    if k == "qmofbqm":
        return f"(XQmOfBqm {cnat(a[0])} {cnat(a[1])})"
    if k == "densector":
        return f"(XDenseCtor {s} {cnat(a[1])} {cvt(a[2])} {clist([q(x) for x in a[3:]])})"
    if k == "bqmctor":
        return f"(XBqmCtor {s} {cnat(a[1])} {cvt(a[2])})"
    if k == "energy":
        return f"(XEnergy {s} {clist([q(x) for x in a[1:]])})"
    if k == "nop":
        return "XNop"
    raise ValueError(k)


def coq_ret(op, ret):
    k = op[0]
    if ret is None:
        return "None"
    if k in ("setq", "chvt"):
        return f"(Some {q(1 if ret == 'ok' else 0)})"
    if k == "energy":
        return f"(Some {q(fhex(ret))})"
    if k in ("addvar", "addvarb", "addvars", "addvarsb", "remint", "remints"):
        return f"(Some {q(int(ret))})"
    return "None"


def coq_obs(x):
    lin = clist([q(fhex(b)) for b in x["lin"]])
    adj = clist([clist([cpair(cnat(e[0]), q(fhex(e[1]))) for e in nb]) for nb in x["adj"]])
    vts = clist([cvt(t) for t in x["vt"]])
    bnd = clist([cpair(q(fhex(l)), q(fhex(u))) for l, u in zip(x["lb"], x["ub"])])
    deg = clist([cnat(d) for d in x["deg"]])
    bvt = "None" if x["bvt"] < 0 else f"(Some {cvt(x['bvt'])})"
    return (f"(mkObs {cnat(x['n'])} (mkQM {lin} {adj} {q(fhex(x['off']))} {vts}) {bnd} {cnat(x['ni'])} {deg} "
            f"{cbool(x['isl'] == 1)} {bvt})")


def exact_enough(slots):
    """all stored values small dyadics, so every float operation of the next call is exact"""
    for x in slots:
        vals = [x["off"]] + x["lin"] + [e[1] for nb in x["adj"] for e in nb]
        for h in vals:
            if h in ("inf", "-inf", "nan"):
                return False
            f = Fraction(float.fromhex(h))
            if abs(f) >= 2 ** 16 or f.denominator > 2 ** 12:
                return False
    return True


def has_matching_selfloop(op, slots):
    """remove_interactions with a filter that matches a stored self-loop (abc.h:922)"""
    if op[0] != "remints":
        return False
    x = slots[op[1]]
    kind, par = op[2], op[3]
    for u, nb in enumerate(x["adj"]):
        for v, b in nb:
            if v != u:
                continue
            b = Fraction(float.fromhex(b))
            if kind == 0 and b < Fraction(par):
                return True
            if kind == 1 and (u + v) % 2 == par:
                return True
            if kind == 2 and u == par:
                return True
            if kind == 3:
                return True
    return False
