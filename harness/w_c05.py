"""C05 worker: random histories of public mutations on a real dimod.ConstrainedQuadraticModel.

After every operation the complete observable state is dumped (model-wide variables with
vartype and bounds, constraint labels, and for the objective and every constraint the
expression's own variable order, linear, quadratic, offset, sense, rhs, weight, penalty,
discrete status) together with the exception bucket.  Operations that re-index or extend
expressions additionally dump the raw index-level arrays before and after.

gen_case drives a real model while generating, so that most operations are valid for the
state they meet; run_case replays the JSON history from scratch.

Coverage map (clause of C05 -> op kinds that reach it; every op is followed by the full dump):
  adding variables                 add_var / add_vars (fresh, re-added consistent, re-added conflicting, bounds given / defaulted /
                                   out of range), implicitly by set_obj_model, add_con_model, add_discrete_*, subst_self_loops, from_dqm
  removing                         remove_var (present in all / some / no expression; with discrete constraints around), v_remove_variable
                                   (one expression only), remove_con(cascade=True)
  fixing                           fix_var, fix_vars (list / dict, inplace True / False, duplicates)
  flipping, retyping               flip (BINARY and SPIN), change_vartype (all pairs incl. refused ones), spin_to_binary (inplace both ways)
  relabelling variables            relabel_vars (fresh targets, swaps, cycles, collisions, unknown keys; inplace both ways)
  setting the objective            set_obj_model (QM, BQM float64/float32/object), set_obj_iter (term iterables incl. bad terms),
                                   from_dqm (native set_objective from a case-level BQM)
  adding constraints               add_con_model via model / generic / comparison, copy=True and copy=False (moved: source checked empty),
                                   add_con_iter, add_discrete_iter, add_discrete_model via model / comparison, from_dqm (one discrete
                                   constraint per DQM variable), subst_self_loops (appended equalities); soft weight / penalty on all
  removing / relabelling constr.   remove_con (cascade both ways, views of the removed constraint must die), relabel_cons
  deep-copying                     deepcopy (continue on copy or on original; the other is frozen and re-dumped after every later op),
                                   every inplace=False variant, from_dqm (old model frozen)
  sense, rhs, weight, penalty,     part of every dump; set_weight, mark_discrete, fix/flip marker rules
    discrete mark
  type and bounds                  part of every dump; set_lb / set_ub, change_vartype resets
  edits through views              v_add_linear, v_set_linear, v_add_quadratic (self-loops on INTEGER, refused on BINARY/SPIN/REAL),
                                   v_remove_interaction, v_set_offset, on the objective and on constraints
  self-loop substitution           subst_self_loops (self-loops in objective and / or constraints, several expressions sharing one
                                   variable, no self-loop at all); REAL self-loops are an open finding and kept out of the random stream
  emptying                         clear
NOT reached here: from_bqm / from_qm (= cls() + set_objective, both reached), from_file / to_file / from_lp_file (C07 / C18),
  iter_constraint_data / violations / check_feasible (C09), view.set_quadratic (raises NotImplementedError by design).
"""
import copy
from fractions import Fraction

import numpy as np
import dimod
from dimod.sym import Eq, Ge, Le

import wlib
from wlib import cq, clist, cnat, cpair, copt, cbool
import gen
from gen import F, fs, LabelTable, coq_obs

VAR_POOL = ['a', 'b', 'c', 'd', 'x0', 'y', 0, 1, 2, 7]
CON_POOL = ['c0', 'c1', 'c2', 'c3', 'k', 0, 1, 5]
SENSES = ['<=', '>=', '==']
COMP = {'<=': Le, '>=': Ge, '==': Eq}
MAXV = 6
MAXC = 4


# ---------------------------------------------------------------------------------------
# observation
# ---------------------------------------------------------------------------------------

def dump(cqm):
    vs = [[v, cqm.vartype(v).name, fs(cqm.lower_bound(v)), fs(cqm.upper_bound(v))] for v in cqm.variables]
    cons = []
    bad = None
    disc = set(cqm.discrete)
    for l in cqm.constraints:
        c = cqm.constraints[l]
        lhs = c.lhs
        w = lhs.weight()
        d = bool(lhs.is_discrete())
        if d != (l in disc) or d != (l in cqm.discrete):
            bad = f"cqm.discrete disagrees with lhs.is_discrete() for {l!r}"
        if lhs.is_soft() != (w != float('inf')):
            bad = f"is_soft disagrees with weight for {l!r}"
        cons.append({"label": l, "obs": gen.observe(lhs), "sense": c.sense.value, "rhs": fs(c.rhs),
                     "weight": None if w == float('inf') else fs(w), "penalty": lhs.penalty(), "disc": d})
    if len(cqm.constraints) != cqm.num_constraints() or len(cqm.variables) != cqm.num_variables():
        bad = "label bookkeeping and C++ sizes disagree"
    return {"vars": vs, "obj": gen.observe(cqm.objective), "cons": cons, "bad": bad}


def raw_expr(e):
    return {"idx": [int(x) for x in e._iindices()], "lin": [fs(x) for x in e._ilinear()],
            "quad": [[int(u), int(v), fs(b)] for u, v, b in e._iquadratic()], "off": fs(e.offset)}


def rawdump(cqm):
    return [raw_expr(cqm.objective)] + [raw_expr(cqm.constraints[l].lhs) for l in cqm.constraints]


def raw_of_model(m):
    """raw arrays of a QM/BQM that is about to be moved into the CQM"""
    vs = list(m.variables)
    return {"idx": [], "lin": [fs(m.get_linear(v)) for v in vs],
            "quad": [[vs.index(u), vs.index(v), fs(b)] for (u, v), b in m.quadratic.items()], "off": fs(m.offset)}


# ---------------------------------------------------------------------------------------
# executing one operation
# ---------------------------------------------------------------------------------------

def fl(x):
    return None if x is None else float(F(x))


class SkipOp(Exception):
    """the argument of the operation could not be constructed (not a call on the CQM at all)"""


def build_model(desc):
    try:
        return _build_model(desc)
    except Exception as e:  # noqa
        raise SkipOp(str(e))


def _build_model(desc):
    if desc.get("bqm"):
        return gen.build_bqm(desc, dtype={"f32": np.float32, "f64": np.float64, "obj": object}[desc["bqm"]])
    return gen.build_qm(desc)


def case_label(v, c):
    return f"{v}.{c}"


def build_dqm(d):
    try:
        dq = dimod.DiscreteQuadraticModel()
        for lab, k in zip(d["labels"], d["cases"]):
            dq.add_variable(k, label=lab)
        for v, c, b in d["lin"]:
            dq.set_linear_case(d["labels"][v], c, float(F(b)))
        for u, cu, v, cv, b in d["quad"]:
            dq.set_quadratic_case(d["labels"][u], cu, d["labels"][v], cv, float(F(b)))
        dq.offset = float(F(d["off"]))
        return dq
    except Exception as e:  # noqa
        raise SkipOp(str(e))


def terms_of(ts):
    return [tuple(t[:-1]) + (float(F(t[-1])),) for t in ts]


def target(cqm, t):
    return cqm.objective if t is None else cqm.constraints[t[1]].lhs


class Ctx:
    def __init__(self):
        self.fail = None
        self.frozen = []       # (model, dump at freeze time, why)
        self.mstep = None      # extra info for the index-level replay of this op
        self.extra = None      # what the call returned, when the specification needs it (substitute_self_loops)
        self.hazards = []

    def freeze(self, m, why):
        self.frozen.append((m, dump(m), why))

    def check_frozen(self):
        for m, d, why in self.frozen:
            if dump(m) != d:
                self.fail = self.fail or f"a model that must not change was modified ({why})"


def marked_ever_labels(cqm, ctx_marks):
    return [l for l in cqm.constraints if l in ctx_marks]


def apply_op(cqm, op, ctx, marks):
    """run one op; returns the model the history continues on. `marks` is the set of
    constraint labels that ever carried a discrete mark (over-approximation used only for the
    coverage statistic `touches_repaired_region`)."""
    k = op[0]
    ctx.mstep = None
    if k == "add_var":
        _, vt, l, lb, ub = op
        cqm.add_variable(vt, l, lower_bound=fl(lb), upper_bound=fl(ub))
    elif k == "add_vars":
        _, vt, ls, lb, ub = op
        cqm.add_variables(vt, ls, lower_bound=fl(lb), upper_bound=fl(ub))
    elif k == "remove_var":
        if len(cqm.discrete):
            ctx.hazards.append("remove_var_attr")
        vi = cqm.variables.index(op[1]) if op[1] in cqm.variables else None
        before = rawdump(cqm)
        n = cqm.num_variables()
        cqm.remove_variable(op[1])
        ctx.mstep = {"kind": ["reindex", vi], "n": n, "before": before}
    elif k == "fix_var":
        _, l, a = op
        haz_fix(cqm, [(l, a)], ctx, marks)
        vi = cqm.variables.index(l) if l in cqm.variables else None
        before = rawdump(cqm)
        n = cqm.num_variables()
        r = cqm.fix_variable(l, float(F(a)))
        if r != {}:
            ctx.fail = "fix_variable did not return {}"
        ctx.mstep = {"kind": ["fix", vi, a], "n": n, "before": before}
    elif k == "fix_vars":
        _, fsx, inplace, as_dict = op
        pairs = [(l, float(F(a))) for l, a in fsx]
        arg = dict(pairs) if as_dict else pairs
        if inplace:
            haz_fix(cqm, fsx, ctx, marks)
            r = cqm.fix_variables(arg, inplace=True)
            if r is not cqm:
                ctx.fail = "fix_variables(inplace=True) did not return self"
        else:
            d0 = dump(cqm)
            r = cqm.fix_variables(arg, inplace=False)
            if dump(cqm) != d0 or r is cqm:
                ctx.fail = "fix_variables(inplace=False) modified the receiver"
            ctx.freeze(cqm, "receiver of fix_variables(inplace=False)")
            return r
    elif k == "flip":
        if any(op[1] in cqm.constraints[l].lhs.variables for l in cqm.constraints if l in marks):
            ctx.hazards.append("flip_mark")
        cqm.flip_variable(op[1])
    elif k == "change_vartype":
        cqm.change_vartype(op[1], op[2])
    elif k == "spin_to_binary":
        if op[1]:
            r = cqm.spin_to_binary(inplace=True)
            if r is not cqm:
                ctx.fail = "spin_to_binary(inplace=True) did not return self"
        else:
            d0 = dump(cqm)
            r = cqm.spin_to_binary(inplace=False)
            if dump(cqm) != d0 or r is cqm:
                ctx.fail = "spin_to_binary(inplace=False) modified the receiver"
            ctx.freeze(cqm, "receiver of spin_to_binary(inplace=False)")
            return r
    elif k == "relabel_vars":
        _, mp, inplace = op
        mapping = {a: b for a, b in mp}
        if inplace:
            cqm.relabel_variables(mapping, inplace=True)
        else:
            d0 = dump(cqm)
            r = cqm.relabel_variables(mapping, inplace=False)
            if dump(cqm) != d0 or r is cqm:
                ctx.fail = "relabel_variables(inplace=False) modified the receiver"
            ctx.freeze(cqm, "receiver of relabel_variables(inplace=False)")
            return r
    elif k == "set_obj_model":
        cqm.set_objective(build_model(op[1]))
    elif k == "set_obj_iter":
        cqm.set_objective(terms_of(op[1]))
    elif k == "add_con_model":
        _, desc, sense, rhs, label, cp, weight, penalty, via = op
        m = build_model(desc)
        src = raw_of_model(m)
        mvars = list(m.variables)
        m_before = m.copy()
        kw = {} if weight is None else dict(weight=float(F(weight)), penalty=penalty)
        ncon = cqm.num_constraints()
        try:
            if via == "comparison":
                lab = cqm.add_constraint_from_comparison(COMP[sense](m, float(F(rhs))), label=label, copy=cp, **kw)
            elif via == "generic":
                lab = cqm.add_constraint(m, sense, float(F(rhs)), label, copy=cp, **kw)
            else:
                lab = cqm.add_constraint_from_model(m, sense, float(F(rhs)), label, copy=cp, **kw)
            if lab != label:
                ctx.fail = "add_constraint returned a different label"
        finally:
            if not cp and cqm.num_constraints() == ncon + 1:
                if isinstance(m, dimod.BinaryQuadraticModel) and m.dtype == object:
                    # an object-dtype model is first converted to the CQM's dtype; the temporary is what
                    # gets moved, the caller's model must then be left exactly as it was
                    if not m.is_equal(m_before) or list(m.variables) != list(m_before.variables):
                        ctx.fail = "the object-dtype source of add_constraint(copy=False) was modified"
                else:
                    check_moved_from(m, ctx)
                if not (isinstance(m, dimod.BinaryQuadraticModel) and m.dtype != np.float64):
                    ctx.mstep = {"kind": ["move", ncon + 1, [cqm.variables.index(v) for v in mvars]],
                                 "n": cqm.num_variables(), "before": [src], "only": ncon + 1}
    elif k == "add_con_iter":
        _, ts, sense, rhs, label, weight, penalty = op
        kw = {} if weight is None else dict(weight=float(F(weight)), penalty=penalty)
        cqm.add_constraint_from_iterable(terms_of(ts), sense, float(F(rhs)), label, **kw)
    elif k == "add_discrete_iter":
        _, ls, label, chk = op
        cqm.add_discrete_from_iterable(ls, label=label, check_overlaps=chk)
        marks.add(label)
    elif k == "add_discrete_model":
        _, desc, label, cp, chk, via = op
        m = build_model(desc)
        if via == "comparison":
            cqm.add_discrete_from_comparison(Eq(m, 1), label=label, copy=cp, check_overlaps=chk)
        else:
            cqm.add_discrete_from_model(m, label=label, copy=cp, check_overlaps=chk)
        marks.add(label)
    elif k == "set_weight":
        _, label, w, pen = op
        cqm.constraints[label].lhs.set_weight(fl(w), penalty=pen)
    elif k == "remove_con":
        _, label, cascade = op
        view = cqm.constraints[label].lhs if label in cqm.constraints else None
        if cascade and len([l for l in cqm.discrete if l != label]):
            ctx.hazards.append("remove_var_attr")
        try:
            cqm.remove_constraint(label, cascade=cascade)
        finally:
            if view is not None and label not in cqm.constraints:
                try:
                    view.num_variables
                    ctx.fail = "a view of a removed constraint is still usable"
                except RuntimeError:
                    pass
    elif k == "relabel_cons":
        mapping = {a: b for a, b in op[1]}
        cqm.relabel_constraints(mapping)
        for a, b in op[1]:
            if a in marks:
                marks.add(b)
    elif k == "set_lb":
        cqm.set_lower_bound(op[1], float(F(op[2])))
    elif k == "set_ub":
        cqm.set_upper_bound(op[1], float(F(op[2])))
    elif k.startswith("v_"):
        e = target(cqm, op[1])
        ci = 0 if op[1] is None else 1 + list(cqm.constraints).index(op[1][1])
        before = rawdump(cqm)
        n = cqm.num_variables()
        ix = lambda v: cqm.variables.index(v) if v in cqm.variables else None
        if k == "v_add_linear":
            e.add_linear(op[2], float(F(op[3])))
            ctx.mstep = {"kind": ["add_linear", ci, ix(op[2]), op[3]], "n": n, "before": before}
        elif k == "v_set_linear":
            e.set_linear(op[2], float(F(op[3])))
            ctx.mstep = {"kind": ["set_linear", ci, ix(op[2]), op[3]], "n": n, "before": before}
        elif k == "v_add_quadratic":
            vts = [cqm.vartype(v).name for v in cqm.variables]
            e.add_quadratic(op[2], op[3], float(F(op[4])))
            ctx.mstep = {"kind": ["add_quadratic", ci, ix(op[2]), ix(op[3]), op[4], vts], "n": n, "before": before}
        elif k == "v_remove_variable":
            e.remove_variable(op[2])
            ctx.mstep = {"kind": ["expr_remove", ci, ix(op[2])], "n": n, "before": before}
        elif k == "v_remove_interaction":
            e.remove_interaction(op[2], op[3])
        elif k == "v_set_offset":
            e.offset = float(F(op[2]))
        else:
            raise RuntimeError("unknown op " + k)
    elif k == "mark_discrete":
        cqm.constraints[op[1]].lhs.mark_discrete(bool(op[2]))
        if op[2]:
            marks.add(op[1])
    elif k == "clear":
        cqm.clear()
    elif k == "from_dqm":
        # a classmethod: the history continues on the NEW model, the old one must stay as it is
        dq = build_dqm(op[1])
        r = dimod.ConstrainedQuadraticModel.from_discrete_quadratic_model(dq, relabel_func=case_label)
        ctx.freeze(cqm, "model left behind by from_discrete_quadratic_model")
        return r
    elif k == "subst_self_loops":
        ctx.extra = []
        if any(u == v and cqm.vartype(u) is dimod.REAL
               for e in [cqm.objective] + [cqm.constraints[l].lhs for l in cqm.constraints] for u, v in e.quadratic):
            ctx.hazards.append("subst_self_loops_real")
        mapping = cqm.substitute_self_loops()
        ctx.extra = [[u, new] for u, new in mapping.items()]
    elif k == "deepcopy":
        other = copy.deepcopy(cqm)
        if dump(other) != dump(cqm):
            ctx.fail = "deepcopy differs from the original"
        if op[1] == "copy":
            ctx.freeze(cqm, "original after deepcopy")
            return other
        ctx.freeze(other, "deep copy")
    else:
        raise RuntimeError("unknown op " + k)
    return cqm


def haz_fix(cqm, fsx, ctx, marks):
    for l, a in fsx:
        if l in cqm.variables and cqm.vartype(l) is dimod.BINARY and F(a) != 0:
            if any(l in cqm.constraints[c].lhs.variables for c in cqm.constraints if c in marks):
                ctx.hazards.append("fix_mark")


def check_moved_from(m, ctx):
    """move_then_clear_leaves_empty_source: the source must behave like a fresh empty model"""
    try:
        if m.num_variables or len(m.variables) or m.num_interactions or m.offset != 0:
            ctx.fail = "the moved-from model is not empty"
            return
        if isinstance(m, dimod.QuadraticModel):
            m.add_variable('BINARY', 'zz')
            if m.vartype('zz') is not dimod.BINARY or m.lower_bound('zz') != 0 or m.upper_bound('zz') != 1:
                ctx.fail = ("the moved-from model kept stale variable info: a new BINARY variable reports "
                            f"{m.vartype('zz').name} [{m.lower_bound('zz')}, {m.upper_bound('zz')}]")
        else:
            m.add_variable('zz')
            if m.num_variables != 1 or m.get_linear('zz') != 0:
                ctx.fail = "the moved-from binary model is not reusable"
    except Exception as e:  # noqa
        ctx.fail = f"the moved-from model is broken: {type(e).__name__}: {e}"


def bucket(e):
    if e is None:
        return "XNone"
    for c, n in ((ValueError, "XValue"), (TypeError, "XType"), (KeyError, "XKey"), (AttributeError, "XAttr")):
        if isinstance(e, c):
            return n
    return "XOther"


# ---------------------------------------------------------------------------------------
# generator (drives a real model)
# ---------------------------------------------------------------------------------------

def dy(rng, k=6, j=1):
    return str(rng.dyadic(k, j))


def rand_bounds(rng, vt):
    if vt == 'INTEGER':
        lb = rng.choice([0, 0, -3, 1])
        return str(lb), str(lb + rng.choice([1, 2, 5, 7]))
    if vt == 'REAL':
        lb = rng.choice([Fraction(0), Fraction(-2), Fraction(-1, 2)])
        return str(lb), str(lb + rng.choice([Fraction(1), Fraction(5, 2), Fraction(4)]))
    return None, None


def rand_vt(rng):
    return rng.choice(['BINARY', 'BINARY', 'SPIN', 'INTEGER', 'INTEGER', 'REAL'])


def fresh_var(rng, cqm):
    free = [l for l in VAR_POOL if l not in cqm.variables]
    return rng.choice(free) if free else None


def pick_var(rng, cqm, p_unknown=0.04):
    vs = list(cqm.variables)
    if not vs or rng.random() < p_unknown:
        return fresh_var(rng, cqm) or 'zzz'
    return rng.choice(vs)


def pick_con(rng, cqm, p_unknown=0.04):
    cs = list(cqm.constraints)
    if not cs or rng.random() < p_unknown:
        free = [l for l in CON_POOL if l not in cqm.constraints]
        return rng.choice(free) if free else 'nolabel'
    return rng.choice(cs)


def fresh_con(rng, cqm, p_dup=0.05):
    cs = list(cqm.constraints)
    if cs and rng.random() < p_dup:
        return rng.choice(cs)
    free = [l for l in CON_POOL + ['m', 'n', 8] if l not in cqm.constraints]
    if not free:
        free = [f"z{i}" for i in range(20) if f"z{i}" not in cqm.constraints]
    return rng.choice(free)


def rand_value(rng, vt):
    if vt == 'BINARY':
        return str(rng.choice([0, 1, 1]))
    if vt == 'SPIN':
        return str(rng.choice([-1, 1]))
    if vt == 'INTEGER':
        return str(rng.choice([0, 1, 2, 3, -2]))
    return str(rng.choice([Fraction(1, 2), Fraction(2), Fraction(-3, 2), Fraction(0)]))


def rand_desc(rng, cqm, binary_only=False, linear_only=False, ones=False):
    """a model over a random subset of the existing variables (random order) plus a few new ones"""
    vs = list(cqm.variables)
    rng.shuffle(vs)
    keep = [v for v in vs if rng.random() < 0.55]
    if binary_only:
        keep = [v for v in keep if cqm.vartype(v) is dimod.BINARY or rng.random() < 0.05]
    vars_ = [[v, cqm.vartype(v).name, fs(cqm.lower_bound(v)), fs(cqm.upper_bound(v))] for v in keep]
    nnew = rng.choice([0, 0, 1, 2]) if len(cqm.variables) < MAXV else 0
    free = [l for l in VAR_POOL if l not in cqm.variables]
    rng.shuffle(free)
    for l in free[:min(nnew, MAXV - len(cqm.variables))]:
        vt = 'BINARY' if binary_only and rng.random() < 0.95 else rand_vt(rng)
        lb, ub = rand_bounds(rng, vt)
        if vt == 'BINARY':
            lb, ub = '0', '1'
        if vt == 'SPIN':
            lb, ub = '-1', '1'
        vars_.insert(rng.randint(0, len(vars_)), [l, vt, lb, ub])
    if vars_ and rng.random() < 0.04:      # conflicting re-declaration of an existing variable
        i = rng.randrange(len(vars_))
        l, vt, lb, ub = vars_[i]
        if vt in ('INTEGER', 'REAL') and rng.random() < 0.5:
            vars_[i] = [l, vt, lb, str(F(ub) + 1 if F(ub) < 2 ** 52 else F(ub) - 1)]
        else:
            vt2 = rng.choice([x for x in ('BINARY', 'SPIN', 'INTEGER') if x != vt])
            lb2, ub2 = {'BINARY': ('0', '1'), 'SPIN': ('-1', '1'), 'INTEGER': ('0', '4')}[vt2]
            vars_[i] = [l, vt2, lb2, ub2]
    lin = []
    for v in vars_:
        if ones:
            b = '1' if rng.random() < 0.95 else '2'
        else:
            b = '0' if rng.random() < 0.15 else dy(rng)
        lin.append([v[0], b])
    quad = []
    if not linear_only and not (ones and rng.random() < 0.95):
        for i in range(len(vars_)):
            for j in range(i, len(vars_)):
                vi, vj = vars_[i], vars_[j]
                if 'REAL' in (vi[1], vj[1]):
                    continue
                if i == j and (vi[1] in ('BINARY', 'SPIN') or rng.random() > 0.35):
                    continue
                if i != j and rng.random() > 0.4:
                    continue
                b = '0' if rng.random() < 0.08 else dy(rng)
                u, v = (vi[0], vj[0]) if rng.random() < 0.5 else (vj[0], vi[0])
                quad.append([u, v, b])
    off = '0' if (ones or rng.random() < 0.4) else dy(rng)
    d = {"vars": [[v[0], v[1], None if v[2] is None else float(F(v[2])), None if v[3] is None else float(F(v[3]))]
                  for v in vars_], "lin": lin, "quad": quad, "off": off}
    kinds = {v[1] for v in vars_}
    if vars_ and len(kinds) == 1 and kinds <= {'BINARY', 'SPIN'} and rng.random() < 0.4:
        d["bqm"] = rng.choice(["f64", "f64", "f32", "f32", "obj"])
    return d


def rand_terms(rng, cqm):
    ts = []
    vs = list(cqm.variables)
    for _ in range(rng.randint(0, 6)):
        r = rng.random()
        if r < 0.15 or not vs:
            ts.append([dy(rng)])
        elif r < 0.6:
            ts.append([pick_var(rng, cqm, 0.03), dy(rng)])
        elif r < 0.98:
            u, v = pick_var(rng, cqm, 0.02), pick_var(rng, cqm, 0.02)
            ts.append([u, v, dy(rng)])
        else:
            ts.append([pick_var(rng, cqm), pick_var(rng, cqm), pick_var(rng, cqm), dy(rng)])
    return ts


def rand_soft(rng):
    if rng.random() < 0.3:
        w = str(abs(rng.dyadic(8, 1)) + (0 if rng.random() < 0.05 else 1))
        if rng.random() < 0.03:
            w = '-1'
        return w, rng.choice(['linear', 'linear', 'quadratic'])
    return None, 'linear'


def rand_relabel(rng, existing, pool):
    ex = list(existing)
    if not ex:
        return [[pool[0], pool[1]]]
    r = rng.random()
    ks = rng.sample(ex, rng.randint(1, len(ex)))
    free = [l for l in pool if l not in existing]
    rng.shuffle(free)
    if r < 0.35 and len(ks) >= 2:          # permutation (swaps / cycles)
        tg = ks[1:] + ks[:1]
        mp = [[a, b] for a, b in zip(ks, tg)]
    elif r < 0.9:
        mp = []
        for a in ks:
            if free and rng.random() < 0.8:
                mp.append([a, free.pop()])
        if len(ks) >= 2 and rng.random() < 0.3:   # mix: one swap inside
            a, b = ks[0], ks[1]
            mp = [m for m in mp if m[0] not in (a, b)] + [[a, b], [b, a]]
        if not mp:
            mp = [[ks[0], ks[0]]]
    elif r < 0.95:                         # collides with an existing label that keeps its name
        others = [l for l in ex if l not in ks]
        mp = [[ks[0], others[0]]] if others else [[ks[0], ks[0]]]
    else:                                  # a key that is not a label at all
        mp = [[free[0], free[1]]] if len(free) >= 2 else [[ks[0], ks[0]]]
        if len(free) >= 3:
            mp.append([ks[0], free[2]])
    return mp


OPS = [("add_var", 6), ("add_vars", 2), ("remove_var", 9), ("fix_var", 8), ("fix_vars", 4), ("flip", 4),
       ("change_vartype", 4), ("spin_to_binary", 2), ("relabel_vars", 5), ("set_obj_model", 4),
       ("set_obj_iter", 3), ("add_con_model", 9), ("add_con_iter", 4), ("add_discrete_iter", 3),
       ("add_discrete_model", 2), ("set_weight", 3), ("remove_con", 4), ("relabel_cons", 3), ("set_lb", 2),
       ("set_ub", 2), ("v_add_linear", 4), ("v_add_quadratic", 4), ("v_set_linear", 2),
       ("v_remove_variable", 6), ("v_remove_interaction", 2), ("v_set_offset", 3), ("mark_discrete", 1),
       ("deepcopy", 3), ("subst_self_loops", 2), ("clear", 1), ("from_dqm", 1)]


def rand_dqm_op(rng):
    n = rng.randint(1, 3)
    labels = rng.sample(['a', 'b', 'c', 'd', 0, 1, 2, 'k', 'c0'], n)
    cases = [rng.choice([1, 2, 2, 3]) for _ in range(n)]
    lin = [[v, c, dy(rng)] for v in range(n) for c in range(cases[v]) if rng.random() < 0.6]
    quad = []
    if n >= 2:
        for _ in range(rng.randint(0, 4)):
            u, v = rng.sample(range(n), 2)
            quad.append([u, rng.randrange(cases[u]), v, rng.randrange(cases[v]), '0' if rng.random() < 0.1 else dy(rng)])
    return ["from_dqm", {"labels": labels, "cases": cases, "lin": lin, "quad": quad, "off": dy(rng) if rng.random() < 0.5 else '0'}]


def rand_target(rng, cqm):
    cs = list(cqm.constraints)
    if not cs or rng.random() < 0.35:
        return None
    return ["c", pick_con(rng, cqm, 0.02)]


def gen_op(rng, cqm):
    k = rng.choices([o for o, _ in OPS], [w for _, w in OPS])[0]
    nv, nc = len(cqm.variables), len(cqm.constraints)
    if k == "add_var":
        if nv >= MAXV or rng.random() < 0.15:      # re-add an existing variable (consistency check)
            if not nv:
                return None
            v = rng.choice(list(cqm.variables))
            vt = cqm.vartype(v).name if rng.random() < 0.8 else rand_vt(rng)
            r = rng.random()
            if r < 0.5:
                return ["add_var", vt, v, None, None]
            if r < 0.8:
                return ["add_var", vt, v, fs(cqm.lower_bound(v)), fs(cqm.upper_bound(v))]
            return ["add_var", vt, v, fs(cqm.lower_bound(v)), str(F(cqm.upper_bound(v)) + 1)]
        vt = rand_vt(rng)
        lb, ub = rand_bounds(rng, vt)
        if vt in ('INTEGER', 'REAL') and rng.random() < 0.04:
            lb, ub = ub, lb
        if vt in ('BINARY', 'SPIN') and rng.random() < 0.2:
            lb, ub = '-5', '9'               # ignored for these vartypes
        return ["add_var", vt, fresh_var(rng, cqm), lb, ub]
    if k == "add_vars":
        vt = rand_vt(rng)
        lb, ub = rand_bounds(rng, vt)
        free = [l for l in VAR_POOL if l not in cqm.variables]
        rng.shuffle(free)
        ls = free[:max(0, min(rng.randint(0, 2), MAXV - nv))]
        if nv and rng.random() < 0.5:
            ls.insert(rng.randint(0, len(ls)), rng.choice(list(cqm.variables)))
        if rng.random() < 0.3:
            lb = ub = None
        return ["add_vars", vt, ls, lb, ub]
    if k == "remove_var":
        if not nv:
            return None
        return ["remove_var", pick_var(rng, cqm)]
    if k == "fix_var":
        if not nv:
            return None
        v = pick_var(rng, cqm)
        vt = cqm.vartype(v).name if v in cqm.variables else 'BINARY'
        return ["fix_var", v, rand_value(rng, vt)]
    if k == "fix_vars":
        if not nv:
            return None
        vs = rng.sample(list(cqm.variables), rng.randint(1, min(3, nv)))
        fsx = [[v, rand_value(rng, cqm.vartype(v).name)] for v in vs]
        inplace = rng.random() < 0.5
        if rng.random() < 0.05:
            fsx.append([fresh_var(rng, cqm) or 'zzz', '1'])
        return ["fix_vars", fsx, inplace, rng.random() < 0.5]
    if k == "flip":
        if not nv:
            return None
        cand = [v for v in cqm.variables if cqm.vartype(v) in (dimod.BINARY, dimod.SPIN)]
        if cand and rng.random() < 0.9:
            return ["flip", rng.choice(cand)]
        return ["flip", pick_var(rng, cqm)]
    if k == "change_vartype":
        if not nv:
            return None
        v = pick_var(rng, cqm)
        src = cqm.vartype(v).name if v in cqm.variables else 'BINARY'
        good = {'SPIN': ['BINARY', 'BINARY', 'INTEGER'], 'BINARY': ['SPIN', 'SPIN', 'INTEGER'],
                'INTEGER': ['INTEGER'], 'REAL': ['REAL']}[src]
        vt = rng.choice(good) if rng.random() < 0.85 else rand_vt(rng)
        return ["change_vartype", vt, v]
    if k == "spin_to_binary":
        return ["spin_to_binary", rng.random() < 0.5]
    if k == "relabel_vars":
        if not nv:
            return None
        return ["relabel_vars", rand_relabel(rng, list(cqm.variables), VAR_POOL + ['p', 'q', 'r', 9]), rng.random() < 0.7]
    if k == "set_obj_model":
        return ["set_obj_model", rand_desc(rng, cqm)]
    if k == "set_obj_iter":
        return ["set_obj_iter", rand_terms(rng, cqm)]
    if k == "add_con_model":
        if nc >= MAXC and rng.random() < 0.9:
            return None
        w, pen = rand_soft(rng)
        d = rand_desc(rng, cqm)
        return ["add_con_model", d, rng.choice(SENSES), dy(rng), fresh_con(rng, cqm),
                rng.random() < 0.5, w, pen, rng.choice(["model", "model", "comparison", "generic"])]
    if k == "add_con_iter":
        if nc >= MAXC and rng.random() < 0.9:
            return None
        w, pen = rand_soft(rng)
        return ["add_con_iter", rand_terms(rng, cqm), rng.choice(SENSES), dy(rng), fresh_con(rng, cqm), w, pen]
    if k == "add_discrete_iter":
        if nc >= MAXC and rng.random() < 0.9:
            return None
        bins = [v for v in cqm.variables if cqm.vartype(v) is dimod.BINARY]
        used = {v for l in cqm.discrete for v in cqm.constraints[l].lhs.variables}
        cand = [v for v in bins if v not in used or rng.random() < 0.1]
        ls = rng.sample(cand, rng.randint(0, min(3, len(cand))))
        free = [l for l in VAR_POOL if l not in cqm.variables]
        rng.shuffle(free)
        ls += free[:max(0, min(rng.randint(0, 2), MAXV - nv))]
        if nv and rng.random() < 0.08:
            ls.append(rng.choice(list(cqm.variables)))
        if ls and rng.random() < 0.1:
            ls.append(ls[0])
        rng.shuffle(ls)
        return ["add_discrete_iter", ls, fresh_con(rng, cqm), rng.random() < 0.85]
    if k == "add_discrete_model":
        if nc >= MAXC and rng.random() < 0.9:
            return None
        d = rand_desc(rng, cqm, binary_only=True, ones=True)
        return ["add_discrete_model", d, fresh_con(rng, cqm), rng.random() < 0.5, rng.random() < 0.85,
                rng.choice(["model", "comparison"])]
    if k == "set_weight":
        if not nc:
            return None
        w, pen = rand_soft(rng)
        if rng.random() < 0.5 and w is None:
            w = str(abs(rng.dyadic(8, 1)) + 1)
        return ["set_weight", pick_con(rng, cqm), w, pen]
    if k == "remove_con":
        if not nc:
            return None
        return ["remove_con", pick_con(rng, cqm), rng.random() < 0.3]
    if k == "relabel_cons":
        if not nc:
            return None
        return ["relabel_cons", rand_relabel(rng, list(cqm.constraints), CON_POOL + ['m', 'n', 8])]
    if k in ("set_lb", "set_ub"):
        if not nv:
            return None
        cand = [v for v in cqm.variables if cqm.vartype(v) in (dimod.INTEGER, dimod.REAL)]
        v = rng.choice(cand) if cand and rng.random() < 0.9 else pick_var(rng, cqm)
        if v in cqm.variables:
            lb, ub = F(cqm.lower_bound(v)), F(cqm.upper_bound(v))
            if k == "set_lb":
                b = ub - rng.choice([0, 1, 2, 4]) if rng.random() < 0.9 else ub + 1
            else:
                b = lb + rng.choice([0, 1, 2, 4]) if rng.random() < 0.9 else lb - 1
            if cqm.vartype(v) is dimod.REAL and rng.random() < 0.5 and abs(b) < 100:
                b = b + Fraction(1, 2) * rng.choice([-1, 1]) * (1 if rng.random() < 0.5 else 0)
            if abs(b) > 10 ** 6:
                b = lb if k == "set_lb" else ub
        else:
            b = Fraction(1)
        return [k, v, str(b)]
    if k.startswith("v_"):
        t = rand_target(rng, cqm)
        if k == "v_set_offset":
            return [k, t, '0' if rng.random() < 0.4 else dy(rng)]
        if not nv:
            return None
        if t is not None and t[1] in cqm.constraints:
            own = list(cqm.constraints[t[1]].lhs.variables)
        elif t is None:
            own = list(cqm.objective.variables)
        else:
            own = []

        def pv(p_own):
            return rng.choice(own) if own and rng.random() < p_own else pick_var(rng, cqm, 0.03)
        if k == "v_add_linear":
            return [k, t, pv(0.4), '0' if rng.random() < 0.1 else dy(rng)]
        if k == "v_set_linear":
            return [k, t, pv(0.5), '1' if rng.random() < 0.3 else dy(rng)]
        if k == "v_add_quadratic":
            u, v = pv(0.4), pv(0.4)
            bad = lambda x: x in cqm.variables and (cqm.vartype(x) is dimod.REAL or
                                                    (u == v and cqm.vartype(x) in (dimod.BINARY, dimod.SPIN)))
            if (bad(u) or bad(v)) and rng.random() < 0.5:     # rejected calls are the less interesting half
                return None
            return [k, t, u, v, '0' if rng.random() < 0.1 else dy(rng)]
        if k == "v_remove_variable":
            return [k, t, pv(0.75)]
        if k == "v_remove_interaction":
            return [k, t, pv(0.8), pv(0.8)]
    if k == "mark_discrete":
        if not nc:
            return None
        return ["mark_discrete", pick_con(rng, cqm), rng.random() < 0.7]
    if k == "deepcopy":
        return ["deepcopy", rng.choice(["copy", "orig"])]
    if k == "subst_self_loops":
        ints = [v for v in cqm.variables if cqm.vartype(v) is dimod.INTEGER]
        if not ints:
            return None
        exprs = [cqm.objective] + [cqm.constraints[l].lhs for l in cqm.constraints]
        if any(u == v and cqm.vartype(u) is dimod.REAL for e in exprs for u, v in e.quadratic):
            # open finding (reported): a REAL self-loop, which the term iterables accept, makes substitute_self_loops
            # raise ValueError after it has already added the new variable; the case is kept as
            # corpus/C05/subst_self_loops_real.json, the random stream stays clear of it
            return None
        if not any(u == v for e in exprs for u, v in e.quadratic) and rng.random() < 0.75:
            # prepare the ground: a self-loop in the objective or in one constraint (the next draws may add more)
            u = rng.choice(ints)
            return ["v_add_quadratic", rand_target(rng, cqm), u, u, str(rng.choice([1, 2, -1, 3]))]
        return ["subst_self_loops"]
    if k == "clear":
        return ["clear"] if rng.random() < 0.5 else None
    if k == "from_dqm":
        return rand_dqm_op(rng) if rng.random() < 0.5 else None
    return None


def gen_case(rng, tier):
    lmax = 20 if tier == "quick" else 50
    n = rng.randint(1, lmax)
    cqm = dimod.ConstrainedQuadraticModel()
    marks = set()
    ops = []
    # prelude: a few variables so that histories start in an interesting state
    if rng.random() < 0.85:
        for _ in range(rng.randint(2, 5)):
            vt = rand_vt(rng)
            lb, ub = rand_bounds(rng, vt)
            ops.append(["add_var", vt, fresh_var(rng, cqm), lb, ub])
            cqm = run_quiet(cqm, ops[-1], marks)
        if rng.random() < 0.7:
            ops.append(["set_obj_model", rand_desc(rng, cqm)])
            cqm = run_quiet(cqm, ops[-1], marks)
    tries = 0
    while len(ops) < n and tries < 10 * n + 50:
        tries += 1
        op = gen_op(rng, cqm)
        if op is None:
            continue
        ops.append(op)
        cqm = run_quiet(cqm, op, marks)
    samples = []
    for _ in range(2):
        s = []
        for l in VAR_POOL + ['p', 'q', 'r', 9, 'zz']:
            s.append([l, str(rng.choice([0, 1, -1, 2, 3, Fraction(1, 2), -2]))])
        samples.append(s)
    return {"ops": ops, "samples": samples}


def run_quiet(cqm, op, marks):
    try:
        return apply_op(cqm, op, Ctx(), marks)
    except Exception:
        return cqm


# ---------------------------------------------------------------------------------------
# rendering
# ---------------------------------------------------------------------------------------

SENSE_C = {'<=': 'LE', '>=': 'GE', '==': 'EQ'}
PEN_C = {'linear': 'PLin', 'quadratic': 'PQuad'}


class R:
    def __init__(self):
        self.T = LabelTable()
        self.TC = LabelTable()

    def v(self, l):
        return cnat(self.T.idx(l))

    def c(self, l):
        return cnat(self.TC.idx(l))

    def oq(self, x):
        return copt(None if x is None else cq(F(float(F(x)))))

    def vinfo(self, v):
        return f"(mkV {self.v(v[0])} {v[1]} {cq(F(v[2]))} {cq(F(v[3]))})"

    def desc(self, d):
        """the model as the implementation built it (variables in the model's order, every linear bias)"""
        m = build_model(d)
        vt = (lambda v: m.vartype(v).name) if isinstance(m, dimod.QuadraticModel) else (lambda v: m.vartype.name)
        lbub = (lambda v: (m.lower_bound(v), m.upper_bound(v))) if isinstance(m, dimod.QuadraticModel) else \
            (lambda v: (0, 1) if m.vartype is dimod.BINARY else (-1, 1))
        vs = clist([self.vinfo([v, vt(v), lbub(v)[0], lbub(v)[1]]) for v in m.variables])
        lin = clist([cpair(self.v(v), cq(F(b))) for v, b in m.linear.items()])
        quad = clist([f"({self.v(u)}, {self.v(v)}, {cq(F(b))})" for (u, v), b in m.quadratic.items()])
        return f"(mkDesc {vs} {lin} {quad} {cq(F(m.offset))})"

    def terms(self, ts):
        out = []
        for t in ts:
            if len(t) == 1:
                out.append(f"(T0 {cq(F(t[0]))})")
            elif len(t) == 2:
                out.append(f"(T1 {self.v(t[0])} {cq(F(t[1]))})")
            elif len(t) == 3:
                out.append(f"(T2 {self.v(t[0])} {self.v(t[1])} {cq(F(t[2]))})")
            else:
                out.append("TBad")
        return clist(out)

    def soft(self, w, pen):
        return copt(None if w is None else cpair(cq(F(w)), PEN_C[pen]))

    def tgt(self, t):
        return "TObj" if t is None else f"(TCon {self.c(t[1])})"

    def op(self, op):
        k = op[0]
        if k == "add_var":
            return f"(AddVar {op[1]} {self.v(op[2])} {self.oq(op[3])} {self.oq(op[4])})"
        if k == "add_vars":
            return f"(AddVars {op[1]} {clist([self.v(l) for l in op[2]])} {self.oq(op[3])} {self.oq(op[4])})"
        if k == "remove_var":
            return f"(RemoveVar {self.v(op[1])})"
        if k == "fix_var":
            return f"(FixVar {self.v(op[1])} {cq(F(op[2]))})"
        if k == "fix_vars":
            pairs = op[1]
            if op[3]:                       # passed as a dict: later duplicates overwrite, first position kept
                d = {}
                for l, a in pairs:
                    d[l] = a
                pairs = list(d.items())
            return f"(FixVars {clist([cpair(self.v(l), cq(F(a))) for l, a in pairs])} {cbool(op[2])})"
        if k == "flip":
            return f"(Flip {self.v(op[1])})"
        if k == "change_vartype":
            return f"(ChangeVt {op[1]} {self.v(op[2])})"
        if k == "spin_to_binary":
            return "SpinToBinary"
        if k == "relabel_vars":
            return f"(RelabelVars {clist([cpair(self.v(a), self.v(b)) for a, b in op[1]])})"
        if k == "set_obj_model":
            return f"(SetObjModel {self.desc(op[1])})"
        if k == "set_obj_iter":
            return f"(SetObjIter {self.terms(op[1])})"
        if k == "add_con_model":
            return (f"(AddConModel {self.desc(op[1])} {SENSE_C[op[2]]} {cq(F(op[3]))} {self.c(op[4])} "
                    f"{self.soft(op[6], op[7])})")
        if k == "add_con_iter":
            return (f"(AddConIter {self.terms(op[1])} {SENSE_C[op[2]]} {cq(F(op[3]))} {self.c(op[4])} "
                    f"{self.soft(op[5], op[6])})")
        if k == "add_discrete_iter":
            return f"(AddDiscreteIter {clist([self.v(l) for l in op[1]])} {self.c(op[2])} {cbool(op[3])})"
        if k == "add_discrete_model":
            return f"(AddDiscreteModel {self.desc(op[1])} {self.c(op[2])} {cbool(op[4])})"
        if k == "set_weight":
            return f"(SetWeight {self.c(op[1])} {self.oq(op[2])} {PEN_C[op[3]]})"
        if k == "remove_con":
            return f"(RemoveCon {self.c(op[1])} {cbool(op[2])})"
        if k == "relabel_cons":
            return f"(RelabelCons {clist([cpair(self.c(a), self.c(b)) for a, b in op[1]])})"
        if k == "set_lb":
            return f"(SetLb {self.v(op[1])} {cq(F(float(F(op[2]))))})"
        if k == "set_ub":
            return f"(SetUb {self.v(op[1])} {cq(F(float(F(op[2]))))})"
        if k == "v_add_linear":
            return f"(VAddLinear {self.tgt(op[1])} {self.v(op[2])} {cq(F(op[3]))})"
        if k == "v_set_linear":
            return f"(VSetLinear {self.tgt(op[1])} {self.v(op[2])} {cq(F(op[3]))})"
        if k == "v_add_quadratic":
            return f"(VAddQuadratic {self.tgt(op[1])} {self.v(op[2])} {self.v(op[3])} {cq(F(op[4]))})"
        if k == "v_remove_variable":
            return f"(VRemoveVar {self.tgt(op[1])} {self.v(op[2])})"
        if k == "v_remove_interaction":
            return f"(VRemoveInter {self.tgt(op[1])} {self.v(op[2])} {self.v(op[3])})"
        if k == "v_set_offset":
            return f"(VSetOffset {self.tgt(op[1])} {cq(F(op[2]))})"
        if k == "mark_discrete":
            return f"(MarkDiscrete {self.c(op[1])} {cbool(op[2])})"
        if k == "deepcopy":
            return "Nop"
        if k == "clear":
            return "Clear"
        if k == "from_dqm":
            d = op[1]
            L = d["labels"]
            names = [[case_label(L[v], c) for c in range(k_)] for v, k_ in enumerate(d["cases"])]
            vs = clist([f"(mkV {self.v(x)} BINARY {cq(F(0))} {cq(F(1))})" for row in names for x in row])
            lin = {x: F(0) for row in names for x in row}
            for v, c, b in d["lin"]:
                lin[names[v][c]] = F(b)                      # set_linear_case: the last write wins
            quad = {}
            for u, cu, v, cv, b in d["quad"]:
                quad[frozenset((names[u][cu], names[v][cv]))] = (names[u][cu], names[v][cv], F(b))
            linc = clist([cpair(self.v(x), cq(b)) for x, b in lin.items()])
            quadc = clist([f"({self.v(a)}, {self.v(b_)}, {cq(x)})" for a, b_, x in quad.values()])
            groups = clist([cpair(self.c(L[v]), clist([self.v(x) for x in names[v]])) for v in range(len(L))])
            return f"(FromDqm (mkDesc {vs} {linc} {quadc} {cq(F(d['off']))}) {groups})"
        if k == "subst_self_loops":
            mp = op[1] if len(op) > 1 and op[1] else []
            return f"(SubstSelfLoops {clist([f'({self.v(u)}, {self.v(n)}, {self.c(n)})' for u, n in mp])})"
        raise RuntimeError(k)

    def snap(self, d):
        vs = clist([self.vinfo(v) for v in d["vars"]])
        cons = []
        for c in d["cons"]:
            soft = copt(None if c["weight"] is None else cpair(cq(F(c["weight"])), PEN_C[c["penalty"]]))
            cons.append(f"(mkOCon {self.c(c['label'])} {coq_obs(c['obs'], self.T)} "
                        f"{clist([self.v(x) for x in c['obs']['vars']])} {SENSE_C[c['sense']]} {cq(F(c['rhs']))} "
                        f"{soft} {cbool(c['disc'])})")
        return (f"(mkSnap {vs} {coq_obs(d['obj'], self.T)} {clist([self.v(x) for x in d['obj']['vars']])} "
                f"{clist(cons)})")


def c_raw(r):
    quad = clist([f"({cnat(u)}, {cnat(v)}, {cq(F(b))})" for u, v, b in r["quad"]])
    return f"(mkRaw {clist([cnat(i) for i in r['idx']])} {clist([cq(F(x)) for x in r['lin']])} {quad} {cq(F(r['off']))})"


def c_mstep(ms, after):
    k = ms["kind"]
    if any(x is None for x in k[1:3] if not isinstance(x, (str, list))):
        return None
    before = ms["before"]
    if "only" in ms:
        after = [after[ms["only"]]]
    if len(before) != len(after):
        return None
    pairs = clist([cpair(c_raw(b), c_raw(a)) for b, a in zip(before, after)])
    if k[0] == "reindex":
        kind = f"(MReindex {cnat(k[1])})"
    elif k[0] == "fix":
        kind = f"(MFix {cnat(k[1])} {cq(F(k[2]))})"
    elif k[0] == "expr_remove":
        kind = f"(MExprRemove {cnat(k[1])} {cnat(k[2])})"
    elif k[0] == "add_linear":
        kind = f"(MAddLinear {cnat(k[1])} {cnat(k[2])} {cq(F(k[3]))})"
    elif k[0] == "set_linear":
        kind = f"(MSetLinear {cnat(k[1])} {cnat(k[2])} {cq(F(k[3]))})"
    elif k[0] == "add_quadratic":
        if k[3] is None:
            return None
        kind = f"(MAddQuadratic {cnat(k[1])} {cnat(k[2])} {cnat(k[3])} {cq(F(k[4]))} {clist(k[5])})"
    elif k[0] == "move":
        return None  # rendered by the caller (needs vartypes)
    else:
        return None
    return f"(mkMStep {kind} {cnat(ms['n'])} {pairs})"


# ---------------------------------------------------------------------------------------
# replay
# ---------------------------------------------------------------------------------------

def run_case(case):
    cqm = dimod.ConstrainedQuadraticModel()
    marks = set()
    rd = R()
    steps, msteps = [], []
    py_fail = None
    feats = {}
    hazards = []
    frozen = []
    kinds = set()
    raised = 0
    for op in case["ops"]:
        ctx = Ctx()
        exc = None
        try:
            cqm2 = apply_op(cqm, op, ctx, marks)
        except SkipOp:
            continue
        except Exception as e:  # noqa
            exc = e
            cqm2 = cqm
        hazards += ctx.hazards
        kinds.add(op[0])
        if exc is not None:
            raised += 1
            if isinstance(exc, RuntimeError) and "unknown op" in str(exc):
                raise exc
        d = dump(cqm2)
        py_fail = py_fail or ctx.fail or d["bad"]
        if bucket(exc) == "XOther":
            py_fail = py_fail or f"unexpected exception class {type(exc).__name__}: {exc} in {op[0]}"
        rop = op + [ctx.extra] if op[0] == "subst_self_loops" else op
        steps.append(f"({rd.op(rop)}, {bucket(exc)}, {rd.snap(d)})")
        if ctx.mstep is not None and (exc is None or ctx.mstep["kind"][0] == "move"):
            after = rawdump(cqm2)
            ms = ctx.mstep
            if ms["kind"][0] == "move":
                if len(after) > ms["only"]:
                    vts = [cqm2.vartype(v).name for v in cqm2.variables]
                    kind = f"(MMove {cnat(ms['kind'][1])} {clist([cnat(i) for i in ms['kind'][2]])} {clist(vts)})"
                    pairs = clist([cpair(c_raw(ms['before'][0]), c_raw(after[ms['only']]))])
                    msteps.append(f"(mkMStep {kind} {cnat(ms['n'])} {pairs})")
            else:
                t = c_mstep(ms, after)
                if t:
                    msteps.append(t)
        # frozen copies must not follow the edits of the live model
        cqm = cqm2
        frozen.extend(ctx.frozen)
        for m, d0, why in frozen:
            if dump(m) != d0:
                py_fail = py_fail or f"a model that must not change was modified ({why})"
    # energies reported by the implementation for the final expressions
    energy = []
    exprs = [cqm.objective] + [cqm.constraints[l].lhs for l in cqm.constraints]
    for s in case.get("samples", []):
        sd = {l: float(F(x)) for l, x in s}
        sample = {v: sd.get(v, 1.0) for v in cqm.variables}
        for e in exprs:
            try:
                en = e.energy(sample) if len(cqm.variables) else None
            except Exception as ex:  # noqa
                py_fail = py_fail or f"energy raised {type(ex).__name__}: {ex}"
                en = None
            if en is not None:
                sm = clist([cpair(rd.v(v), cq(F(x))) for v, x in sample.items()])
                energy.append(f"({coq_obs(gen.observe(e), rd.T)}, {sm}, {cq(F(en))})")
    # regions where defects were found and repaired (kept as a coverage statistic only)
    feats["touches_repaired_region"] = bool(hazards)
    if "subst_self_loops_real" in hazards:
        feats["subst_self_loops_real"] = True
    n = len(rd.T)
    coq = f"(mkCase {cnat(n)} {clist(steps)} {clist(msteps)} {clist(energy)})"
    return {"coq": coq, "check_fn": "check", "py_fail": py_fail, "features": feats,
            "nontrivial": len(case["ops"]) >= 2 and len(kinds) >= 2,
            "observed": {"final": dump(cqm), "raised": raised, "hazards": hazards}}



if __name__ == "__main__":
    wlib.main(gen_case, run_case)
