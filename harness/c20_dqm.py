"""C20, native state of cyDiscreteQuadraticModel under VALID call histories (the malformed calls are c20_py's).

Coverage map (clause of C20 -> what reaches it here):
  adj_ stays strictly sorted / symmetric / self-free / in bounds       every op, raw `adj` compared + dinv_b on the observed state
  case-level BQM neighbourhoods sorted, symmetric, counts consistent    to_numpy_vectors dump rebuilt in emission order + num_case_interactions
  set_quadratic_case in BOTH argument orders, neighbours in any order   setquadcase with u, v drawn independently (u > v as likely as u < v)
  set_quadratic mapping / dense array (zero entries skipped, adjacency
    still recorded), set_linear, set_linear_case, offset setter         setquadmap / setquaddense / setlin / setlincase / offset
  add_linear_equality_constraint: sort + sum duplicates, skip same
    variable, "finally fix the adjacency" merge loop                    eqcon (duplicate cases, repeated variables, single term, empty list)
  copy (three containers copied, later calls on one side only)          copy: the history continues on the copy, the original is re-read at the end
  dense/COO construction: _from_numpy_vectors rebuilds adj_ from the
    case neighbourhoods                                                 roundtrip (to_numpy_vectors -> from_numpy_vectors), continues on the rebuilt object;
                                                                        index dtype uint16/int32/int64/uint32/uint64 x bias dtype float64/float32 (the fused
                                                                        types), COO entries as emitted / shuffled / row and column swapped
  reads that binary-search adj_ / walk it: get_quadratic (dict and
    array form), get_quadratic_case, degree, num_variable_interactions,
    energies (the `v > u: break` walk)                                  after EVERY op, all ordered variable pairs
  label layer of the Python wrapper (labels not equal to indices)       api == "py": every call and read goes through dimod.DiscreteQuadraticModel
"""
from fractions import Fraction

import numpy as np

from wlib import clist, cnat, cpair, cq, copt

LABEL_POOL = [0, 1, 2, 3, 4, 5, "a", "b", "c"]
VALS = [Fraction(n, d) for n in range(-4, 5) for d in (1, 2)]
MAXV = 5


def _val(rng, zero_ok=True):
    while True:
        x = rng.choice(VALS)
        if zero_ok or x != 0:
            return x


def _f(x):
    return [x.numerator, x.denominator]


def _fr(p):
    return Fraction(p[0], p[1])


def gen_dqm_ops(rng, n):
    ncases = []
    ops = []
    for _ in range(n):
        nv = len(ncases)
        kinds = ["addvar"] if nv < 2 else (
            ["addvar"] * (2 if nv < MAXV else 0) + ["setquadcase"] * 6 + ["setquadmap"] * 2 + ["setquaddense"] * 2
            + ["setlincase", "setlin", "eqcon", "eqcon", "offset", "copy", "roundtrip"])
        k = rng.choice(kinds)
        if k == "addvar":
            c = rng.choice([1, 2, 2, 3])
            ncases.append(c)
            op = ["addvar", c]
        elif k == "setlincase":
            v = rng.randrange(nv)
            op = ["setlincase", v, rng.randrange(ncases[v]), _f(_val(rng))]
        elif k == "setlin":
            v = rng.randrange(nv)
            op = ["setlin", v, [_f(_val(rng)) for _ in range(ncases[v])]]
        elif k in ("setquadcase", "setquadmap", "setquaddense"):
            u = rng.randrange(nv)
            v = rng.choice([x for x in range(nv) if x != u])
            if k == "setquadcase":
                op = [k, u, rng.randrange(ncases[u]), v, rng.randrange(ncases[v]), _f(_val(rng))]
            elif k == "setquadmap":
                items = {}
                for _i in range(rng.randint(0, 3)):
                    items[(rng.randrange(ncases[u]), rng.randrange(ncases[v]))] = _val(rng)
                op = [k, u, v, [[a, b, _f(x)] for (a, b), x in items.items()]]
            else:
                op = [k, u, v, [_f(_val(rng) if rng.random() < 0.6 else Fraction(0)) for _i in range(ncases[u] * ncases[v])]]
        elif k == "eqcon":
            terms = []
            for _i in range(rng.choice([0, 1, 2, 2, 3, 4, 5])):
                v = rng.randrange(nv)
                terms.append([v, rng.randrange(ncases[v]), _f(_val(rng))])
            op = ["eqcon", terms, _f(rng.choice([Fraction(1), Fraction(2), Fraction(1, 2), Fraction(-1)])),
                  _f(rng.choice([Fraction(0), Fraction(1), Fraction(-2), Fraction(1, 2)]))]
        elif k == "offset":
            op = ["offset", _f(_val(rng))]
        elif k == "roundtrip":
            # index / bias dtypes handed to from_numpy_vectors (fused types) and the order of the COO entries
            op = [k, rng.choice(["uint16", "int32", "int64", "uint32", "uint64"]), rng.choice(["float64", "float32"]),
                  rng.choice(["asis", "shuffled", "swapped"])]
        else:
            op = [k]
        ops.append({"op": op, "s": [rng.randrange(6) for _ in range(2 * MAXV)]})
    api = rng.choice(["py", "cy"])
    labels = rng.sample(LABEL_POOL, MAXV)
    return {"api": api, "labels": labels, "ops": ops}


# ---------------------------------------------------------------- running
def _exact(x):
    f = Fraction(float(x))
    return f


def observe(cy, seeds):
    starts, ldata, (irow, icol, qdata), off = cy.to_numpy_vectors(return_offset=True)
    nc = cy.num_cases()
    nv = cy.num_variables()
    st = [int(x) for x in starts] + [int(nc)]
    nbs = [[] for _ in range(nc)]
    upper = [[] for _ in range(nc)]
    for r, c, b in zip(irow, icol, qdata):
        r, c = int(r), int(c)
        if 0 <= r < nc and 0 <= c < nc:
            nbs[r].append((c, _exact(b)))
            upper[c].append((r, _exact(b)))
    nbs = [lo + up for lo, up in zip(nbs, upper)]
    adj = [[int(x) for x in row] for row in cy.adj]
    gq = []
    notes = []
    for u in range(nv):
        for v in range(nv):
            if u == v:
                continue
            try:
                d = cy.get_quadratic(u, v)
            except ValueError:
                gq.append((u, v, None))
                continue
            items = [(int(a), int(b), _exact(x)) for (a, b), x in d.items()]
            gq.append((u, v, items))
            arr = np.asarray(cy.get_quadratic(u, v, array=True))
            want = np.zeros_like(arr)
            for a, b, x in items:
                want[a, b] = float(x)
            if arr.shape != want.shape or not np.array_equal(arr, want):
                notes.append(f"get_quadratic({u},{v},array=True) disagrees with the dict form")
            for a, b, x in items:
                if _exact(cy.get_quadratic_case(u, a, v, b)) != x:
                    notes.append(f"get_quadratic_case({u},{a},{v},{b}) disagrees with get_quadratic")
    ncs = [st[i + 1] - st[i] for i in range(nv)]
    for v in range(nv):
        if cy.num_cases(v) != ncs[v]:
            notes.append(f"num_cases({v}) = {cy.num_cases(v)} but the case starts give {ncs[v]}")
        gl = [_exact(x) for x in cy.get_linear(v)]
        if gl != [_exact(x) for x in ldata[st[v]:st[v + 1]]] or \
                gl != [_exact(cy.get_linear_case(v, c)) for c in range(ncs[v])]:
            notes.append(f"get_linear({v}) / get_linear_case disagree with to_numpy_vectors")
    en = []
    if nv:
        for k in range(2):
            s = [seeds[k * MAXV + i] % max(1, ncs[i]) for i in range(nv)]
            e = cy.energies(np.asarray([s], dtype=np.int32))
            en.append((s, _exact(np.asarray(e)[0])))
    return {"st": st, "adj": adj, "lin": [_exact(x) for x in ldata], "nbs": nbs, "off": _exact(off),
            "ni": int(cy.num_case_interactions()), "nvi": int(cy.num_variable_interactions()),
            "deg": [int(cy.degree(v)) for v in range(nv)], "gq": gq, "en": en}, notes


def wrapper_agrees(dq, labels):
    """the label layer shows the same adjacency / reads as the native object (py api only)"""
    cy = dq._cydqm
    nv = cy.num_variables()
    labs = list(dq.variables)
    if labs != labels[:nv]:
        return f"variables {labs!r} != {labels[:nv]!r}"
    for u in range(nv):
        if [labs[i] for i in cy.adj[u]] != list(dq.adj[labs[u]]):
            return f"adj[{labs[u]!r}] = {list(dq.adj[labs[u]])!r} but native adj_[{u}] = {list(cy.adj[u])}"
        if dq.degree(labs[u]) != len(cy.adj[u]):
            return f"degree({labs[u]!r})"
        for v in range(nv):
            if u == v:
                continue
            try:
                a = dq.get_quadratic(labs[u], labs[v])
            except ValueError:
                a = None
            try:
                b = cy.get_quadratic(u, v)
            except ValueError:
                b = None
            if a != b:
                return f"get_quadratic({labs[u]!r},{labs[v]!r}) = {a!r} but native {b!r}"
    if dq.num_variable_interactions() != cy.num_variable_interactions():
        return "num_variable_interactions"
    return None


def coq_items(items):
    return clist([f"({cnat(a)}, {cnat(b)}, {cq(x)})" for a, b, x in items])


def coq_dop(op):
    k = op[0]
    if k == "addvar":
        return f"(DAddVar {cnat(op[1])})"
    if k == "setlincase":
        return f"(DSetLinCase {cnat(op[1])} {cnat(op[2])} {cq(_fr(op[3]))})"
    if k == "setlin":
        return f"(DSetLin {cnat(op[1])} {clist([cq(_fr(x)) for x in op[2]])})"
    if k == "setquadcase":
        return f"(DSetQuadCase {cnat(op[1])} {cnat(op[2])} {cnat(op[3])} {cnat(op[4])} {cq(_fr(op[5]))})"
    if k == "setquadmap":
        return f"(DSetQuadMap {cnat(op[1])} {cnat(op[2])} {coq_items([(a, b, _fr(x)) for a, b, x in op[3]])})"
    if k == "setquaddense":
        return f"(DSetQuadDense {cnat(op[1])} {cnat(op[2])} {clist([cq(_fr(x)) for x in op[3]])})"
    if k == "eqcon":
        return f"(DEqCon {coq_items([(v, c, _fr(x)) for v, c, x in op[1]])} {cq(_fr(op[2]))} {cq(_fr(op[3]))})"
    if k == "offset":
        return f"(DSetOffset {cq(_fr(op[1]))})"
    if k == "copy":
        return "DCopy"
    if k == "roundtrip":
        return "DRoundTrip"
    raise ValueError(k)


def coq_dobs(o):
    adj = clist([clist([cpair(cnat(c), cq(b)) for c, b in nb]) for nb in o["nbs"]])
    b = (f"(mkQM {clist([cq(x) for x in o['lin']])} {adj} {cq(o['off'])} "
         f"{clist(['BINARY'] * len(o['lin']))})")
    gq = clist([f"({cnat(u)}, {cnat(v)}, {copt(None if it is None else coq_items(it))})" for u, v, it in o["gq"]])
    en = clist([cpair(clist([cnat(x) for x in s]), cq(e)) for s, e in o["en"]])
    return (f"(mkDO {clist([cnat(x) for x in o['st']])} {clist([clist([cnat(x) for x in r]) for r in o['adj']])} {b} "
            f"{cnat(o['ni'])} {cnat(o['nvi'])} {clist([cnat(x) for x in o['deg']])} {gq} {en})")


def small_enough(o):
    for x in [o["off"]] + o["lin"] + [b for nb in o["nbs"] for _, b in nb]:
        if abs(x) >= 2 ** 16 or x.denominator > 2 ** 12:
            return False
    return True


def apply(dq, api, labels, op, seeds=(0, 0)):
    """one call on the real object; returns the object the history continues on"""
    import dimod
    k = op[0]
    L = (lambda v: labels[v]) if api == "py" else (lambda v: v)
    tgt = dq if api == "py" else dq._cydqm
    fl = lambda p: float(_fr(p))
    if k == "addvar":
        if api == "py":
            dq.add_variable(op[1], label=labels[dq.num_variables()])
        else:
            lab = labels[dq._cydqm.num_variables()]
            dq._cydqm.add_variable(op[1])
            dq.variables._append(lab)
    elif k == "setlincase":
        tgt.set_linear_case(L(op[1]), op[2], fl(op[3]))
    elif k == "setlin":
        tgt.set_linear(L(op[1]), np.asarray([fl(x) for x in op[2]], dtype=np.float64))
    elif k == "setquadcase":
        tgt.set_quadratic_case(L(op[1]), op[2], L(op[3]), op[4], fl(op[5]))
    elif k == "setquadmap":
        tgt.set_quadratic(L(op[1]), L(op[2]), {(a, b): fl(x) for a, b, x in op[3]})
    elif k == "setquaddense":
        nu, nvv = dq._cydqm.num_cases(op[1]), dq._cydqm.num_cases(op[2])
        tgt.set_quadratic(L(op[1]), L(op[2]), np.asarray([fl(x) for x in op[3]], dtype=np.float64).reshape(nu, nvv))
    elif k == "eqcon":
        tgt.add_linear_equality_constraint([(L(v), c, fl(x)) for v, c, x in op[1]], fl(op[2]), fl(op[3]))
    elif k == "offset":
        tgt.offset = fl(op[1])
    elif k == "copy":
        if api == "py":
            return dq.copy()
        new = dimod.DiscreteQuadraticModel()
        new._cydqm = dq._cydqm.copy()
        for v in dq.variables:
            new.variables._append(v)
        return new
    elif k == "roundtrip":
        idt, bdt, order = (op[1:4] if len(op) >= 4 else ("uint16", "float64", "asis"))

        def conv(st, ld, quad):
            ir, ic, qd = (np.asarray(x) for x in quad)
            if order == "shuffled" and len(ir):
                perm = np.random.RandomState(seeds[0] * 7 + seeds[1]).permutation(len(ir))
                ir, ic, qd = ir[perm], ic[perm], qd[perm]
            elif order == "swapped":
                ir, ic = ic, ir
            bt = bdt
            if bdt == "float32" and not (np.array_equal(np.asarray(ld).astype("float32").astype("float64"), np.asarray(ld))
                                         and np.array_equal(qd.astype("float32").astype("float64"), qd)):
                bt = "float64"          # keep the comparison exact: narrow only what float32 represents exactly
            it = idt
            if idt == "uint64" and not len(ir):
                # reported finding (utilities.asintegerarrays retypes EMPTY arrays to int8, and uint64 with int8 has no common
                # integer type): an interaction-free DQM cannot be loaded from uint64 vectors; the stream stays clear of it
                it = "int64"
            return (np.asarray(st).astype(it), np.asarray(ld).astype(bt),
                    (ir.astype(it), ic.astype(it), qd.astype(bt)))
        if api == "py":
            vec = dq.to_numpy_vectors(return_offset=True)
            st, ld, quad = conv(vec.case_starts, vec.linear_biases, vec.quadratic)
            return dimod.DiscreteQuadraticModel.from_numpy_vectors(st, ld, quad, labels=list(vec.labels), offset=vec.offset)
        st, ld, quad, off = dq._cydqm.to_numpy_vectors(return_offset=True)
        st, ld, quad = conv(st, ld, quad)
        new = dimod.DiscreteQuadraticModel()
        new._cydqm = type(dq._cydqm).from_numpy_vectors(st, ld, quad, off)
        for v in dq.variables:
            new.variables._append(v)
        return new
    else:
        raise ValueError(k)
    return dq


def op_valid(op, nc):
    """the generator's promise, re-checked at replay (shrinking removes calls other calls depend on)"""
    k, n = op[0], len(nc)
    okc = lambda v, c: 0 <= v < n and 0 <= c < nc[v]
    if k == "addvar":
        return n < MAXV and op[1] >= 1
    if k == "setlincase":
        return okc(op[1], op[2])
    if k == "setlin":
        return 0 <= op[1] < n and len(op[2]) == nc[op[1]]
    if k == "setquadcase":
        return op[1] != op[3] and okc(op[1], op[2]) and okc(op[3], op[4])
    if k == "setquadmap":
        return op[1] != op[2] and 0 <= op[1] < n and 0 <= op[2] < n and all(a < nc[op[1]] and b < nc[op[2]] for a, b, _ in op[3])
    if k == "setquaddense":
        return op[1] != op[2] and 0 <= op[1] < n and 0 <= op[2] < n and len(op[3]) == nc[op[1]] * nc[op[2]]
    if k == "eqcon":
        return all(okc(v, c) for v, c, _ in op[1])
    return k in ("offset", "copy", "roundtrip")


def run_dqm(case):
    import dimod
    api, labels = case["api"], case["labels"]
    dq = dimod.DiscreteQuadraticModel()
    steps = []
    kept = []          # (object, snapshot) of the originals left behind by copy / roundtrip
    kinds = set()
    feats = {"kind": "py_dqm", "api": api}
    nc = []
    for i, rec in enumerate(case["ops"]):
        op = rec["op"]
        if not op_valid(op, nc):
            continue
        if op[0] == "addvar":
            nc.append(op[1])
        try:
            new = apply(dq, api, labels, op, rec["s"])
        except Exception as e:          # every generated call is valid for the state it meets
            feats["dqm_raise"] = op[0]
            return {"coq": None, "features": feats, "nontrivial": True,
                    "py_fail": f"valid call #{i} {op!r} raised {type(e).__name__}: {e}"}
        if new is not dq:
            kept.append((dq, observe(dq._cydqm, rec["s"])[0], i))
            dq = new
        o, notes = observe(dq._cydqm, rec["s"])
        if not notes and api == "py":
            w = wrapper_agrees(dq, labels)
            if w:
                notes.append("wrapper: " + w)
        if notes:
            feats["dqm_read"] = op[0]
            return {"coq": None, "features": feats, "nontrivial": True, "py_fail": f"after call #{i} {op!r}: {notes[0]}"}
        kinds.add(op[0])
        steps.append(f"({coq_dop(op)}, {coq_dobs(o)})")
        if not small_enough(o):
            break
    for old, snap, i in kept:
        now = observe(old._cydqm, case["ops"][i]["s"])[0]
        if now != snap:
            feats["dqm_alias"] = True
            return {"coq": None, "features": feats, "nontrivial": True,
                    "py_fail": f"the object left behind by call #{i} {case['ops'][i]['op'][0]} changed when its copy was edited"}
    return {"coq": clist(steps), "check_fn": "dcheck", "features": feats, "nontrivial": len(steps) >= 3,
            "kind": "py_dqm", "observed": {"executed": len(steps), "ops": sorted(kinds)}}
