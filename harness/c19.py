PID = "C19"
WORKER = "w_c19"
HEADER = "From Coq Require Import List ZArith QArith Qcanon Arith.\nFrom Dimod Require Import Base.Util Model.Poly Model.Samples Model.SSet Model.Alias Model.Store Model.Heap Model.ChkC19.\nImport ListNotations."
CHECK_FN = "check"
N_QUICK = 1600
N_THOROUGH = 40000
SHARD = 200
SHRINK_KEYS = ["steps"]
RULE = ("histories with up to 5 live handles starting from a random BQM (float64/float32/object dtype), QM, CQM, SampleSet or Variables: "
        "2-7 (thorough 2-14) steps of copy-producing calls (copy(), copy.copy, copy.deepcopy, pickle round trip, BQM(bqm), QM.from_bqm, "
        "arithmetic operators incl. neutral operands on either side (0+a, 0.0+a, a+0, 1*a, a/1, sum([a])), relabel_variables / relabel_variables_as_integers / change_vartype / spin_to_binary / fix_variables with "
        "inplace=False, SampleSet copy/relabel/change_vartype/slice (sorted_by None or energy)/truncate/lowest/filter/aggregate/"
        "concatenate (single set, and several LIVE sets whose label order / vartype differ, each input checked unchanged)/keep/drop/append_variables/append_data_vectors/from_samples), cqm.add_constraint_from_model(copy=True/False) with a live "
        "model (moved-from model compared with an empty one and re-used), cqm.add_discrete / add_discrete_from_comparison / add_discrete_from_model "
        "of a live one-hot model with every combination of check_overlaps and copy given or defaulted, creation of spin/binary/objective views, and random in-place edits "
        "through any handle incl. views; after every step every live handle is snapshotted bit for bit (coefficients in iteration order, "
        "variables, vartypes, bounds, record.tobytes(), labels, info), snapshots interned; expected results come from the same call on a "
        "detached clone; the store model in Coq decides what every handle must show; each snapshot also calls energies() on the object "
        "and compares with its own coefficients (per-instance cached forwarding methods); also BinaryPolynomial (copy, deepcopy, pickle, relabel_variables(inplace=False), to_spin/to_binary(copy=True), BinaryPolynomial(p); edits p[t]=, del p[t], scale, relabel in place) "
        "and DiscreteQuadraticModel (copy, relabel_variables / relabel_variables_as_integers(inplace=False), vector round trip; edits set_linear_case, set_quadratic_case, add_variable, relabels in place) as opaque interned states; "
        "7% of the cases are sample-set ALIAS histories (kind ssalias, shared with C14: the future's result object, from_future handles and everything relabel_variables / change_vartype return, "
        "before and after the result exists; every resolved object dumped with its record-sharing class after every event; Model/Alias.v replay + the copy-independence oracle); "
        "35% of the sample sets are resolved from a future with wait_id() (cached problem id): the instance state beyond the data and wait_id() of every live sample set are compared before / after every copy-producing call; "
        "non-trivial = at least 2 handles and 3 dumps")
TRUSTED = ["model: coq/theories/Model/{Store,Heap,CopyApi,ChkC19}.v; translators/copy_api.py (fail-closed) -> Gen/Gen_Copy.v (BQM, QM, CQM, SampleSet, DQM, BinaryPolynomial, Variables, VartypeView); DQM / BinaryPolynomial are driven by the worker as opaque interned states (OOpaque: results and edits come from detached clones, no function in Heap.v)", "model: coq/theories/Model/Alias.v for future-backed sample sets (see C14)",
           "snapshot functions of harness/w_c19.py observe every piece of state an edit can reach (public accessors + record bytes)",
           "pickle/deepcopy clones are used to compute expected states; each clone is itself compared with its source before use"]
ASSUMPTIONS = ["equal snapshots <=> equal observable state (interning)",
               "the calls replayed on a detached clone are deterministic"]
PARTIAL = ["the C19 theorems are statements about the models: Model/Store.v (alias classes; spin/binary views instantiated with real model states) "
           "and Model/Heap.v - whose hstep the check now RUNS on every history (each step rendered as a Heap operation with its real parameters, or with the clone-derived result where Heap.v has no function for the call), comparing every owning handle with the predicted cell - (every copy-producing call of the property text as a constructor - copy/deepcopy/pickle/construction from a model, "
           "arithmetic incl. neutral operands, relabel / change_vartype / spin_to_binary / fix_variables with inplace=False, every SampleSet "
           "producer, concatenate inputs, CQM add_constraint copy vs move, set_objective, CQM expression views - with its result proved to be the "
           "documented function of the receiver, the receiver cell untouched, frame over arbitrary histories); the list of public methods with an "
           "inplace/copy parameter, their defaults and return-self is GENERATED from the source (Gen_Copy.v) and proved equal to the modelled "
           "table; that the real heap behaves like these stores is exactly what the correspondence check establishes"]
