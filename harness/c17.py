PID = "C17"
WORKER = "w_c17"
HEADER = "From Coq Require Import List ZArith QArith Qcanon.\nFrom Dimod Require Import Base.Util Model.Poly Model.Comb Gen.Gen_Gates Gen.Gen_Combinations Gen.Gen_Graph Model.Gates Model.Knap Model.QKnap Gen.Gen_Knap Model.MultCircuit Gen.Gen_MultWiring Model.MultWiring Model.Qap Gen.Gen_Qap Model.QapGen Model.Magic Gen.Gen_Magic Model.MagicGen Model.Sat Gen.Gen_Sat Model.ChkC17.\nImport ListNotations."
CHECK_FN = "check"
N_QUICK = 1200      # wall time: see the stage breakdown in the round-5 report; the worker + Coq evaluation share is ~80 s at 1600
N_THOROUGH = 30000
SHARD = 100
TIMEOUT = 2400
SHRINK_KEYS = ["edges", "nodes"]
RULE = ("gates (and/or/xor/halfadder/fulladder) with random distinct labels (ints, negative ints, strings, tuples), strength in "
        "{unset,1/2,1,2,3} plus rejected strengths 0/-1: coefficients against the tables TRANSLATED from gates.py, all 2^n assignments; "
        "multiplication_circuit(n, m), n,m <= 3: minimum over the auxiliaries for every (a, b, p); n,m <= 6: coefficients against the wiring model; "
        "combinations(n|labels, k) BINARY/SPIN, all assignments, rejected k; independent_set / maximum_independent_set / "
        "maximum_weight_independent_set with repeated edges, partial and repeated node lists, strength / strength_multiplier; "
        "quadratic_knapsack / quadratic_multi_knapsack (translated constructions as the model, all assignments); anti_crossing_clique / _loops (monitored); "
        "random_nae3sat / random_2in4sat / random_kmcsat (n <= 6, planted or not, labels, seeds incl. 0): BQM against the clauses replayed from the seed, all spin assignments; "
        "magic_square(n <= 4, power 1/2): constraints against Model/Magic.v and against the construction generated from the source (Model/MagicGen.v), check_feasible on magic / Latin / random integer squares; "
        "quadratic_assignment (n <= 3, symmetric distances with ARBITRARY (asymmetric, directed) flows, list / array input) against Model/Qap.v, against the construction generated from the source and replayed with set_quadratic (Model/QapGen.v), and the documented cost on every placement; "
        "knapsack / bin packing / multi-knapsack CQMs (random_* with seeds and direct constructors) on all assignments of small "
        "instances; random generators (uniform, randint, gnp, gnm, ran_r, doped, power_r, frustrated_loop, chimera_anticluster) over all graph-argument forms, "
        "each case re-examined for 16 further seeds derived from its seed (range / support clauses, offset included); "
        "non-trivial per kind as set by the worker; distinct by canonical JSON of the case")
TRUSTED = ["translators/gates_tables.py (fail-closed ast translator: gates.py -> Gen/Gen_Gates.v, re-run before every build)",
           "translators/graph_constants.py (fail-closed ast translator: shapes, literals and keyword defaults of the independent-set generators -> Gen/Gen_Graph.v)",
           "translators/knap_constructions.py (fail-closed ast translator of the CQM construction loops of knapsack, quadratic_knapsack, multi_knapsack, quadratic_multi_knapsack, bin_packing -> Gen/Gen_Knap.v)",
           "translators/sat_clause_terms.py (fail-closed shape lock of _kmcsat_interactions / random_kmcsat and its wrappers -> Gen/Gen_Sat.v)",
           "translators/shape_locks.py (fail-closed shape lock of quadratic_assignment, magic_square, multiplication_circuit: the hand-written mirrors Qap.v / Magic.v / MultCircuit.v are tied coefficient-wise and locked to the source text)",
           "translators/qap_construction.py (fail-closed ast translator: quadratic_assignment -> Gen/Gen_Qap.v: variable creation order, the guard and bias expression of the product(range(n), repeat=4) loop, "
           "the list of set_quadratic calls in loop order, the add_discrete rows and the add_constraint columns; Model/QapGen.v replays the calls with Model/Poly.v's set_quadratic and is "
           "compared coefficient-wise with the implementation in every quadratic_assignment case; what stays trusted: that set_quadratic overwrites (property C01's model) and that add_discrete(cells) means sum(cells) == 1)",
           "translators/mult_wiring.py (fail-closed ast translator: multiplication_circuit -> Gen/Gen_MultWiring.v: the naming functions AND / SUM / CARRY with the product-bit relabelling, the list `inputs` of gate(i, j) "
           "(initial value and what the nested ifs append), the and_gate arguments, the outputs, the len(inputs) tests placing a half / full adder, the visiting order; Model/MultWiring.v assembles the gate instances and is "
           "compared coefficient-wise with the implementation in every wiring case; trusted: star-args application (half adder = 2 inputs, full adder = 3), quicksum = sum of the gate models, label text <-> wire constructor)",
           "translators/magic_construction.py (fail-closed ast translator: magic_square -> Gen/Gen_Magic.v: the row / column / diagonal / antidiagonal lines with their exponent in source order, the condition, "
           "the degree-2 terms, sense and right-hand side of the uniqueness constraint; Model/MagicGen.v is compared with the implementation in every magic_square case; trusted: label var_x_y <-> index x*n+y, "
           "quicksum(v ** e) - sum == 0 read as linear terms (e = 1) or squares (e = 2))",
           "Model/RandStruct.v (frustrated_loop accumulation / R cut-off, doped, gnm_random_bqm, gnp_random_bqm, chimera_anticluster with every PRNG draw an oracle parameter): HAND WRITTEN from the source, "
           "cross-checked once against the implementation by evaluating the model next to dimod (tile / inter-tile edges, gnm selection, loop couplings); per case only the chimera part is tied in Coq (CChimera: tile_edges ++ intertile_edges are exactly the interactions chimera_anticluster(m, n, t) built, intra-tile +-1, inter-tile +-multiplier; "
           "cases without subgraph=); the frustrated_loop / doped / gnm / gnp parts depend on unobservable draws and their per-case tie remains the worker's monitor (w_c17_py.py)",
           "translators/combinations_rule.py (fail-closed ast translator: the coefficient rule of combinations -> Gen/Gen_Combinations.v)",
           "model: coq/theories/Model/Gates.v, Comb.v (combinations_energy), Knap.v (knapsack / multi-knapsack / bin packing), "
           "MultCircuit.v (wiring of multiplication_circuit; proved equal to the wiring generated from the source), ChkC17.v (hand written, tied by this correspondence)",
           "multiplication circuit: the wiring model is compared coefficient-wise with the BQM for sizes up to 6x6 (in Coq); for the "
           "energy table of sizes <= 3x3 the minimisation over auxiliaries is done in the worker (numpy enumeration through "
           "BQM.energies) and the decision `min = 0 <-> p = a*b, else >= 1` on the resulting table is made in Coq",
           "knapsack / bin packing / multi-knapsack: coefficients, feasibility (CQM.check_feasible) and objective are decided in Coq "
           "against Model/Knap.v on all assignments of instances with <= 8 variables and on a seeded sample of 256-384 assignments up "
           "to 16 variables; ranges, labels, seeds and all assignments up to 12 variables additionally in the worker (w_c17_py.py)",
           "random generators: the per-case decisions are made in the worker (harness/w_c17_py.py); the theorems C17_fl_* / C17_doped_* / C17_gnm_* / C17_gnp_* / C17_anti_* / C17_tile_* are about Model/RandStruct.v",
           "float arithmetic of the implementation is exact on the generated dyadic data (not verified)"]
ASSUMPTIONS = ["the coefficients a BQM reports define its energy, and BQM.energies / CQM.check_feasible evaluate them (property C01/C08)",
               "labels passed to a generator are pairwise distinct",
               "IEEE-754 arithmetic is exact on the small dyadic/integer coefficients generated"]
PARTIAL = ["quadratic_assignment: the documented cost holds for ANY flow matrix (asymmetric / directed flows are in the stream) with a symmetric "
           "distance matrix (C17_qap_cost_symmetric, no hypothesis on the flows) and, for n >= 2, for all flows and placements ONLY then "
           "(C17_qap_exact_iff_symmetric; already symmetric flows fail with an asymmetric distance: C17_qap_symmetric_flow_asymmetric_distance_refuted, "
           "C17_qap_asymmetric_refuted); asymmetric DISTANCE matrices are kept out of the random stream (QAP_ASYMMETRIC in w_c17.py); "
           "the construction is now GENERATED from the source (translators/qap_construction.py -> Gen/Gen_Qap.v, replayed by Model/QapGen.v): for every n and all matrices the replayed objective has the energy of the "
           "mirror Model/Qap.v on every assignment (C17_qapg_objective_is_source; last write of an unordered pair = its later visit: C17_qapg_coefficient_is_source, C17_qapg_writes_cells), the constraints are the mirror's "
           "(C17_qapg_constraints_is_source), and the documented cost is re-proved over the generated construction (C17_qapg_cost_symmetric, C17_qapg_feasible, C17_qapg_asymmetric_refuted); still trusted: the meaning of "
           "set_quadratic (overwrite) and add_discrete (one-hot)",
           "magic_square: constraints tied coefficient-wise and on integer assignments; the construction is GENERATED from the source (translators/magic_construction.py -> Gen/Gen_Magic.v, Model/MagicGen.v) "
           "and proved equal, as a list of constraints, to the mirror Model/Magic.v for every n and power in {1, 2} (C17_magicg_constraints_is_source; (n^4-n^2)/2 exact: C17_magicg_uniq_rhs_is_source); only necessity of the uniqueness "
           "constraint is a theorem (C17_magic_uniqueness_necessary); it is not sufficient (C17_magic_uniqueness_not_sufficient_refuted)",
           "multiplication_circuit: theorem for all n, m >= 2 on the wiring mirror (Model/MultCircuit.v), tied coefficient-wise up to 6x6; the wiring is now GENERATED from the source "
           "(translators/mult_wiring.py -> Gen/Gen_MultWiring.v, Model/MultWiring.v) and proved equal to the mirror as a list of gate instances for ALL n, m (C17_mult_wiring_is_source; per position C17_mult_gate_is_source, "
           "C17_mult_gate_kind_is_source; naming C17_mult_naming_is_source), the documented relation is re-stated over it (C17_multiplication_circuit_generated); the 1-bit-argument finding stays open "
           "(C17_multiplication_circuit_one_bit_refuted)",
           "satisfiability generators: only the draws of numpy's Generator (which k variables, which sign bits) are an oracle, replayed from the "
           "seed in the worker; how a draw becomes terms is translated from the source and proved",
           "random generators (uniform, randint, gnp/gnm_random_bqm, ran_r, power_r, doped) and decorators.graph_argument: per case MONITORED only (structure theorems for gnp / gnm / doped on the oracle model: see the frustrated_loop paragraph) - for "
           "every graph-argument form: biases in the declared range/set, interactions exactly on the declared edges, declared nodes present, "
           "requested vartype, same seed (incl. 0) => equal and independent models; the range / support clauses are re-examined for 16 further "
           "seeds per case so that a draw leaving the range for one seed in k is met in every case; nothing more can be stated because the values are whatever "
           "numpy's PRNG returns (distribution claims are not decidable on one sample)",
           "anti_crossing_clique / anti_crossing_loops (not in the statement text): MONITORED - documented structure, biases in {-1,0,1}, "
           "all-(+1) the unique ground state for <= 14 variables (ExactSolver), guards; shape-locked; no unbounded theorem",
           "chimera_anticluster / frustrated_loop (random-model generators outside the anchors): MONITORED - chimera: variables and interactions "
           "exactly the Chimera(m,n,t) graph written down independently in the worker (or the given subgraph, in its node order), intra-tile "
           "biases +-1, inter-tile +-multiplier, zero linear/offset, m/n/t = 0, seed; frustrated_loop: variables/interactions exactly the declared "
           "graph (every graph-argument form), integer couplings with |J| <= R, zero linear/offset, planted assignment (all +1, its negation, or "
           "planted_solution) a ground state on all 2^n assignments, a single unplanted loop frustrated by exactly one edge, one planted loop = one "
           "simple cycle with exactly one +1 coupling, guards, seed; both over 1+16 / 1+8 seeds per case. Theorems for frustrated_loop on the "
           "code-shaped loop contribution with the PRNG's choices as parameters (Model/FrustLoop.v): closed walks multiply to +1, an odd number of "
           "anti-ferromagnetic couplers costs >= -(L-2), the planted all-(+1) state attains it on every loop and minimises every sum of loops "
           "(C17_fcl_*). With every PRNG draw an oracle parameter (Model/RandStruct.v, hand written, not tied per case) for ANY draws: frustrated_loop - the couplings are the sum of exactly the good loops, at most num_cycles "
           "of them (C17_fl_accumulates), an edge leaves the walk iff it reached R and nothing outside the graph is coupled (C17_fl_alive_iff), |J| < R + 1 in general and |J| <= R for integer R (C17_fl_cutoff_bound, "
           "C17_fl_cutoff_integer_R), |J| <= R is FALSE for fractional R (C17_fl_cutoff_fractional_R_refuted: the code never rejects a loop, it only retires edges that reached R), plant_solution=False is deterministic "
           "(C17_fl_noplant_is_plant0); doped - interactions exactly the edges, coupling i = draw i in {-1,+1}, zero linear / offset for distinct edges (C17_doped_structure, C17_doped_couplings_pm1), repeated edges and isolated "
           "nodes refuted (C17_doped_repeated_edge_refuted, C17_doped_keeps_all_nodes_refuted); gnm_random_bqm - exactly num_interactions distinct pairs u < v < n with the generated biases (C17_gnm_structure, C17_gnm_pairs_distinct, "
           "C17_gnm_biases) and the selection does not depend on the draws (C17_gnm_draws_irrelevant, C17_gnm_selection_is_prefix); gnp_random_bqm - a pair is an interaction iff its draw succeeded, no pair twice "
           "(C17_gnp_edges_spec, C17_gnp_count, C17_gnp_pairs_distinct); chimera_anticluster - intra-tile +-1, inter-tile +-multiplier, zero linear / offset, the two edge families disjoint (C17_anti_qdata_biases, "
           "C17_tile_edges_intra, C17_intertile_edges_shape, C17_anti_intra_inter_disjoint). Not proved: that the chimera edge lists are exactly the Chimera(m,n,t) graph (compared per case in Coq with what the implementation built, and monitored against an independent description in the worker), bias RANGES of gnp/gnm beyond 'the generated "
           "values are stored unchanged', anything distributional",
           "not covered at all (outside the statement text and anchors): "
           "binary_paint_shop_problem, wireless.mimo / coordinated_multipoint (floating-point channel models, not exact on dyadic data); "
           "integer.binary_encoding belongs to C16 (C16_binary_encoding_facts)"]
