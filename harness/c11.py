PID = "C11"
WORKER = "w_c11"
HEADER = ("From Coq Require Import List ZArith NArith QArith Qcanon String.\n"
          "From Dimod Require Import Base.Util Model.Poly Model.Comb Model.Ser Model.Coo Model.InfoSer Model.CooNum Model.CooLex Model.ChkC11.\nImport ListNotations.")
CHECK_FN = "check"
N_QUICK = 2400
N_THOROUGH = 60000
SHARD = 200
SHRINK_KEYS = ["rows", "quad", "lin", "labels"]
RULE = ("BQMs (float64/float32/object dtype, object models with Python float or mixed int/float biases; int (incl. sparse non-range sets of small integers, shuffled and shifted ranges, integers beyond 2^53), string, float, nested-tuple and mixed labels; SPIN/BINARY; 0-12 variables) "
        "through to_serializable->from_serializable directly, as JSON text, through DimodDecoder, with use_bytes, pickle protocols 2-5, "
        "deepcopy, copy, .copy(): coefficients before/after and the emitted vector form compared in Coq; COO text (non-negative integer "
        "labels, with/without header); sample sets (SPIN, BINARY, INTEGER, DISCRETE, REAL; sample dtypes int8..int64, uint8, bool, float32/64; "
        "0-70 variables (0-130 thorough) so packing spans up to 5 words; 0-5 rows; extra 1-d/2-d data vectors; nested info with arrays) through "
        "to/from_serializable x use_bytes x pack_samples x JSON text, plus DimodEncoder/DimodDecoder, pickle 2-5, deepcopy, copy, .copy(): every "
        "field compared exactly by the worker, sample rows and the emitted sample_data (packed uint32 words or raw rows) compared with the Coq "
        "model; Variables.to_serializable on mixed labels incl. NumPy scalars; serialize_ndarray on float64/32/16 arrays of rank 1-3 incl. "
        "empty axes. Round 4: DEFERRED sample sets (SampleSet.from_future: plain future, future with wait_id, lambda result hook, result set "
        "late, hooks installed on a not-yet-done set by relabel_variables in place / copy, change_vartype, a deferred set inside a deferred "
        "set) handed untouched or after use to every route and to to_serializable; bytes_type=bytearray for BQMs and sample sets, the "
        "deprecated bias_dtype keyword; the .spin/.binary vartype VIEWS of BQMs through to_serializable (pure-Python to_numpy_vectors), "
        "deepcopy and .copy(); exact range labels for BQMs; NumPy scalars (float64/32/16, int64/8, uint16, non-dyadic float64) inside info; "
        "a sample set nested inside other JSON data through DimodEncoder/DimodDecoder; the other model classes (QuadraticModel, "
        "ConstrainedQuadraticModel incl. soft and discrete constraints, DiscreteQuadraticModel, BinaryPolynomial, Variables) through the "
        "copy/pickle routes each class offers, compared field by field by the worker incl. independence of the copy (6% of the cases). "
        "Round 5: MULTI-STEP independence - whatever came back from any route (BQM: ser*, pickle, deepcopy, copy, .copy(), every storage "
        "incl. views; sample sets: serializable, encoder, pickle, deepcopy, .copy()) is then relabelled / gets a variable added and removed / "
        "has offset, energies, samples, info changed, and the ORIGINAL is compared with its earlier snapshot (labels first); NumPy scalars "
        "and Fractions INSIDE tuple labels (any depth for Variables; the generated ('k', i) labels for BQMs and sample sets) through JSON text "
        "and DimodEncoder; SampleSet(record, variables, info, vartype) built from a caller-assembled record with another field order "
        "(energy first, sample last, reversed, rotated). "
        "non-trivial = object has at least one variable/row/element; distinct by case JSON")
TRUSTED = ["model: coq/theories/Model/{Comb,Ser,Poly,ChkC11}.v (hand written mirror of sampleset.py to/from_serializable, "
           "serialization/utils.py, variables.py serialize_variable/deserialize_variable)",
           "Python json / pickle / copy modules and NumPy tolist/frombuffer are oracles (float printing, tuple->list)",
           "energies, num_occurrences and extra vectors are compared by the worker in Python (exact ==, dtype and shape), not in Coq; the info tree "
           "(before, emitted document, after) is decided by the Coq walk of Model/InfoSer.v, with arrays numbered by the worker",
           "round 4: how a deferred sample set is built (concurrent.futures.Future, hooks) and the comparison of the other model classes "
           "(QuadraticModel, ConstrainedQuadraticModel, DiscreteQuadraticModel, BinaryPolynomial, Variables: field-by-field observation "
           "before / after / original-after, independence of the copy) are worker-side Python, with no Coq model behind them"]
ASSUMPTIONS = ["generated numbers are small dyadics, exactly representable in every dtype used",
               "labels after a round trip are compared with Python dict semantics (a float label equal to its own position is handed back by Variables as that int), but the emitted variable_labels must carry ints for integer labels and floats for float labels, nested ones included; label pools contain integers beyond 2^53 so that a float detour changes the value",
               "object-dtype BQMs hold Python floats or, half of the time, Python ints for integral biases and offsets"]
PARTIAL = ["pickle of QuadraticModel / ConstrainedQuadraticModel / DiscreteQuadraticModel, copy.copy of a CQM and deepcopy of a DQM are not offered by "
           "dimod (TypeError from the extension types): these routes are not generated; the property text names BQMs and sample sets only"]
