"""C16 worker: constraint-to-penalty conversions on the real implementation.

Kinds: eq (BQM.add_linear_equality_constraint, all back-ends and views), ineq
(BQM.add_linear_inequality_constraint), dqm_eq, dqm_ineq (log2/log10/linear), enc
(generators.binary_encoding), cqm (dimod.cqm_to_bqm + inverter)."""
import itertools
import warnings
from fractions import Fraction
import numpy as np
import dimod

import wlib
from wlib import cq, clist, cnat, cpair, cz, cbool
import gen
from gen import F, enc_label, dec_label, LabelTable, coq_obs

I64MIN = int(np.iinfo(np.int64).min)
I64MAX = int(np.iinfo(np.int64).max)
LAMS = ["1", "1", "2", "1/2", "3", "5/2", "1/4", "4"]
KINDS = ['eq', 'eq', 'eq', 'ineq', 'ineq', 'ineq', 'dqm_eq', 'dqm_ineq', 'dqm_ineq', 'enc', 'cqm', 'cqm']
BACKENDS = ['f64', 'f64', 'f32', 'obj', 'view_spin', 'view_binary']


def small_int(rng, big=12):
    r = rng.random()
    if r < 0.6:
        return rng.randint(-4, 4)
    if r < 0.9:
        return rng.randint(-7, 7)
    return rng.randint(-big, big)


def rand_bounds(rng, coeffs, const):
    """lb/ub around the reachable range so that all four outcomes occur"""
    lo = sum(c for c in coeffs if c < 0) + const
    hi = sum(c for c in coeffs if c > 0) + const
    style = rng.choice(['both', 'both', 'le', 'ge', 'eqlike', 'wide', 'empty'])
    pick = lambda: rng.randint(lo - 2, hi + 2)
    if style == 'le':
        return I64MIN, pick()
    if style == 'ge':
        return pick(), I64MAX
    if style == 'eqlike':
        v = pick()
        return v, v
    if style == 'wide':
        return lo - rng.randint(0, 3), hi + rng.randint(0, 3)
    a, b = pick(), pick()
    if style == 'empty':
        return max(a, b) + 1, min(a, b)
    return min(a, b), max(a, b)


# ----------------------------------------------------------------------------
# generation
# ----------------------------------------------------------------------------

def gen_case(rng, tier):
    kind = rng.choice(KINDS)
    if kind == 'eq':
        backend = rng.choice(BACKENDS)
        vt = rng.choice(['BINARY', 'SPIN'])
        if backend.startswith('view'):
            vt = 'SPIN' if backend == 'view_spin' else 'BINARY'
        base_vt = rng.choice(['BINARY', 'SPIN'])
        desc = gen.rand_desc(rng, nmax=5, nmin=1, kinds=(vt,), single_vartype=True,
                             kmax=6, jmax=1, selfloops=False)
        labels = [v[0] for v in desc["vars"]]
        native = backend in ('f64', 'f32')
        k = rng.randint(0, 6)
        if rng.random() < 0.5:
            tl = [rng.choice(labels) for _ in range(k)]          # labels may repeat (all back-ends)
        else:
            tl = rng.sample(labels, min(k, len(labels)))
        terms = [[l, small_int(rng)] for l in tl]
        return {"kind": kind, "backend": backend, "vartype": vt, "base_vt": base_vt, "desc": desc, "terms": terms,
                "lam": rng.choice(LAMS), "const": str(Fraction(small_int(rng), rng.choice([1, 1, 2])))}
    if kind == 'ineq':
        backend = rng.choice(['f64', 'f64', 'f32', 'obj'])
        desc = gen.rand_desc(rng, nmax=5, nmin=1, kinds=('BINARY',), single_vartype=True,
                             kmax=6, jmax=1, selfloops=False)
        labels = [v[0] for v in desc["vars"]]
        tl = rng.sample(labels, rng.randint(1, len(labels)))
        if backend != 'obj' and rng.random() < 0.1:
            tl.append(rng.choice(tl))
        big = 12 if len(tl) <= 3 else 6
        terms = [[l, small_int(rng, big)] for l in tl]
        const = small_int(rng)
        lb, ub = rand_bounds(rng, [t[1] for t in terms], const)
        c = {"kind": kind, "backend": backend, "vartype": "BINARY", "desc": desc, "terms": terms,
             "lam": rng.choice(LAMS), "const": const, "lb": lb, "ub": ub}
        r = rng.random()
        if r < 0.3:
            c["cross_zero"] = True
            if rng.random() < 0.6:       # make lb_c > 0 likely
                hi = sum(t[1] for t in terms if t[1] > 0) + const
                if hi >= 2:
                    c["lb"] = rng.randint(1, hi) ; c["ub"] = rng.choice([I64MAX, rng.randint(c["lb"], hi + 1)])
        elif r < 0.45:
            c["lam1"] = rng.choice(LAMS)
        return c
    if kind in ('dqm_eq', 'dqm_ineq'):
        nv = rng.randint(1, 4)
        labels = gen.rand_labels(rng, nv)
        cmax = 3 if nv <= 3 else 2
        ncases = [rng.randint(1, cmax) if kind == 'dqm_eq' else rng.randint(2, cmax) for _ in range(nv)]
        lin = [[str(rng.dyadic(6, 1)) for _ in range(k)] for k in ncases]
        quad = []
        for i in range(nv):
            for j in range(i + 1, nv):
                if rng.random() < 0.6:
                    quad.append([i, j, [[a, b, str(rng.dyadic(6, 1))] for a in range(ncases[i]) for b in range(ncases[j])
                                        if rng.random() < 0.6]])
        allc = [(i, a) for i in range(nv) for a in range(ncases[i])]
        if nv >= 2 and rng.random() < 0.5:
            # the constraint leaves some variables out (they keep their old interactions)
            keep = set(rng.sample(range(nv), rng.randint(1, nv - 1)))
            allc = [x for x in allc if x[0] in keep]
        k = rng.randint(0 if kind == 'dqm_eq' else 1, min(5, len(allc) + 1))
        if rng.random() < 0.3:
            chosen = [rng.choice(allc) for _ in range(k)]        # duplicate (variable, case) allowed
        else:
            chosen = rng.sample(allc, min(k, len(allc)))
        terms = [[i, a, small_int(rng, 9)] for i, a in chosen]
        c = {"kind": kind, "labels": [enc_label(l) for l in labels], "ncases": ncases, "lin": lin, "quad": quad,
             "terms": terms, "lam": rng.choice(LAMS)}
        if kind == 'dqm_eq':
            c["const"] = str(Fraction(small_int(rng), rng.choice([1, 1, 2])))
        else:
            c["const"] = small_int(rng)
            c["lb"], c["ub"] = rand_bounds(rng, [t[2] for t in terms], c["const"])
            c["method"] = rng.choice(['log2', 'log10', 'linear'])
            if rng.random() < 0.3:
                c["cross_zero"] = True
                if rng.random() < 0.6:       # make lb_c > 0 (or ub_c < 0) likely
                    hi = sum(t[2] for t in terms if t[2] > 0) + c["const"]
                    lo = sum(t[2] for t in terms if t[2] < 0) + c["const"]
                    if hi >= 2 and rng.random() < 0.7:
                        c["lb"] = rng.randint(1, hi); c["ub"] = rng.choice([I64MAX, rng.randint(c["lb"], hi + 1)])
                    elif lo <= -2:
                        c["ub"] = rng.randint(lo, -1); c["lb"] = rng.choice([I64MIN, rng.randint(lo - 1, c["ub"])])
        return c
    if kind == 'enc':
        return {"kind": kind, "ub": rng.choice([2, 3, 4, 5, 7, 8, 15, 16, 17, 31, 32, 33, 63, 64, 100, 127, 128, 255, 256, 257,
                                                  rng.randint(2, 300), rng.randint(2, 300), rng.randint(2, 40)])}
    # cqm
    nv = rng.randint(1, 4)
    labels = gen.rand_labels(rng, nv)
    vars_ = []
    for l in labels:
        vt = rng.choice(['BINARY', 'SPIN', 'INTEGER'])
        vars_.append([enc_label(l), vt, 0 if vt != 'SPIN' else -1, rng.choice([2, 3, 4, 5]) if vt == 'INTEGER' else 1])
    obj = {"lin": [[v[0], str(rng.dyadic(6, 1))] for v in vars_ if rng.random() < 0.8], "quad": [],
           "off": str(rng.dyadic(6, 1))}
    for i in range(nv):
        for j in range(i, nv):
            if i == j and vars_[i][1] != 'INTEGER':
                continue
            if rng.random() < 0.45:
                obj["quad"].append([vars_[i][0], vars_[j][0], str(rng.dyadic(4, 1))])
    cons = []
    for _ in range(rng.randint(0, 3)):
        sub = rng.sample(vars_, rng.randint(0 if rng.random() < 0.1 else 1, nv))
        lin = [[v[0], rng.choice([-3, -2, -1, 1, 1, 2, 3])] for v in sub]
        cons.append({"lin": lin, "off": rng.choice([0, 0, 0, 1, -2]), "sense": rng.choice(['<=', '>=', '==']),
                     "rhs": rng.randint(-4, 6)})
    return {"kind": "cqm", "vars": vars_, "obj": obj, "cons": cons, "lam": rng.choice(LAMS)}


# ----------------------------------------------------------------------------
# helpers
# ----------------------------------------------------------------------------

def make_bqm(c):
    backend = c["backend"]
    dtype = {'f32': np.float32, 'obj': object}.get(backend, np.float64)
    desc = c["desc"]
    vt = c["vartype"]
    if backend.startswith('view'):
        # the call goes through a view of the other (or same) vartype
        base_vt = c.get("base_vt", rng_free_other(vt))
        base = dimod.BinaryQuadraticModel(gen.VT[base_vt], dtype=np.float64)
        for l, _, _, _ in desc["vars"]:
            base.add_variable(dec_label(l))
        target = base.spin if vt == 'SPIN' else base.binary
        for l, b in desc["lin"]:
            target.add_linear(dec_label(l), float(F(b)))
        for u, v, b in desc["quad"]:
            target.add_quadratic(dec_label(u), dec_label(v), float(F(b)))
        target.offset = float(F(desc["off"]))
        return base, target
    bqm = gen.build_bqm(desc, dtype=dtype)
    return bqm, bqm


def rng_free_other(vt):
    return 'BINARY' if vt == 'SPIN' else 'SPIN'


def coq_lterms(terms, T):
    return clist([cpair(cnat(T.idx(l)), cq(F(b))) for l, b in terms])


def coq_zterms(terms, T):
    return clist([cpair(cnat(T.idx(l)), cz(b)) for l, b in terms])


def build_dqm(c):
    dqm = dimod.DiscreteQuadraticModel()
    labels = [dec_label(l) for l in c["labels"]]
    for l, k in zip(labels, c["ncases"]):
        dqm.add_variable(k, l)
    for l, arr in zip(labels, c["lin"]):
        dqm.set_linear(l, [float(F(x)) for x in arr])
    for i, j, entries in c["quad"]:
        if entries:
            dqm.set_quadratic(labels[i], labels[j], {(a, b): float(F(x)) for a, b, x in entries})
    return dqm, labels


def observe_dqm(dqm):
    """case-level coefficients; global case label = start of the variable + case"""
    starts, s = {}, 0
    for v in dqm.variables:
        starts[v] = s
        s += dqm.num_cases(v)
    lin, quad = [], []
    vs = list(dqm.variables)
    for v in vs:
        for k, b in enumerate(dqm.get_linear(v)):
            lin.append((starts[v] + k, F(b)))
    asym = None
    for i, u in enumerate(vs):
        for v in vs[i + 1:]:
            q = qr = None
            try:
                q = dqm.get_quadratic(u, v)
            except ValueError:
                pass
            try:
                qr = dqm.get_quadratic(v, u)
            except ValueError:
                pass
            if (q is None) != (qr is None) or (q is not None and {(b, a): x for (a, b), x in q.items()} != qr):
                asym = f"get_quadratic({u!r},{v!r}) = {q} but get_quadratic({v!r},{u!r}) = {qr}"
            if q is None and qr is not None:
                q = {(b, a): x for (a, b), x in qr.items()}
            for (a, b), x in (q or {}).items():
                quad.append((starts[u] + a, starts[v] + b, F(x)))
    groups = [[starts[v] + k for k in range(dqm.num_cases(v))] for v in vs]
    return {"n": s, "lin": lin, "quad": quad, "groups": groups, "starts": starts, "off": F(dqm.offset), "asym": asym}


def dqm_energies(dqm, nvars=None, cap=None):
    """[(one-hot sample as case-level labels, exact energy)] as DQM.energies reports them, over every
    assignment of the first nvars variables (the others at case 0); an evenly spaced subset above cap"""
    vs = list(dqm.variables)
    starts, s = {}, 0
    for v in vs:
        starts[v] = s
        s += dqm.num_cases(v)
    free = vs if nvars is None else vs[:nvars]
    rows = list(itertools.product(*[range(dqm.num_cases(v)) for v in free]))
    if cap and len(rows) > cap:
        step = len(rows) / cap
        rows = [rows[int(i * step)] for i in range(cap)]
    rows = [tuple(r) + (0,) * (len(vs) - len(free)) for r in rows]
    if not vs:
        return []
    en = dqm.energies((np.array(rows, dtype=np.int64).reshape(len(rows), len(vs)), vs))
    return [([starts[v] + c for v, c in zip(vs, r)], F(e)) for r, e in zip(rows, en)]


def raw_adj(dqm):
    """the cyDQM's variable-level adjacency vectors as they are"""
    return [[int(x) for x in row] for row in dqm._cydqm.adj]


def raw_quad(dqm):
    """case-level interactions straight from the native structure (not through the adjacency lists)"""
    _, _, (irow, icol, qdata) = dqm._cydqm.to_numpy_vectors()
    return [(int(r), int(c), F(q)) for r, c, q in zip(irow, icol, qdata)]


def coq_adj(adj):
    return clist([clist([cnat(x) for x in row]) for row in adj])


def coq_rawq(q):
    return clist([f"({cnat(u)}, {cnat(v)}, {cq(b)})" for u, v, b in q])


def coq_en(rows):
    return clist([cpair(clist([cpair(cnat(l), cq(1)) for l in ls]), cq(e)) for ls, e in rows])


def coq_dobs(o):
    lin = clist([cpair(cnat(l), cq(b)) for l, b in o["lin"]])
    quad = clist([f"({cnat(u)}, {cnat(v)}, {cq(b)})" for u, v, b in o["quad"]])
    return f"(mkObs {cq(o['off'])} {lin} {quad})"


def coq_groups(gs):
    return clist([clist([cnat(x) for x in g]) for g in gs])


# ----------------------------------------------------------------------------
# running
# ----------------------------------------------------------------------------

def run_eq(c):
    base, target = make_bqm(c)
    T = LabelTable([v[0] for v in c["desc"]["vars"]])
    terms = [(dec_label(l), b) for l, b in c["terms"]]
    lam, const = F(c["lam"]), F(c["const"])
    before = gen.observe(target)
    obj = c["backend"] == 'obj'
    conv = (lambda x: x) if False else (lambda x: float(x))
    target.add_linear_equality_constraint([(l, conv(b)) for l, b in terms], conv(lam), conv(const))
    after = gen.observe(target)
    fallback = c["backend"] in ('obj', 'view_spin', 'view_binary')
    labs = [l for l, _ in c["terms"]]
    repeated = len({repr(l) for l in labs}) != len(labs)
    feats = {"kind": "eq", "backend": c["backend"], "vartype": c["vartype"]}
    feats["repeated_label"] = repeated
    coq = (f"(mkEq {cnat(len(T))} {c['vartype']} {cbool(fallback)} {coq_lterms(c['terms'], T)} {cq(lam)} {cq(const)} "
           f"{coq_obs(before, T)} {coq_obs(after, T)})")
    py_fail = None
    if list(target.variables) != [dec_label(v[0]) for v in c["desc"]["vars"]]:
        py_fail = "variables changed by add_linear_equality_constraint"
    return {"coq": coq, "check_fn": "check_eq", "features": feats, "py_fail": py_fail,
            "nontrivial": len(terms) > 0, "observed": {"before": before, "after": after}}


def run_ineq(c):
    base, bqm = make_bqm(c)
    names = [v[0] for v in c["desc"]["vars"]]
    T = LabelTable(names)
    nx = len(T)
    terms = [(dec_label(l), int(b)) for l, b in c["terms"]]
    lam = F(c["lam"])
    before = gen.observe(bqm)
    raised = False
    with warnings.catch_warnings():
        warnings.simplefilter("ignore")
        try:
            kw = {}
            if c.get("cross_zero"):
                kw["cross_zero"] = True
            lm = float(lam)
            if "lam1" in c:
                kw["penalization_method"] = "unbalanced"
                lm = [float(lam), float(F(c["lam1"]))]
            slack = bqm.add_linear_inequality_constraint(terms, lm, "c0", constant=int(c["const"]),
                                                         lb=int(c["lb"]), ub=int(c["ub"]), **kw)
        except ValueError:
            raised = True
            slack = []
    after = gen.observe(bqm)
    for v in bqm.variables:
        T.idx(v)
    py_fail = None
    if any(F(s) != int(F(s)) for _, s in slack):
        py_fail = "non-integer slack coefficient"
    out = "ORaised" if raised else f"(OReturned {coq_zterms([(enc_label(v), int(s)) for v, s in slack], T)})"
    feats = {"kind": "ineq", "backend": c["backend"], "vartype": c["vartype"],
             "outcome": "raised" if raised else ("slack" if slack else "none"),
             "cross_zero": bool(c.get("cross_zero")), "unbalanced": "lam1" in c}
    if c["vartype"] == 'SPIN':
        feats["ineq_on_spin_bqm"] = True
    coq = (f"(mkIneq {cnat(len(T))} {cnat(nx)} {c['vartype']} {coq_zterms(c['terms'], T)} {cq(lam)} "
           f"{cz(c['const'])} {cz(c['lb'])} {cz(c['ub'])} {cbool(c.get('cross_zero'))} "
           f"{'(Some ' + cq(F(c['lam1'])) + ')' if 'lam1' in c else 'None'} {cbool(c['backend'] == 'obj')} "
           f"{out} {coq_obs(before, T)} {coq_obs(after, T)})")
    return {"coq": coq, "check_fn": "check_ineq", "features": feats, "py_fail": py_fail,
            "nontrivial": bool(slack) or raised, "observed": {"slack": str(slack), "raised": raised}}


def dqm_terms(c, labels, starts):
    return [(starts[labels[i]] + a, b) for i, a, b in c["terms"]]


def run_dqm_eq(c):
    dqm, labels = build_dqm(c)
    before = observe_dqm(dqm)
    en_before = dqm_energies(dqm)
    adj_before = raw_adj(dqm)
    lam, const = F(c["lam"]), F(c["const"])
    dqm.add_linear_equality_constraint([(labels[i], a, float(b)) for i, a, b in c["terms"]], float(lam), float(const))
    after = observe_dqm(dqm)
    en_after = dqm_energies(dqm)
    gt = dqm_terms(c, labels, before["starts"])
    terms = clist([cpair(cnat(l), cq(b)) for l, b in gt])
    coq = (f"(mkDqmEq {cnat(after['n'])} {coq_groups(after['groups'])} {terms} {cq(lam)} {cq(const)} "
           f"{coq_dobs(before)} {coq_dobs(after)} {coq_en(en_before)} {coq_en(en_after)} "
           f"{coq_adj(adj_before)} {coq_adj(raw_adj(dqm))} {coq_rawq(raw_quad(dqm))})")
    return {"coq": coq, "check_fn": "check_dqm_eq", "features": {"kind": "dqm_eq"},
            "py_fail": before["asym"] or after["asym"],
            "nontrivial": len(gt) > 0, "observed": {"after": str(after["lin"])}}


def log10_overcovers(U):
    n = int(np.ceil(np.log10(U + 1)))
    top = sum(([0] + list(range(0, min(U + 1, 10 ** (j + 1)), 10 ** j)))[-1] for j in range(n))
    return top > U


def run_dqm_ineq(c):
    dqm, labels = build_dqm(c)
    before = observe_dqm(dqm)
    en_before = dqm_energies(dqm)
    adj_before = raw_adj(dqm)
    lam = F(c["lam"])
    method = c["method"]
    coeffs = [b for _, _, b in c["terms"]]
    tu = sum(b for b in coeffs if b > 0)
    tl = sum(b for b in coeffs if b < 0)
    U = min(tu, c["ub"] - c["const"]) - max(tl, c["lb"] - c["const"])
    over = method == 'log10' and U > 0 and log10_overcovers(U)
    if over and not c.get("force"):
        method, over = 'log2', False     # the random stream stays clear of the known log10 defect
    if method == 'linear' and U > 60 and not c.get("force"):
        method = 'log2'
    raised = False
    with warnings.catch_warnings():
        warnings.simplefilter("ignore")
        try:
            slack = dqm.add_linear_inequality_constraint([(labels[i], a, int(b)) for i, a, b in c["terms"]], float(lam), "c0",
                                                         constant=int(c["const"]), lb=int(c["lb"]), ub=int(c["ub"]),
                                                         slack_method=method, cross_zero=bool(c.get("cross_zero")))
        except ValueError:
            raised = True
            slack = []
    after = observe_dqm(dqm)
    en_after = dqm_energies(dqm, cap=192)
    svars = []
    for sv, case, val in slack:
        if sv not in svars:
            svars.append(sv)
    groups = []
    for sv in svars:
        vals = {0: 0}
        for v, case, val in slack:
            if v == sv:
                vals[case] = int(val)
        k = dqm.num_cases(sv)
        groups.append([(after["starts"][sv] + j, vals.get(j, 0)) for j in range(k)])
    py_fail = None
    if not raised and len(after["groups"]) != len(before["groups"]) + len(svars):
        py_fail = "slack variables added but not returned"
    py_fail = py_fail or before["asym"] or after["asym"]
    out = "DRaised" if raised else "(DReturned " + clist([clist([cpair(cnat(l), cz(v)) for l, v in g]) for g in groups]) + ")"
    gt = dqm_terms(c, labels, before["starts"])
    terms = clist([cpair(cnat(l), cz(b)) for l, b in gt])
    m = {'log2': 'Log2', 'log10': 'Log10', 'linear': 'Linear'}[method]
    coq = (f"(mkDqmIneq {cnat(after['n'])} {coq_groups(before['groups'])} {m} {terms} {cq(lam)} "
           f"{cz(c['const'])} {cz(c['lb'])} {cz(c['ub'])} {cbool(c.get('cross_zero'))} {out} {coq_dobs(before)} {coq_dobs(after)} "
           f"{coq_en(en_before)} {coq_en(en_after)} "
           f"{coq_adj(adj_before)} {coq_adj(raw_adj(dqm))} {coq_rawq(raw_quad(dqm))})")
    feats = {"kind": "dqm_ineq", "dqm_slack_method": method, "cross_zero": bool(c.get("cross_zero")), "outcome": "raised" if raised else ("slack" if slack else "none")}
    if method == 'log10':
        feats["overcovers"] = bool(over)
    return {"coq": coq, "check_fn": "check_dqm_ineq", "features": feats, "py_fail": py_fail,
            "nontrivial": bool(slack) or raised, "observed": {"slack": str(slack), "raised": raised, "U": U}}


def run_enc(c):
    ub = int(c["ub"])
    bqm = dimod.generators.binary_encoding('i', ub)
    coeffs = [F(bqm.get_linear(v)) for v in bqm.variables]
    py_fail = None
    for k, v in enumerate(bqm.variables):
        if not (isinstance(v, tuple) and v[0] == 'i' and F(v[1]) == coeffs[k]):
            py_fail = f"label {v!r} does not carry its coefficient"
        if (len(v) == 3) != (k == len(bqm.variables) - 1):
            py_fail = "msb marker misplaced"
    if bqm.offset != 0 or not bqm.is_linear() or bqm.vartype is not dimod.BINARY:
        py_fail = "binary_encoding is not a linear BINARY model without offset"
    if any(x.denominator != 1 for x in coeffs):
        py_fail = "non-integer coefficient"
    coq = f"(mkEnc {cz(ub)} {clist([cz(int(x)) for x in coeffs])})"
    return {"coq": coq, "check_fn": "check_enc", "features": {"kind": "enc"}, "py_fail": py_fail, "nontrivial": True}


def build_cqm(c, ncons=None):
    cqm = dimod.ConstrainedQuadraticModel()
    for l, vt, lb, ub in c["vars"]:
        if vt == 'INTEGER':
            cqm.add_variable(vt, dec_label(l), lower_bound=0, upper_bound=ub)
        else:
            cqm.add_variable(vt, dec_label(l))
    qm = dimod.QuadraticModel()
    used = {repr(t[0]) for t in c["obj"]["lin"]} | {repr(x) for t in c["obj"]["quad"] for x in t[:2]}
    for l, vt, lb, ub in c["vars"]:
        if repr(l) in used:
            qm.add_variable(vt, dec_label(l), **({"lower_bound": 0, "upper_bound": ub} if vt == 'INTEGER' else {}))
    for l, b in c["obj"]["lin"]:
        qm.add_linear(dec_label(l), float(F(b)))
    for u, v, b in c["obj"]["quad"]:
        qm.add_quadratic(dec_label(u), dec_label(v), float(F(b)))
    qm.offset = float(F(c["obj"]["off"]))
    cqm.set_objective(qm)
    labels = []
    vinfo = {repr(v[0]): v for v in c["vars"]}
    for i, con in enumerate(c["cons"][:ncons]):
        q = dimod.QuadraticModel()
        for l, b in con["lin"]:
            _, vt, lb, ub = vinfo[repr(l)]
            q.add_variable(vt, dec_label(l), **({"lower_bound": 0, "upper_bound": ub} if vt == 'INTEGER' else {}))
            q.add_linear(dec_label(l), float(b))
        q.offset = float(con["off"])
        labels.append(cqm.add_constraint_from_model(q, con["sense"], rhs=float(con["rhs"]), label=f"c{i}"))
    return cqm, labels


def run_cqm(c):
    lam = F(c["lam"])
    ncons = len(c["cons"])
    while True:
        cqm, labels = build_cqm(c, ncons)
        raised = False
        with warnings.catch_warnings():
            warnings.simplefilter("ignore")
            try:
                bqm, inv = dimod.cqm_to_bqm(cqm, float(lam))
            except ValueError as e:
                if "infeasible" not in str(e):
                    raise
                raised = True
                bqm = None
        if raised or bqm.num_variables <= 12 or ncons == 0:
            break
        ncons -= 1        # keep the exhaustive enumeration small
    Tc = LabelTable([v[0] for v in c["vars"]])
    Tb = Tc          # one label space, as in dimod: a binary / spin variable keeps its label in the BQM
    feats = {"kind": "cqm", "raised": raised, "ncons": ncons,
             "vartypes": "".join(sorted({v[1][0] for v in c["vars"]}))}
    qvars = clist([cpair(cnat(Tc.idx(l)), "CBin" if vt == 'BINARY' else "CSpin" if vt == 'SPIN' else f"(CInt {cz(ub)})")
                   for l, vt, lb, ub in c["vars"]])
    obj = coq_obs(gen.observe(cqm.objective), Tc)
    sense = {'<=': 'SLe', '>=': 'SGe', '==': 'SEq'}
    cons = []
    for lab in labels:
        con = cqm.constraints[lab]
        cons.append(f"({coq_obs(gen.observe(con.lhs), Tc)}, {sense[con.sense.value]}, {cq(F(con.rhs))})")
    if raised:
        # without a BQM the encoding table is rebuilt from binary_encoding itself
        enc = []
        for l, vt, lb, ub in c["vars"]:
            v = dec_label(l)
            if vt == 'INTEGER':
                e = dimod.generators.binary_encoding(v, int(ub))
                enc.append((l, "0", [(enc_label(u), F(e.get_linear(u))) for u in e.variables]))
            elif vt == 'SPIN':
                enc.append((l, "-1", [(l, F(2))]))
            else:
                enc.append((l, "0", [(l, F(1))]))
        for l, off, bits in enc:
            for u, _ in bits:
                Tb.idx(u)
        qenc = clist([cpair(cnat(Tc.idx(l)), f"(mkPoly {cq(F(off))} {clist([cpair(cnat(Tb.idx(u)), cq(b)) for u, b in bits])} [])")
                      for l, off, bits in enc])
        coq = (f"(mkCqm {cnat(len(Tb))} {qvars} {qenc} {obj} {clist(cons)} {cq(lam)} [] true "
               f"(mkObs {cq(0)} [] []) [] [])")
        return {"coq": coq, "check_fn": "check_cqm", "features": feats, "nontrivial": True}
    for v in bqm.variables:
        Tb.idx(v)
    enc = []
    for v, vt in inv._binary.items():
        if vt is dimod.SPIN:
            enc.append((v, F(-1), [(v, F(2))]))
        else:
            enc.append((v, F(0), [(v, F(1))]))
    for v, e in inv._integers.items():
        enc.append((v, F(0), [(u, F(u[1])) for u in e.variables]))
    qenc = clist([cpair(cnat(Tc.idx(v)), f"(mkPoly {cq(off)} {clist([cpair(cnat(Tb.idx(u)), cq(b)) for u, b in bits])} [])")
                  for v, off, bits in enc])
    # slack groups in creation order
    groups, order = {}, []
    for v in bqm.variables:
        if isinstance(v, str) and v.startswith("slack_"):
            pre = v.rsplit("_", 1)[0]
            if pre not in groups:
                groups[pre] = []
                order.append(pre)
            groups[pre].append(v)
    qslack = clist([clist([cnat(Tb.idx(v)) for v in groups[p]]) for p in order])
    # all BQM samples, exact energies, grouped by the inverter's image
    nb = bqm.num_variables
    bvars = list(bqm.variables)
    samples = np.array(list(itertools.product([0, 1], repeat=nb)), dtype=np.int8).reshape(-1, nb)
    en = bqm.energies((samples, bvars)) if nb else np.array([bqm.offset])
    best = {}
    inv_samples = []
    cvars = [dec_label(v[0]) for v in c["vars"]]
    py_fail = None
    for r in range(samples.shape[0]):
        s = dict(zip(bvars, (int(x) for x in samples[r])))
        x = inv(s)
        key = tuple(F(x[v]) for v in cvars)
        if set(x) != set(cvars):
            py_fail = "inverter output has the wrong variables"
        e = F(en[r])
        if key not in best or e < best[key]:
            best[key] = e
        if r % max(1, samples.shape[0] // 6) == 1 or r == samples.shape[0] - 1:
            inv_samples.append((s, x))
    rows = clist([cpair(clist([cpair(cnat(Tc.idx(enc_label(v))), cq(a)) for v, a in zip(cvars, key)]), cq(e))
                  for key, e in best.items()])
    qinv = clist([cpair(clist([cpair(cnat(Tb.idx(u)), cq(a)) for u, a in s.items()]),
                        clist([cpair(cnat(Tc.idx(enc_label(v))), cq(F(a))) for v, a in x.items()]))
                  for s, x in inv_samples])
    coq = (f"(mkCqm {cnat(len(Tb))} {qvars} {qenc} {obj} {clist(cons)} {cq(lam)} {qslack} false "
           f"{coq_obs(gen.observe(bqm), Tb)} {rows} {qinv})")
    return {"coq": coq, "check_fn": "check_cqm", "features": feats, "py_fail": py_fail,
            "nontrivial": ncons > 0, "observed": {"bqm_vars": str(bvars)}}


def run_case(c):
    k = c["kind"]
    return {'eq': run_eq, 'ineq': run_ineq, 'dqm_eq': run_dqm_eq, 'dqm_ineq': run_dqm_ineq,
            'enc': run_enc, 'cqm': run_cqm}[k](c)


if __name__ == "__main__":
    wlib.main(gen_case, run_case)
