"""Shared machinery for the dimod verification checks.

Everything here is plumbing: scratch build of /repo's working tree, the Coq
project build, evaluation of generated case files inside Coq (vm_compute),
evidence files, replay files and the known-findings matcher.
"""
import fcntl
import hashlib
import json
import os
import random
import re
import shutil
import subprocess
import sys
import time
from fractions import Fraction

ROOT = os.path.dirname(os.path.dirname(os.path.abspath(__file__)))
REPO = os.environ.get("VERIF_REPO", "/repo")
WORK = os.path.join(ROOT, "_work")
COQ = os.path.join(ROOT, "coq")
CACHE = "/var/tmp/dimod-verif"
COQ_SRC = COQ
if os.path.realpath(REPO) != "/repo":
    # A run against another tree (development aid: seeded changes, VERIF_REPO=<worktree>) works on its own copy of
    # the Coq development, so that the files the translators generate from that tree never mix with those a
    # concurrent run generates from /repo (and the other way round).  Registered checks always run on ROOT/coq.
    COQ = os.path.join(CACHE + "-coq", hashlib.sha1(os.path.realpath(REPO).encode()).hexdigest()[:12])


def sync_private_coq():
    """refresh the private copy (sources, compiled files and time stamps) from ROOT/coq; no-op for /repo"""
    if COQ == COQ_SRC:
        return
    os.makedirs(COQ, exist_ok=True)
    with open(os.path.join(COQ_SRC, ".lock"), "w") as lk:
        fcntl.flock(lk, fcntl.LOCK_EX)
        subprocess.run(["rsync", "-a", "--delete", "--exclude", ".lock", COQ_SRC + "/", COQ + "/"], check=False)
PY = "/venv/bin/python"
NCPU = min(16, os.cpu_count() or 4)

NATIVE_EXT = (".pyx", ".pxd", ".pxi", ".h", ".hpp")


def log(*a):
    print(*a, file=sys.stderr, flush=True)


def sh(cmd, **kw):
    return subprocess.run(cmd, shell=isinstance(cmd, str), **kw)


# ----------------------------------------------------------------------------
# implementation build cache
# ----------------------------------------------------------------------------

def native_hash(repo=None):
    repo = repo or REPO
    h = hashlib.sha256()
    files = []
    for top in ("dimod", "extern"):
        for d, dn, fn in os.walk(os.path.join(repo, top)):
            dn[:] = [x for x in dn if x not in ("__pycache__", "build")]
            for f in fn:
                p = os.path.join(d, f)
                rel = os.path.relpath(p, repo)
                if top == "extern" or f.endswith(NATIVE_EXT):
                    if f.endswith((".so", ".html", ".o")):
                        continue
                    files.append(rel)
    files.append("setup.py")
    for rel in sorted(files):
        h.update(rel.encode())
        try:
            with open(os.path.join(repo, rel), "rb") as fh:
                h.update(fh.read())
        except OSError:
            h.update(b"<missing>")
    return h.hexdigest()[:20]


def ensure_build(repo=None):
    """Return the path of a scratch copy of the working tree whose extension
    modules were compiled from the current native sources.  Pure python files
    are re-synced on every call."""
    repo = repo or REPO
    os.makedirs(CACHE, exist_ok=True)
    t0 = time.time()
    with open(os.path.join(CACHE, ".lock"), "w") as lk:
        fcntl.flock(lk, fcntl.LOCK_EX)
        nh = native_hash(repo)
        key = nh + "-" + hashlib.sha256(os.path.realpath(repo).encode()).hexdigest()[:6]
        dst = os.path.join(CACHE, key)
        os.makedirs(dst, exist_ok=True)
        r = sh(["rsync", "-a", "--delete",
                "--exclude", ".git", "--exclude", "*.so", "--exclude", "build",
                "--exclude", "/dimod/**/*.cpp", "--exclude", "/dimod/*.cpp", "--exclude", "*.html",
                "--exclude", "__pycache__", "--exclude", ".built", "--exclude", "build.log",
                "--exclude", "/docs", "--exclude", "/benchmarks", "--exclude", "/releasenotes",
                repo.rstrip("/") + "/", dst + "/"], capture_output=True, text=True)
        if r.returncode != 0:
            raise RuntimeError("rsync failed: " + r.stderr)
        marker = os.path.join(dst, ".built")
        if not os.path.exists(marker):
            # same native sources already compiled for another tree location: reuse its extension modules
            for d in os.listdir(CACHE):
                sib = os.path.join(CACHE, d)
                if d != key and d.startswith(nh + "-") and os.path.exists(os.path.join(sib, ".built")):
                    sh(["rsync", "-a", "--include", "*/", "--include", "*.so", "--exclude", "*", sib + "/", dst + "/"])
                    open(marker, "w").write(key)
                    break
        if not os.path.exists(marker):
            log(f"[build] compiling extension modules for native hash {key} ...")
            env = dict(os.environ, CYTHON_NTHREADS="12", PIP_NO_INDEX="1")
            env.pop("PYTHONPATH", None)
            with open(os.path.join(dst, "build.log"), "w") as lf:
                r = sh([PY, "setup.py", "build_ext", "--inplace", "-j16"], cwd=dst, env=env,
                       stdout=lf, stderr=subprocess.STDOUT)
            if r.returncode != 0:
                tail = open(os.path.join(dst, "build.log")).read()[-3000:]
                raise RuntimeError("native build of the working tree failed:\n" + tail)
            open(marker, "w").write(key)
            shutil.rmtree(os.path.join(dst, "build"), ignore_errors=True)
            log(f"[build] done in {time.time()-t0:.0f}s")
        # keep only the few most recently used builds
        os.utime(marker)
        keep = int(os.environ.get("VERIF_KEEP_BUILDS", "8"))
        ds = [d for d in os.listdir(CACHE) if os.path.isdir(os.path.join(CACHE, d))]
        ds.sort(key=lambda d: os.path.getmtime(os.path.join(CACHE, d, ".built")) if os.path.exists(os.path.join(CACHE, d, ".built")) else 0,
                reverse=True)
        # ... but never one that was used recently: a concurrent check may still be running on it
        ttl = int(os.environ.get("VERIF_BUILD_TTL", "10800"))
        for d in ds[keep:]:
            m = os.path.join(CACHE, d, ".built")
            if d != key and (not os.path.exists(m) or time.time() - os.path.getmtime(m) > ttl):
                shutil.rmtree(os.path.join(CACHE, d), ignore_errors=True)
    return dst


def impl_env(build):
    env = dict(os.environ)
    env["PYTHONPATH"] = build + os.pathsep + os.path.join(ROOT, "harness")
    env["PYTHONHASHSEED"] = "0"
    env["DIMOD_VERIF"] = "1"
    env["OMP_NUM_THREADS"] = "1"
    env["OPENBLAS_NUM_THREADS"] = "1"
    return env


def run_workers(build, module, jobs, timeout=1800):
    """Run `python -m module` once per job (json on stdin), in parallel.
    Each worker prints one JSON document on stdout.  Returns list of outputs;
    a crashed worker yields {"crash": ...}."""
    from concurrent.futures import ThreadPoolExecutor
    env = impl_env(build)

    def one(job):
        try:
            r = subprocess.run([PY, "-X", "faulthandler", "-m", module], input=json.dumps(job), text=True,
                               capture_output=True, env=env, cwd=WORK, timeout=timeout)
        except subprocess.TimeoutExpired:
            return {"crash": "timeout", "job": job}
        if r.returncode == 97:
            # not a verdict about the implementation: the scratch build the worker was pointed at is not
            # the copy it imported (removed by a concurrent run); the whole check is void
            raise RuntimeError("infrastructure failure: " + r.stderr[-300:])
        if r.returncode != 0:
            return {"crash": f"exit {r.returncode}", "stderr": r.stderr[-4000:], "job": job}
        try:
            return json.loads(r.stdout)
        except Exception as e:
            return {"crash": f"bad output: {e}", "stdout": r.stdout[-2000:], "stderr": r.stderr[-2000:], "job": job}
    os.makedirs(WORK, exist_ok=True)
    with ThreadPoolExecutor(NCPU) as ex:
        return list(ex.map(one, jobs))


# ----------------------------------------------------------------------------
# Coq project
# ----------------------------------------------------------------------------

AUDIT_RE = re.compile(r"\b(Admitted|admit|Axiom|Parameter|Conjecture|Admit Obligations|bypass_check)\b|Unset Guard|Unset Positivity|Unset Universe|type-in-type|impredicative-set")


FAILED_TRANSLATORS = {}   # file -> names of the Gen_* modules it writes (filled by run_translators)


def gen_closure(pid, header=""):
    """Gen_* modules in the transitive `Require` closure of Props/<pid>.v and of the modules the
    case files import (HEADER): the generated files this property's theorems and model depend on."""
    th = os.path.join(COQ, "theories")
    seen = set()

    def imports(src):
        src = re.sub(r"\(\*.*?\*\)", "", src, flags=re.S)
        for imp in re.findall(r"Require\s+(?:Import\s+|Export\s+)?(.*?)\.(?=\s|$)", src, flags=re.S):
            for name in imp.split():
                name = name.replace("Dimod.", "")
                if re.match(r"^(Base|Model|Proofs|Gen|Props)\.", name):
                    visit(name.replace(".", "/"))

    def visit(rel):
        if rel in seen:
            return
        seen.add(rel)
        p = os.path.join(th, rel + ".v")
        if os.path.exists(p):
            imports(open(p).read())

    visit("Props/" + pid)
    imports(header)
    return {r.split("/")[1] for r in seen if r.startswith("Gen/")}


def translators_ok_for(pid, header=""):
    """A failed translator breaks the tie of exactly the properties that depend on what it generates
    (a translator may declare `PROPERTIES = ["Cxx", ...]` instead; one that neither declares it nor names a
    Gen_* module is taken to concern every property)."""
    if not FAILED_TRANSLATORS:
        return True, []
    gens = gen_closure(pid, header)
    bad = [f for f, (outs, props) in FAILED_TRANSLATORS.items()
           if (pid in props if props is not None else (not outs or outs & gens))]
    return not bad, bad


def run_translators(build):
    """Regenerate coq/theories/Gen/*.v from the source tree. Returns
    (ok, messages, inputs) - fail-closed: any unparsed construct is an error."""
    sys.path.insert(0, os.path.join(ROOT, "translators"))
    sync_private_coq()
    msgs, inputs, ok = [], [], True
    tdir = os.path.join(ROOT, "translators")
    os.makedirs(os.path.join(COQ, "theories", "Gen"), exist_ok=True)
    for f in (sorted(os.listdir(tdir)) if os.path.isdir(tdir) else []):
        if not f.endswith(".py") or f.startswith("_"):
            continue
        r = sh([PY, os.path.join(tdir, f), build, os.path.join(COQ, "theories", "Gen")],
               capture_output=True, text=True)
        if r.returncode != 0:
            ok = False
            msgs.append(f"{f}: {r.stdout.strip()} {r.stderr.strip()[-1500:]}")
            src = open(os.path.join(tdir, f)).read()
            decl = re.search(r"^PROPERTIES\s*=\s*\[([^\]]*)\]", src, flags=re.M)
            FAILED_TRANSLATORS[f] = (set(re.findall(r"Gen_[A-Za-z0-9_]+", src)),
                                     set(re.findall(r"C\d\d", decl.group(1))) if decl else None)
        else:
            for line in r.stdout.splitlines():
                if line.startswith("INPUT "):
                    inputs.append(line[6:])
    return ok, msgs, inputs


def coq_files():
    out = []
    for d, _, fn in os.walk(os.path.join(COQ, "theories")):
        for f in fn:
            if f.endswith(".v"):
                out.append(os.path.relpath(os.path.join(d, f), COQ))
    return sorted(out)


def coq_make(targets=None, timeout=3000):
    """Full .vo build (never -vos). Returns (ok, log_text)."""
    with open(os.path.join(COQ, ".lock"), "w") as lk:
        fcntl.flock(lk, fcntl.LOCK_EX)
        files = coq_files()
        proj = "-Q theories Dimod\n-arg -w -arg -notation-overridden,-deprecated-hint-without-locality,-deprecated-instance-without-locality,-ambiguous-paths\n" + "\n".join(files) + "\n"
        pp = os.path.join(COQ, "_CoqProject")
        if not os.path.exists(pp) or open(pp).read() != proj:
            open(pp, "w").write(proj)
        r = sh("coq_makefile -f _CoqProject -o Makefile", cwd=COQ, capture_output=True, text=True)
        if r.returncode != 0:
            return False, r.stdout + r.stderr
        tg = " ".join(targets) if targets else ""
        r = sh(f"timeout {timeout} make -k -j{NCPU} {tg}", cwd=COQ, capture_output=True, text=True)
        return r.returncode == 0, r.stdout + r.stderr


def audit_sources():
    """Text audit: no Admitted/admit/Axiom/Parameter/... anywhere in the development."""
    bad = []
    for f in coq_files():
        txt = open(os.path.join(COQ, f)).read()
        txt_nc = re.sub(r"\(\*.*?\*\)", "", txt, flags=re.S)
        for i, line in enumerate(txt_nc.splitlines(), 1):
            if AUDIT_RE.search(line):
                bad.append(f"{f}:{i}: {line.strip()}")
    return bad


THM_RE = re.compile(r"^\s*(Theorem|Lemma|Corollary|Example|Fact|Proposition)\s+([A-Za-z0-9_']+)", re.M)


def props_status(pid):
    """Obligations of Props/<pid>.v: list of theorem names; discharged iff .vo exists and is newer."""
    v = os.path.join(COQ, "theories", "Props", pid + ".v")
    if not os.path.exists(v):
        return [], [], "no Props file"
    txt = re.sub(r"\(\*.*?\*\)", "", open(v).read(), flags=re.S)
    names = [m.group(2) for m in THM_RE.finditer(txt)]
    # a stale .vo must not count: ask make whether the target (with all its dependencies) is up to date / buildable
    with open(os.path.join(COQ, ".lock"), "w") as lk:
        fcntl.flock(lk, fcntl.LOCK_EX)
        r = sh(f"timeout 1800 make theories/Props/{pid}.vo", cwd=COQ, capture_output=True, text=True)
    vo = v + "o"
    if r.returncode == 0 and os.path.exists(vo) and os.path.getmtime(vo) >= os.path.getmtime(v):
        return names, list(names), ""
    return names, [], "Props/%s.vo could not be (re)built: %s" % (pid, (r.stdout + r.stderr)[-1500:])


def print_assumptions(pid, names):
    if not names:
        return {}
    os.makedirs(WORK, exist_ok=True)
    f = os.path.join(WORK, f"Assump_{pid}_{os.getpid()}.v")
    with open(f, "w") as fh:
        fh.write(f"From Dimod Require Import Props.{pid}.\n")
        for n in names:
            fh.write(f'Print Assumptions {n}.\n')
    r = sh(["coqc", "-Q", os.path.join(COQ, "theories"), "Dimod", f], capture_output=True, text=True, cwd=WORK)
    out = r.stdout
    res = {}
    chunks = re.split(r"(?=Closed under the global context|Axioms:)", out)
    chunks = [c.strip() for c in chunks if c.strip()]
    for n, c in zip(names, chunks):
        res[n] = "closed" if c.startswith("Closed") else re.sub(r"\s+", " ", c)[:600]
    if r.returncode != 0:
        res["_error"] = r.stderr[-500:]
    for ext in (".v", ".vo", ".vok", ".vos", ".glob"):
        try:
            os.remove(f[:-2] + ext)
        except OSError:
            pass
    return res


def coq_eval_cases(pid, header, case_terms, check_fn, shard=300, tag=""):
    """Write shards `Definition cases := [...]` and evaluate
    `failing check_fn cases` inside Coq with vm_compute.  Returns
    (failing_indices, errors)."""
    os.makedirs(WORK, exist_ok=True)
    # case files of runs that were killed before they could tidy up
    now = time.time()
    for fn in os.listdir(WORK):
        if fn.startswith(("Cases_", "Assump_")):
            fp = os.path.join(WORK, fn)
            try:
                if now - os.path.getmtime(fp) > 4 * 3600:
                    os.remove(fp)
            except OSError:
                pass
    shards = [case_terms[i:i + shard] for i in range(0, len(case_terms), shard)]
    files = []
    for k, sh_cases in enumerate(shards):
        name = f"Cases_{pid}{tag}_{os.getpid()}_{k}"
        p = os.path.join(WORK, name + ".v")
        with open(p, "w") as fh:
            fh.write(header + "\n")
            fh.write("Definition cases := [\n" + ";\n".join(sh_cases) + "\n].\n")
            fh.write(f"Definition bad := Eval vm_compute in (Dimod.Base.Util.failing {check_fn} cases).\n")
            fh.write("Print bad.\n")
        files.append((k, p))
    from concurrent.futures import ThreadPoolExecutor

    def one(kp):
        k, p = kp
        r = sh(f"ulimit -s unlimited; timeout 900 coqc -w none -Q {COQ}/theories Dimod {p}", capture_output=True, text=True, cwd=WORK)
        return k, r
    failing, errors = [], []
    with ThreadPoolExecutor(NCPU) as ex:
        for k, r in ex.map(one, files):
            if r.returncode != 0:
                errors.append(f"shard {k}: " + (r.stderr or r.stdout)[-1500:])
                continue
            txt = " ".join(r.stdout.split())
            m = re.search(r"bad = (\[.*?\]|nil)\s*:", txt)
            if not m:
                errors.append(f"shard {k}: unparsable output {txt[:300]}")
                continue
            body = m.group(1)
            idx = [int(x) for x in re.findall(r"\d+", body)]
            failing += [k * shard + i for i in idx]
    for k, p in files:
        for ext in (".v", ".vo", ".glob", ".vok", ".vos"):
            try:
                os.remove(p[:-2] + ext)
            except OSError:
                pass
    return sorted(failing), errors


# ----------------------------------------------------------------------------
# rendering helpers (python values -> Coq terms)
# ----------------------------------------------------------------------------

def cz(n):
    n = int(n)
    return f"({n})%Z"


def cnat(n):
    return f"{int(n)}%nat"


def cq(x):
    """exact rational -> Qc term"""
    fr = Fraction(x)
    return f"(qc ({fr.numerator}) {fr.denominator})"


def clist(xs):
    return "[" + "; ".join(xs) + "]"


def cbool(b):
    return "true" if b else "false"


def copt(x):
    return "None" if x is None else f"(Some {x})"


def cstr(s):
    return '"' + s.replace('"', '""') + '"%string'


# ----------------------------------------------------------------------------
# evidence, replays, findings
# ----------------------------------------------------------------------------

def load_findings():
    p = os.path.join(ROOT, "KNOWN_FINDINGS.json")
    if not os.path.exists(p):
        return []
    return json.load(open(p)).get("findings", [])


def match_finding(pid, case):
    """A finding matches when every key of its matcher equals the same key of
    the (minimised) failing case's `features` dict."""
    feats = case.get("features", {})
    for f in load_findings():
        if f.get("property") != pid or f.get("status") == "fixed":
            continue
        m = f.get("matcher", {})
        if m and all(feats.get(k) == v for k, v in m.items()):
            return f
    return None


def write_replay(pid, case):
    d = os.path.join(ROOT, "evidence", "replays")
    os.makedirs(d, exist_ok=True)
    blob = json.dumps(case, sort_keys=True, default=str)
    dig = hashlib.sha256(blob.encode()).hexdigest()[:12]
    p = os.path.join(d, f"{pid}-{dig}.json")
    case = dict(case)
    case["replay_cmd"] = f"./check {pid} --replay {os.path.relpath(p, ROOT)}"
    with open(p, "w") as fh:
        json.dump(case, fh, indent=1, sort_keys=True, default=str)
    return os.path.relpath(p, ROOT)


def write_evidence(pid, tier, seed, coverage, assumptions, wall, violations):
    d = os.path.join(ROOT, "evidence")
    os.makedirs(d, exist_ok=True)
    ev = {"property_id": pid, "tier": tier, "seed": int(seed), "level": "proof",
          "coverage": coverage, "assumptions": assumptions, "wall_s": round(wall, 2),
          "violations": int(violations)}
    with open(os.path.join(d, pid + ".json"), "w") as fh:
        json.dump(ev, fh, indent=1, default=str)


def case_digest(obj):
    return hashlib.sha256(json.dumps(obj, sort_keys=True, default=str).encode()).hexdigest()


class Rng(random.Random):
    """single PRNG; sub-streams derived by name so shards replay exactly"""

    def sub(self, *names):
        s = hashlib.sha256(("/".join(map(str, names)) + "/" + str(self.seed0)).encode()).digest()
        r = Rng(int.from_bytes(s[:8], "big"))
        return r

    def __init__(self, seed):
        super().__init__(seed)
        self.seed0 = seed

    def dyadic(self, kmax=16, jmax=2):
        return Fraction(self.randint(-kmax, kmax), 2 ** self.randint(0, jmax))
