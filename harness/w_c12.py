"""C12 worker: dimod.lp.loads(dimod.lp.dumps(cqm)) on LP-expressible CQMs, and the refusal stream.

Coverage of the property text, clause by clause (stream = `kind` of the generated case):

  same variables, types and bounds                 trip: BINARY / INTEGER / REAL x explicit / one-sided / default bounds, zero, negative
                                                   and fractional bounds, lb == ub, unused variables, variables only in constraints /
                                                   only in the objective; huge: bounds at the vartype limits (+-1e30, +-(2^53-1))
  same constraint labels, senses, right-hand sides trip: 0-5 (huge: 1-7) constraints, all senses, labels equal to variable labels,
                                                   empty left-hand sides; huge: rhs +-1e29..1.8e308 and subnormal
  objective / lhs evaluate identically             coefficient-wise in Coq + energies at 2 samples; squared INTEGER terms, `[ ... ]/2`
                                                   doubling, zero coefficients, constant offsets (objective: constant; constraint: moved
                                                   to the rhs), empty objective, offset-only objective
  negative and fractional coefficients, magnitudes rand_coef: +-1, 0, dyadics 2^-10..2^31; huge/extreme: 5e-324 .. 1.8e308 (exact compare)
  long lines that are wrapped                      labels of 1-90 (255) characters, up to 14 terms: recorded writes vs Coq wrap model
  labels within the LP grammar                     rand_label over LABEL_VALID_CHARS incl. punctuation, quotes; reads / reads_names:
                                                   keywords in any case, inf/nan prefixes, ';', free, two-word keywords (open findings)
  the text itself                                  KTripFull: words (worker-classified) and CHARACTERS (Coq tokenizer + keyword stage)
                                                   through the reference parser against what the C++ reader built
  refusals                                         refuse: SPIN (used / unused), soft constraint, non-string / empty / 256+ /
                                                   bad-first-character / out-of-alphabet labels on variables and constraints, controls
  INTEGER variables with non-integral bounds (round 5)   gen_vars (25% of the INTEGER variables)
  near-keyword labels (round 5)                          reads: NEAR_KEYWORDS; outside the pinned keyword set a label must come back
  whitespace / control characters in labels (round 5)    refuse: rand_bad_label WS_CTRL (trailing newline weighted)
Not reached: LP files not written by lp.dumps (Maximize, ranges, `free`, one-sided bound lines, comments, sections in another
order) - the property is about the writer's output; discrete-constraint markers (lost by the format, not refused).
"""
import io
from fractions import Fraction

import numpy as np
import dimod
from dimod import lp

import wlib
from wlib import cq, clist, cnat, cz, cbool, copt, cpair
import gen
from gen import F, LabelTable

VALID = sorted(lp.LABEL_VALID_CHARS)
FIRST_OK = [c for c in VALID if c not in lp.LABEL_INVALID_FIRST_CHARS]
EDGE = list("'!\"#$%&(),.;?@_{}~") + ['‘', '’']
KEYWORDS = {"minimize", "min", "minimum", "maximize", "max", "maximum", "st", "s.t.", "bounds", "bound",
            "binary", "binaries", "bin", "general", "generals", "gen", "integer", "integers",
            "semi-continuous", "semi", "semis", "sos", "end", "free", "infinity", "inf"}
TWO_WORD = {("subject", "to"), ("such", "that")}
SENSES = {'<=': 'Le', '>=': 'Ge', '==': 'Eq'}


# ----------------------------------------------------------------------------
# the regions where dumps writes a file its own reader cannot read back (reported findings)

def label_zone(l):
    if not isinstance(l, str) or not l:
        return None
    if l[0] == ';':
        return "lp_label_semicolon"
    if l.lower() in KEYWORDS:
        return "lp_label_keyword"
    if l.lower().startswith(("inf", "nan")):
        return "lp_label_infnan"
    return None


def two_word_zone(vars_):
    for vt in ('BINARY', 'INTEGER'):
        names = [v[0].lower() for v in vars_ if v[1] == vt and isinstance(v[0], str)]
        if any((a, b) in TWO_WORD for a, b in zip(names, names[1:])):
            return True
    return False


# ----------------------------------------------------------------------------
# generation

def rand_label(rng, tier, used):
    for _ in range(200):
        r = rng.random()
        if r < 0.35:
            n = rng.randint(1, 3)
        elif r < 0.85:
            n = rng.randint(1, 40)
        elif r < 0.97 or tier == 'quick':
            n = rng.randint(41, 90)
        else:
            n = rng.choice([200, 254, 255])
        pool = VALID if rng.random() < 0.7 else EDGE + list("xyzXYZ019eE")
        if r >= 0.85 and rng.random() < 0.3:
            # labels that are short in CHARACTERS but long in BYTES (the two 3-byte quotes are legal label characters): up to
            # 255 characters is legal, i.e. up to 765 bytes (round-6 miss C12 r6m2: a byte cap in the reader's name copy)
            n = rng.choice([86, 90, 128, 255])
            pool = ['‘', '’', '‘', '’', 'x']
        first_pool = [c for c in pool if c not in lp.LABEL_INVALID_FIRST_CHARS]
        s = rng.choice(first_pool) + ''.join(rng.choice(pool) for _ in range(n - 1))
        if rng.random() < 0.08:
            s = rng.choice(['subject', 'to', 'such', 'that', 'obj', 'x', 'X', 'in', 'na', 'a;b', 'x.5', 'x1e5', 'c;', 'Subject', 'TO'])
        if s in used or label_zone(s):
            continue
        try:
            lp._validate_label(s)
        except ValueError:
            continue
        used.add(s)
        return s
    raise RuntimeError("no label")


def rand_coef(rng):
    r = rng.random()
    if r < 0.7:
        return rng.dyadic(12, 2)
    if r < 0.8:
        return Fraction(rng.randint(-9, 9), 2 ** rng.randint(3, 10))
    if r < 0.9:
        return Fraction(rng.randint(-9, 9) * 2 ** rng.randint(10, 28))
    if r < 0.95:
        return Fraction(0)
    return Fraction(rng.choice([1, -1]))


def rand_expr(rng, vars_, nterms, allow_quad=True):
    names = [v[0] for v in vars_]
    lin, quad = [], []
    if names:
        for v in rng.sample(names, min(len(names), nterms)):
            lin.append([v, str(rand_coef(rng))])
        if allow_quad:
            qv = [v for v in vars_ if v[1] != 'REAL']
            for _ in range(rng.randint(0, nterms) if rng.random() < 0.7 else 0):
                if not qv:
                    break
                a, b = rng.choice(qv), rng.choice(qv)
                if a[0] == b[0] and a[1] != 'INTEGER':
                    continue
                # labels may be JSON-encoded tuples (dicts) in the refusal stream: compare by repr
                if any({repr(a[0]), repr(b[0])} == {repr(x[0]), repr(x[1])} for x in quad):
                    continue
                quad.append([a[0], b[0], str(rand_coef(rng))])
    off = rand_coef(rng) if rng.random() < 0.6 else Fraction(0)
    return {"lin": lin, "quad": quad, "off": str(off)}


def gen_vars(rng, tier, used, n):
    vars_ = []
    for _ in range(n):
        l = rand_label(rng, tier, used)
        vt = rng.choice(['BINARY', 'BINARY', 'INTEGER', 'INTEGER', 'REAL'])
        lb = ub = None
        if vt == 'INTEGER' and rng.random() < 0.25:
            # non-integral bounds (dimod accepts them): the file carries them, the reader must hand them back unchanged
            lb = rng.choice(["1/2", "-5/2", "-1/2", "0", "3/4", "-7/4", "5/2"])
            ub = str(Fraction(lb) + rng.choice([1, Fraction(3, 2), 2, 3, Fraction(5, 2), Fraction(13, 4)]))   # at least one integer inside
            if rng.random() < 0.15 and Fraction(ub) >= 0:
                lb = None
            elif rng.random() < 0.15:
                ub = None
        elif vt == 'INTEGER' and rng.random() < 0.75:
            lb = rng.choice([0, 0, -3, 1, -2 ** 40, 5]); ub = lb + rng.choice([0, 1, 2, 7, 2 ** 30])
            if rng.random() < 0.2:
                lb = None if ub >= 0 else lb
            elif rng.random() < 0.2:
                ub = None
        elif vt == 'REAL' and rng.random() < 0.75:
            lb = rng.choice(["0", "-2", "-1/2", "3/4", "-1024"]); ub = str(Fraction(lb) + rng.choice([0, 1, Fraction(5, 2), 4096]))
            if rng.random() < 0.2:
                lb = None if Fraction(ub) >= 0 else lb
            elif rng.random() < 0.2:
                ub = None
        vars_.append([l, vt, lb, ub])
    return vars_


def gen_case(rng, tier):
    for _ in range(20):
        c = gen_case0(rng, tier)
        # adjacent binaries/integers named subject,to / such,that: reported finding, kept out of the random stream
        if not two_word_zone([[dl(v[0]), v[1]] for v in c["vars"]]):
            return c
    return c


NEAR_KEYWORDS = sorted({w + suf for w in KEYWORDS | {"subject", "to", "such", "that", "obj"} for suf in (".", "..", ",", "?", "_", "'", ";", "s", "s.")}
                       | {w.replace(".", "") + "." for w in KEYWORDS} | {w[:-1] + "." + w[-1] for w in KEYWORDS if len(w) > 1}
                       | {w[0] + "." + w[1:] for w in KEYWORDS if len(w) > 1})
READS_WORDS = sorted(KEYWORDS | {"subject", "to", "such", "that", "free", "inf", "infinity", "nan", "info", "nancy", "infeasible",
                                 "nano", "in", "na", "integer1", "mins", "stx", "s.t", "bound.", "free1", "sost"})


def gen_reads(rng, tier):
    """one label, possibly inside the reported defect regions, as a variable or a constraint label"""
    r = rng.random()
    if r < 0.45:
        w = rng.choice(READS_WORDS) if rng.random() < 0.5 else rng.choice(NEAR_KEYWORDS)
        s = ''.join(ch.upper() if rng.random() < 0.3 else ch for ch in w)
        if rng.random() < 0.25:
            s += rng.choice(VALID)
    elif r < 0.6:
        s = ';' + ''.join(rng.choice(VALID) for _ in range(rng.randint(0, 4)))
    elif r < 0.7:
        s = rng.choice(FIRST_OK) + ''.join(rng.choice(VALID + [';', ';']) for _ in range(rng.randint(0, 6)))
    else:
        s = rand_label(rng, tier, set())
    try:
        lp._validate_label(s)
    except ValueError:
        s = 'x' + s[1:]
        try:
            lp._validate_label(s)
        except ValueError:
            s = 'xq'
    return {"kind": "reads", "label": s, "as_constraint": rng.random() < 0.4, "vars": [], "cons": []}


def gen_reads_names(rng, tier):
    """2-4 binary variables whose labels may form the reader's two-word keywords when adjacent"""
    pool = ["subject", "to", "such", "that", "Subject", "TO", "Such", "THAT", "subjec", "too", "x", "y1", "tha", "suc"]
    k = rng.randint(2, 4)
    names = []
    while len(names) < k:
        w = rng.choice(pool) if rng.random() < 0.85 else gen_reads(rng, tier)["label"]
        if w not in names:
            names.append(w)
    return {"kind": "reads_names", "names": names, "vars": [], "cons": []}


def gen_case0(rng, tier):
    used = set()
    r = rng.random()
    if r > 0.94:
        return gen_reads_names(rng, tier)
    if r > 0.86:
        return gen_reads(rng, tier)
    if r < 0.22:
        # refusal stream: one reason (sometimes none: control)
        vars_ = gen_vars(rng, tier, used, rng.randint(1, 4))
        cons = [{"label": rand_label(rng, tier, used), "sense": rng.choice(list(SENSES)), "rhs": "1", **rand_expr(rng, vars_, 2)}
                for _ in range(rng.randint(0, 2))]
        why = rng.choice(['spin', 'soft', 'varlabel', 'conlabel', 'none', 'spin_unused'])
        soft = None
        if why in ('spin', 'spin_unused'):
            vars_.append([rand_label(rng, tier, used), 'SPIN', None, None])
        elif why == 'soft':
            if not cons:
                cons = [{"label": rand_label(rng, tier, used), "sense": '<=', "rhs": "1", **rand_expr(rng, vars_, 2, False)}]
            soft = [rng.randrange(len(cons)), rng.choice(["1", "5/2"]), rng.choice(['linear', 'quadratic'])]
        elif why in ('varlabel', 'conlabel'):
            bad = rand_bad_label(rng)
            if why == 'varlabel':
                vars_[rng.randrange(len(vars_))][0] = bad
            else:
                cons.append({"label": bad, "sense": '<=', "rhs": "1", **rand_expr(rng, [v for v in vars_ if isinstance(v[0], str)], 2)})
        obj = rand_expr(rng, [v for v in vars_ if why != 'spin_unused' or v[1] != 'SPIN'], 3)
        return {"kind": "refuse", "why": why, "vars": vars_, "obj": obj, "cons": cons, "soft": soft}
    if r < 0.34:
        return gen_huge(rng, tier, used)
    nv = rng.choice([0, 1, 2, 3, 4, 6, 9, 14])
    vars_ = gen_vars(rng, tier, used, nv)
    big = rng.random() < 0.5
    obj = rand_expr(rng, vars_, rng.randint(0, nv if big else 3)) if rng.random() < 0.9 else {"lin": [], "quad": [], "off": "0"}
    cons = []
    for _ in range(rng.choice([0, 1, 2, 3, 5])):
        e = rand_expr(rng, vars_, rng.randint(0, nv if big else 3))
        lab = rand_label(rng, tier, used) if rng.random() < 0.9 or not vars_ else rng.choice(vars_)[0]
        if any(c["label"] == lab for c in cons):
            continue
        cons.append({"label": lab, "sense": rng.choice(list(SENSES)), "rhs": str(rand_coef(rng)), **e})
    probes = [[rng.randint(-2, 3) if rng.random() < 0.8 else str(rng.dyadic(5, 1)) for _ in vars_] for _ in range(2)]
    return {"kind": "trip", "vars": vars_, "obj": obj, "cons": cons, "probes": probes}


HUGE = [1e29, 1e30, 3e30, 1e31, 1e100, 1e300, 1.7976931348623157e308, 2.0 ** 100, 9007199254740993.0 * 4]
TINY = [5e-324, 3e-310, 1.5e-315, 2.2250738585072009e-308, 2.2250738585072014e-308, 1e-300, 2.0 ** -1060 * 12345, 1e-30]
LARGE = [1e300, 3.5e307, 1.7976931348623157e308, 2.0 ** 1000]
REAL_LIMITS = [-1e30, -1e29, -1.5, 0.0, 2.0 ** 70, 1e29, 1e30]
INT_LIMITS = [-(2 ** 53 - 1), -(2 ** 53 - 2), -(2 ** 40), 0, 2 ** 40, 2 ** 53 - 2, 2 ** 53 - 1]


def gen_huge(rng, tier, used):
    """magnitude stream: right-hand sides and variable bounds at and beyond the limits of the
    vartypes (+-1e30 for REAL, +-(2^53-1) for INTEGER), all senses; constraint offsets are 0 so
    that `rhs - offset` is exact; energies are not probed"""
    vars_ = gen_vars(rng, tier, used, rng.randint(1, 5))
    for v in vars_:
        if v[1] == 'REAL' and rng.random() < 0.8:
            lo, hi = sorted(rng.sample(REAL_LIMITS, 2)) if rng.random() < 0.85 else [rng.choice(REAL_LIMITS)] * 2
            v[2], v[3] = str(Fraction(lo)), str(Fraction(hi))
        elif v[1] == 'INTEGER' and rng.random() < 0.8:
            lo, hi = sorted(rng.sample(INT_LIMITS, 2)) if rng.random() < 0.85 else [rng.choice(INT_LIMITS)] * 2
            v[2], v[3] = lo, hi
        if rng.random() < 0.15 and v[1] != 'BINARY':
            if rng.random() < 0.5 and Fraction(v[3] if v[3] is not None else 1) >= 0:
                v[2] = None
            else:
                v[3] = None
    obj = rand_expr(rng, vars_, 3)
    extreme = rng.random() < 0.6

    def extremes(e):
        # coefficient magnitudes at the ends of the double range: subnormal (below 2.2250738585072014e-308, where
        # strtod reports ERANGE although it converts), smallest normal, and large; every value is a double and is
        # written by repr / re-read by strtod exactly; the objective doubles quadratic biases, so those stay below 8e307
        if extreme:
            e["lin"] = [[v, str(Fraction(rng.choice([1, -1]) * rng.choice(TINY + LARGE))) if rng.random() < 0.4 else b]
                        for v, b in e["lin"]]
            e["quad"] = [[u, v, str(Fraction(rng.choice([1, -1]) * rng.choice(TINY + LARGE[:2]))) if rng.random() < 0.4 else b]
                         for u, v, b in e["quad"]]
        return e
    obj = extremes(obj)
    if extreme and rng.random() < 0.3:
        obj["off"] = str(Fraction(rng.choice([1, -1]) * rng.choice(TINY + LARGE)))
    cons = []
    for _ in range(rng.randint(1, 7)):
        e = extremes(rand_expr(rng, vars_, rng.randint(0, 3)))
        e["off"] = "0"
        rhs = rng.choice([1, -1]) * rng.choice(HUGE + (TINY if extreme else [])) if rng.random() < 0.9 else float(rand_coef(rng))
        cons.append({"label": rand_label(rng, tier, used), "sense": rng.choice(list(SENSES)), "rhs": str(Fraction(rhs)), **e})
    return {"kind": "trip", "huge": True, "extreme": extreme, "vars": vars_, "obj": obj, "cons": cons, "probes": []}


WS_CTRL = ['\n', '\r', '\t', ' ', '\x0b', '\x0c', '\x00', '\x1f', '\x7f', '\x85', '\u00a0', '\u2028', '\u2029', '\r\n', '\n\n']


def rand_bad_label(rng):
    if rng.random() < 0.3:
        # whitespace and control characters: trailing (a regex `$` lets a final newline through), leading, embedded
        where = rng.choice(['end', 'end', 'end', 'start', 'middle', 'only'])
        w = rng.choice(WS_CTRL + (['\n'] * 4 if where == 'end' else []))
        body = ''.join(rng.choice(FIRST_OK) for _ in range(rng.randint(1, 6)))
        if where == 'end':
            return body + w
        if where == 'start':
            return w + body
        if where == 'only':
            return w
        k = rng.randint(1, len(body))
        return body[:k] + w + body[k:]
    r = rng.random()
    if r < 0.25:
        return rng.choice([0, 7, {"t": ["a", 1]}, 2.5, -1])
    if r < 0.35:
        return ""
    if r < 0.45:
        return "x" * rng.choice([256, 300])
    if r < 0.7:
        return rng.choice("eE.0123456789") + ''.join(rng.choice(VALID) for _ in range(rng.randint(0, 5)))
    bad = rng.choice(list(" -+*/:<>=[]^|\\`\t\n") + ['é', '“'])
    k = rng.randint(0, 4)
    s = ''.join(rng.choice(FIRST_OK) for _ in range(k)) + bad + ''.join(rng.choice(VALID) for _ in range(rng.randint(0, 3)))
    return s


# ----------------------------------------------------------------------------

def dl(l):
    return gen.dec_label(l) if isinstance(l, (dict, list)) else l


def mk_qm(e, vinfo):
    qm = dimod.QuadraticModel()
    names = []
    for v, _ in e["lin"]:
        names.append(dl(v))
    for u, v, _ in e["quad"]:
        names += [dl(u), dl(v)]
    for v in names:
        if v in qm.variables:
            continue
        vt, lb, ub = vinfo[v]
        kw = {}
        if lb is not None:
            kw["lower_bound"] = float(Fraction(lb))
        if ub is not None:
            kw["upper_bound"] = float(Fraction(ub))
        qm.add_variable(vt, v, **kw)
    for v, b in e["lin"]:
        qm.add_linear(dl(v), float(Fraction(b)))
    for u, v, b in e["quad"]:
        qm.add_quadratic(dl(u), dl(v), float(Fraction(b)))
    qm.offset = float(Fraction(e["off"]))
    return qm


def build_cqm(c):
    cqm = dimod.ConstrainedQuadraticModel()
    vinfo = {}
    for l, vt, lb, ub in c["vars"]:
        l = dl(l)
        vinfo[l] = (vt, lb, ub)
        kw = {}
        if lb is not None:
            kw["lower_bound"] = float(Fraction(lb))
        if ub is not None:
            kw["upper_bound"] = float(Fraction(ub))
        cqm.add_variable(vt, l, **kw)
    cqm.set_objective(mk_qm(c["obj"], vinfo))
    soft = c.get("soft")
    for i, k in enumerate(c["cons"]):
        kw = {}
        if soft and soft[0] == i:
            kw = {"weight": float(Fraction(soft[1])), "penalty": soft[2]}
        cqm.add_constraint_from_model(mk_qm(k, vinfo), k["sense"], float(Fraction(k["rhs"])), label=dl(k["label"]), **kw)
    return cqm


def ctext(s):
    return clist([f"{ord(ch)}%N" for ch in s])


def clabel(l):
    return f"(Some {ctext(l)})" if isinstance(l, str) else "None"


def obs_expr(e, T):
    lin = clist([cpair(cnat(T.idx(v)), cq(F(b))) for v, b in e.linear.items()])
    quad = clist([f"({cnat(T.idx(u))}, {cnat(T.idx(v))}, {cq(F(b))})" for (u, v), b in e.quadratic.items()])
    return f"(mkObs {cq(F(e.offset))} {lin} {quad})"


def features_of(c):
    labels = [dl(v[0]) for v in c["vars"]] + [dl(k["label"]) for k in c["cons"]]
    f = {"kind": c["kind"]}
    for z in ("lp_label_semicolon", "lp_label_keyword", "lp_label_infnan"):
        f[z] = any(label_zone(l) == z for l in labels)
    f["lp_label_two_word_keyword"] = two_word_zone([[dl(v[0]), v[1]] for v in c["vars"]])
    return f


SECTION_WORDS = {"Minimize": "TMinimize", "Subject To": "TSubjectTo", "Bounds": "TBounds", "Binary": "TBinary",
                 "General": "TGeneral", "End": "TEnd"}


def lex_lp(text, T, con_index):
    """the whitespace-separated words of the text lp.dumps wrote -> Coq `token` terms.
    Section keywords are the lines that start in column 0 (every other line dump writes, and every
    continuation line, starts with a blank); names and constraint labels are looked up in the model's
    own label tables; everything else must be a sign, a bracket, `*`, a sense or a Python float."""
    toks = []
    section = None
    for line in text.split('\n'):
        if line and not line[0].isspace():
            key = ' '.join(line.split())
            if key not in SECTION_WORDS:
                raise ValueError(f"unexpected line in column 0: {line!r}")
            section = key
            toks.append(SECTION_WORDS[key])
            continue
        for w in line.split():
            if w.endswith(':'):
                if section == "Minimize" and w == 'obj:' and toks and toks[-1] == "TMinimize":
                    toks.append("TObj")
                else:
                    toks.append(f"(TLabel {cnat(con_index[w[:-1]])})")
            elif section in ("Minimize", "Subject To") and w in ('+', '-') :
                toks.append(f"(TSign {cbool(w == '-')})")
            elif w == '[':
                toks.append("TLBr")
            elif w == ']':
                toks.append("TRBr")
            elif w == ']/2':
                toks.append("TRBrHalf")
            elif w == '*':
                toks.append("TStar")
            elif w in ('<=', '>=', '=') and section == "Subject To":
                toks.append(f"(TSense {SENSES[w if w != '=' else '==']})")
            elif w == '<=' and section == "Bounds":
                toks.append("TLe")
            elif w in T.names:
                toks.append(f"(TName {cnat(T.names[w])})")
            else:
                toks.append(f"(TNum {cq(Fraction(float(w)))})")
    return toks


def numeral_table(text):
    """(word, double) for the numerals of the text whose exact decimal value is not a double"""
    tbl = {}
    for w in text.split():
        if w[:1] in '+-':
            w = w[1:]
        if w[:1].isdigit() and w not in tbl:
            try:
                x = float(w)
                if np.isfinite(x) and Fraction(w) != Fraction(x):
                    tbl[w] = x
            except ValueError:
                pass
    return clist([cpair(ctext(w), cq(Fraction(x))) for w, x in tbl.items()])


class Recorder:
    """records the sequence of _WidthLimitedFile.write calls"""
    def __init__(self):
        self.writes = []
        self.orig = lp._WidthLimitedFile.write

    def __enter__(self):
        rec = self

        def write(self_, s):
            rec.writes.append(s)
            return rec.orig(self_, s)
        lp._WidthLimitedFile.write = write
        return self

    def __exit__(self, *a):
        lp._WidthLimitedFile.write = self.orig


def run_refuse(c):
    feats = features_of(c)
    feats["why"] = c["why"]
    try:
        cqm = build_cqm(c)
    except Exception as e:
        return {"py_fail": None, "coq": None, "nontrivial": False, "features": feats, "observed": f"not constructible: {e}"}
    f = io.StringIO()
    raised = None
    try:
        lp.dump(cqm, f)
    except ValueError as e:
        raised = e
    py_fail = None
    if raised is not None and f.getvalue():
        try:
            lp.loads(f.getvalue())
            py_fail = f"dump raised ({raised}) after writing a loadable file"
        except Exception:
            pass
    shape = "(mkShape %s %s %s)" % (cnat(len(cqm._soft)), clist([clabel(l) for l in cqm.constraints]),
                                    clist([cpair(clabel(v), cqm.vartype(v).name) for v in cqm.variables]))
    return {"coq": f"(KRefuse {shape} {cbool(raised is not None)})", "py_fail": py_fail, "features": feats,
            "nontrivial": c["why"] != 'none'}


def run_trip(c):
    feats = features_of(c)
    cqm = build_cqm(c)
    with Recorder() as rec:
        try:
            text = lp.dumps(cqm)
        except Exception as e:
            return {"py_fail": f"dumps raised on an LP-expressible model: {type(e).__name__}: {e}", "features": feats}
    try:
        new = lp.loads(text)
    except Exception as e:
        return {"py_fail": f"loads(dumps(cqm)) raised: {type(e).__name__}: {e}", "features": feats, "observed": text[:2000]}
    py_fail = None
    # variables, vartypes, bounds
    if set(new.variables) != set(cqm.variables) or len(new.variables) != len(cqm.variables):
        py_fail = f"variables {list(cqm.variables)!r} -> {list(new.variables)!r}"
    else:
        for v in cqm.variables:
            a = (cqm.vartype(v).name, Fraction(cqm.lower_bound(v)), Fraction(cqm.upper_bound(v)))
            b = (new.vartype(v).name, Fraction(new.lower_bound(v)), Fraction(new.upper_bound(v)))
            if a != b:
                py_fail = f"variable {v!r}: (vartype, lower, upper) {a} -> {b}"
                feats["bounds"] = True
                break
    if py_fail is None and list(new.constraints) != list(cqm.constraints):
        py_fail = f"constraint labels {list(cqm.constraints)!r} -> {list(new.constraints)!r}"
    if py_fail is None and len(new._soft):
        py_fail = "soft constraints appeared"
    if py_fail is not None:
        return {"py_fail": py_fail, "features": feats, "observed": text[:2000]}
    feats["huge"] = bool(c.get("huge"))
    feats["extreme"] = bool(c.get("extreme"))
    # sense and finiteness first (a non-finite number cannot be rendered for the exact comparison)
    for lab, k in cqm.constraints.items():
        k2 = new.constraints[lab]
        if k2.sense is not k.sense:
            return {"py_fail": f"constraint {lab!r}: sense {k.sense.value} -> {k2.sense.value} (rhs {k.rhs!r} -> {k2.rhs!r})",
                    "features": feats, "observed": text[:2000]}
        if not (np.isfinite(k2.rhs) and np.isfinite(k2.lhs.offset)):
            return {"py_fail": f"constraint {lab!r}: rhs {k.rhs!r} (lhs offset {k.lhs.offset!r}) -> {k2.rhs!r} (lhs offset {k2.lhs.offset!r})",
                    "features": feats, "observed": text[:2000]}
    T = LabelTable(list(cqm.variables))
    n = len(T)
    cons = []
    for lab, k in cqm.constraints.items():
        k2 = new.constraints[lab]
        a = f"(mkCon {obs_expr(k.lhs, T)} {SENSES[k.sense.value]} {cq(F(k.rhs))})"
        b = f"(mkCon {obs_expr(k2.lhs, T)} {SENSES[k2.sense.value]} {cq(F(k2.rhs))})"
        cons.append(cpair(a, b))
    probes = []
    for p in c["probes"]:
        s = {v: float(Fraction(x)) for v, x in zip(cqm.variables, p)}
        e = new.objective.energy(s) if n else new.objective.offset
        es = [(k.lhs.energy(s) if n else k.lhs.offset) for k in new.constraints.values()]
        st = clist([cpair(cnat(T.idx(v)), cq(F(x))) for v, x in s.items()])
        probes.append(f"({st}, {cq(F(e))}, {clist([cq(F(x)) for x in es])})")
    labels = [clabel(l) for l in list(cqm.variables) + list(cqm.constraints)]
    coq = (f"(KTrip {cnat(n)} {obs_expr(cqm.objective, T)} {obs_expr(new.objective, T)} {clist(cons)} {clist(probes)} "
           f"{clist([ctext(w) for w in rec.writes])} {ctext(text)} {clist(labels)})")
    # the reference parser (Coq) on the words of this very text against what the C++ reader built
    extra = []
    try:
        T.names = {v: T.idx(v) for v in cqm.variables}
        con_index = {lab: i for i, lab in enumerate(cqm.constraints)}
        toks = lex_lp(text, T, con_index)
        cons1 = clist([cpair(cnat(con_index[lab]), f"(mkCon {obs_expr(k.lhs, T)} {SENSES[k.sense.value]} {cq(F(k.rhs))})")
                       for lab, k in new.constraints.items()])
        vars1 = clist([f"(mkVar {cnat(T.idx(v))} {new.vartype(v).name} {cq(F(new.lower_bound(v)))} {cq(F(new.upper_bound(v)))})"
                       for v in new.variables])
        # one term for the round trip (the text is carried once): KTrip's comparisons, the reference parser on the
        # worker-classified words (KParse), and the same comparison from the CHARACTERS of the text - Coq model of the
        # reader's tokenizer and keyword stage (Model/LPLex.v) in front of the reference parser; only the numerals
        # whose decimal value is not a double are looked up (word -> Python float), the others are evaluated by the
        # Coq decimal reader
        coq = (f"(KTripFull {cnat(n)} {obs_expr(cqm.objective, T)} {obs_expr(new.objective, T)} {clist(cons)} {clist(probes)} "
               f"{clist([ctext(w) for w in rec.writes])} {ctext(text)} {clist(labels)} "
               f"{clist(toks)} {cons1} {vars1} {numeral_table(text)})")
    except (ValueError, KeyError) as e:
        return {"py_fail": f"the text of dumps is not made of the writer's words: {type(e).__name__}: {e}", "features": feats,
                "observed": text[:2000]}
    feats["wrapped"] = any(len(l) > 70 for l in text.split('\n'))
    feats["long_line"] = max(len(l) for l in text.split('\n')) > 80
    return {"coq": coq, "extra_coq": extra, "py_fail": None, "features": feats,
            "nontrivial": bool(c["obj"]["lin"] or c["obj"]["quad"] or c["cons"])}


def run_reads(c):
    s = c["label"]
    feats = {"kind": "reads", "as_constraint": c["as_constraint"], "zone": label_zone(s) or "none"}
    other = 'zz9' if s != 'zz9' else 'zz8'
    cqm = dimod.ConstrainedQuadraticModel()
    cqm.add_variable('BINARY', other)
    cqm.add_variable('INTEGER', 'ww7', lower_bound=0, upper_bound=4)
    if not c["as_constraint"]:
        cqm.add_variable('BINARY', s)
    v = other if c["as_constraint"] else s
    obj = dimod.QuadraticModel()
    obj.add_variable('BINARY', v); obj.add_variable('INTEGER', 'ww7', lower_bound=0, upper_bound=4)
    obj.add_linear(v, 2.0); obj.add_linear('ww7', 1.0); obj.add_quadratic(v, 'ww7', 1.5)
    cqm.set_objective(obj)
    lhs = dimod.QuadraticModel()
    lhs.add_variable('BINARY', v); lhs.add_variable('INTEGER', 'ww7', lower_bound=0, upper_bound=4)
    lhs.add_linear(v, 1.0); lhs.add_linear('ww7', -1.0)
    cqm.add_constraint_from_model(lhs, '<=', 3.0, label=(s if c["as_constraint"] else 'c0'))
    try:
        text = lp.dumps(cqm)
    except ValueError as e:
        return {"py_fail": f"generator produced a label dump refuses: {e}", "features": feats}
    try:
        new = lp.loads(text)
        ok = (set(new.variables) == set(cqm.variables) and list(new.constraints) == list(cqm.constraints)
              and new.objective.is_equal(cqm.objective)
              and all(new.constraints[k].lhs.is_equal(cqm.constraints[k].lhs) and new.constraints[k].sense is cqm.constraints[k].sense
                      and new.constraints[k].rhs == cqm.constraints[k].rhs for k in cqm.constraints)
              and all(new.vartype(x) is cqm.vartype(x) for x in cqm.variables))
    except Exception:
        ok = False
    # independent of the keyword tables generated from reader.cpp: outside the reported defect regions (worker-side pinned
    # copy of the reader's keywords: KEYWORDS, TWO_WORD) every accepted label has to come back
    py_fail = None
    if not ok and label_zone(s) is None:
        py_fail = f"label {s!r} is outside the reported defect regions (not a pinned keyword, no inf/nan prefix, no leading ';') but loads(dumps(cqm)) did not give the model back"
    return {"coq": f"(KReads {cbool(c['as_constraint'])} {ctext(s)} {cbool(ok)})", "py_fail": py_fail, "features": feats,
            "nontrivial": True, "observed": None if ok else "did not come back"}


def run_reads_names(c):
    names = c["names"]
    feats = {"kind": "reads_names", "two_word": two_word_zone([[n, 'BINARY'] for n in names]),
             "zone": next((label_zone(n) for n in names if label_zone(n)), "none")}
    cqm = dimod.ConstrainedQuadraticModel()
    obj = dimod.QuadraticModel()
    for i, n in enumerate(names):
        cqm.add_variable('BINARY', n)
        obj.add_variable('BINARY', n)
        obj.add_linear(n, float(i + 1))
    cqm.set_objective(obj)
    lhs = dimod.QuadraticModel()
    lhs.add_variable('BINARY', names[0]); lhs.add_variable('BINARY', names[-1])
    lhs.add_linear(names[0], 1.0); lhs.add_linear(names[-1], -2.0)
    cqm.add_constraint_from_model(lhs, '>=', -1.0, label='c0')
    try:
        text = lp.dumps(cqm)
    except ValueError as e:
        return {"py_fail": f"generator produced a label dump refuses: {e}", "features": feats}
    try:
        new = lp.loads(text)
        ok = (set(new.variables) == set(cqm.variables) and list(new.constraints) == ['c0']
              and new.objective.is_equal(cqm.objective) and new.constraints['c0'].lhs.is_equal(cqm.constraints['c0'].lhs)
              and all(new.vartype(x) is cqm.vartype(x) for x in cqm.variables))
    except Exception:
        ok = False
    return {"coq": f"(KReadsNames {clist([ctext(n) for n in names])} {cbool(ok)})", "py_fail": None, "features": feats,
            "nontrivial": True}


def run_case(c):
    if c["kind"] == "reads_names":
        return run_reads_names(c)
    if c["kind"] == "reads":
        return run_reads(c)
    if c["kind"] == "refuse":
        return run_refuse(c)
    return run_trip(c)


if __name__ == "__main__":
    wlib.main(gen_case, run_case)
