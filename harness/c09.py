PID = "C09"
WORKER = "w_c09"
HEADER = ("From Coq Require Import List NArith ZArith.\n"
          "From Dimod Require Import Base.Util Gen.Gen_Codec Model.Codec Model.ChkC09.\nImport ListNotations.")
CHECK_FN = "check"
N_QUICK = 800
N_THOROUGH = 20000
SHARD = 120
SHRINK_KEYS = []
RULE = ("random BQM (float64/float32/object; versions 1 and 2; ignore_labels), QM (float64/float32, all vartypes with bounds), "
        "CQM (objective, hard/soft constraints with both penalties, discrete marks, constant-only constraints, constraint labels "
        "with '/', nested tuples, floats; compress), DQM and CaseLabelDQM (compress, ignore_labels); labels drawn from ints "
        "(negative, > 2^32), strings (empty, '/', quotes, backslash, non-ASCII, control characters), floats and nested tuples; "
        "range and permuted-int labelings; spool_size default/1/100; input as bytes, bytearray, memoryview, file object, "
        "fileview.load; the 23 bundled legacy files are loaded on every run (corpus). A case is non-trivial when the model "
        "has at least one variable or constraint; distinct by canonical JSON of the case")
TRUSTED = ["model: coq/theories/Model/Codec.v, ChkC09.v (hand written, tied byte-for-byte by this correspondence)",
           "coq/theories/Gen/Gen_Codec.v regenerated from fileview.py and the model modules by translators/codec_constants.py",
           "IEEE-754 encoding of a bias into 4/8 bytes (numpy tobytes) - biases are opaque byte strings in the model",
           "zip container, deflate, numpy .npz, Python json for float / non-ASCII / control-character labels: exercised by the "
           "implementation round trip only (exact field-by-field comparison in the worker), not modelled",
           "harness/codecgen.py state_of(): the exact field-by-field observer used to compare models"]
ASSUMPTIONS = ["a bias is its fixed-width byte string (bit-for-bit round trip is what is proved; value-level equality follows for non-NaN)",
               "the order of constraints in a CQM is not part of the model (from_file iterates a set of labels)",
               "BQMs of dtype object are compared after conversion to float64 (documented behaviour of to_file)"]
PARTIAL = ['float labels, non-ASCII and control-character strings are outside the modelled JSON subset (LabelsWF): covered by the implementation round trip only (float repr / \\uXXXX escapes not modelled)', 'bqm_load_restores_adjacency_partial: the theorem replays the BQM loader with add_quadratic_back; the loader really calls add_quadratic (lower_bound + insert + `+=`): upsert_at_end shows one call appends when all keys are smaller, the induction that this holds at every call of a load is not done - the executable upsert replay is compared with the observed adjacency in every BQM case instead. 0.0 + bias is taken to be bias (false only for -0.0, which comes back as +0.0: equal as a value)', 'DQM files and the zip / npz containers are not modelled: numpy/zipfile locate the central directory from the END of the file (this is exactly what finding dqm_labels_over_64k is about), CRC and deflate are involved; only their member names/contents are observed (CExpr / CVarinfo / CLabels cases) and the round trip is compared exactly on the implementation', 'ignore_labels_is_relabel is not a separate theorem: at file level ignore_labels only changes the label field, so it is the instance of bqm_decode_encode for that content; the relabelling is checked on the implementation']
