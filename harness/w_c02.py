"""C02 worker: spin<->binary conversions through every entry point, and edits through views.

Coverage (property clause -> stream):
  BQM.change_vartype                         bqm_change: float64 / float32 / object storage, in place and not, there-and-back,
                                             raw adjacency (AdjConv) / dict back-end (PyConv) fed to the code-shaped models
  live .spin / .binary views, reads          view_read: linear / quadratic / offset / get_linear / get_quadratic; energies / energy
                                             through the view on int8 / int64 / float / bool / uint8-64 sample arrays; copies of the
                                             view (copy, deep copy, change_vartype(inplace=False) to either vartype) against
                                             the base and edited afterwards (no shared state)
  ... writes                                 view_write: add/set linear and quadratic, offset, scale, remove_variable (named /
                                             pop), remove_interaction (present / absent -> ValueError), add_variable (new label /
                                             existing, with bias), add_linear_equality_constraint; view_same: after the base
                                             changed vartype in place
  QM change_vartype / spin_to_binary         qm_change (SPIN<->BINARY, to INTEGER, refused changes -> TypeError), qm_s2b
  CQM change_vartype / spin_to_binary        cqm_change, cqm_s2b: objective over all / some / none of the variables (spin
                                             variables only in constraints or in no expression), 0-3 constraints over random
                                             subsets, discrete constraints, to INTEGER, refused changes; activity: lhs
                                             coefficients + sense / rhs unchanged; raw index-level state fed to the loop models
  flip_variable                              flip: QM / BQM (3 dtypes) / CQM incl. refused flips and discrete markers
  BinaryPolynomial.to_spin / to_binary       poly (copy=True, receiver untouched, round trip)
  to_ising / to_qubo / from_* / free functions   bqm_to_from, ising_qubo (dicts in, dicts out, insertion order)
  SampleSet.change_vartype                   sampleset: in place / copy, pending (future-backed) sets, signed / unsigned / bool /
                                             float sample storage, refused targets
"""
import copy
from fractions import Fraction
import numpy as np
import dimod

import wlib
from wlib import cq, clist, cnat, cpair
import gen
from gen import F, enc_label, dec_label, LabelTable, coq_obs, fs

KINDS = ['bqm_change', 'bqm_change', 'view_read', 'view_write', 'view_write', 'view_same', 'qm_change', 'qm_s2b',
         'cqm_change', 'cqm_s2b', 'poly', 'ising_qubo', 'bqm_to_from', 'sampleset', 'flip']


def restrict_desc(desc, keep):
    """the description restricted to the variables whose str(label) is in `keep` (terms touching others dropped)"""
    return {"vars": [v for v in desc["vars"] if str(v[0]) in keep],
            "lin": [t for t in desc["lin"] if str(t[0]) in keep],
            "quad": [t for t in desc["quad"] if str(t[0]) in keep and str(t[1]) in keep],
            "off": desc["off"]}


def rand_objective(rng, base):
    """objective of a CQM over the variables of `base`: all of them (half of the time), a random subset, or none, so
    that variables occur only in constraints / in no expression at all (they are still variables of the CQM)"""
    r = rng.random()
    if r < 0.5:
        return base
    if r < 0.9:
        return restrict_desc(base, {str(v[0]) for v in base["vars"] if rng.random() < 0.5})
    return restrict_desc(base, set())


def gen_case(rng, tier):
    kind = rng.choice(KINDS)
    c = {"kind": kind}
    if kind == 'poly':
        n = rng.randint(0, 5)
        labels = gen.rand_labels(rng, n)
        c["vartype"] = rng.choice(['BINARY', 'SPIN'])
        terms = []
        if rng.random() < 0.5:
            terms.append([[], str(rng.dyadic())])
        for _ in range(rng.randint(0, 6)):
            if n == 0:
                break
            k = rng.randint(1, min(4, n))
            terms.append([[enc_label(x) for x in rng.sample(labels, k)], str(rng.dyadic(8, 1))])
        c["terms"] = terms
        return c
    if kind == 'sampleset':
        n = rng.randint(0, 5)
        c["labels"] = [enc_label(l) for l in gen.rand_labels(rng, n)]
        c["vartype"] = rng.choice(['BINARY', 'SPIN'])
        vals = [0, 1] if c["vartype"] == 'BINARY' else [-1, 1]
        c["rows"] = [[rng.choice(vals) for _ in range(n)] for _ in range(rng.randint(0, 4))]
        c["energy"] = [str(rng.dyadic()) for _ in c["rows"]]
        c["offset"] = str(rng.dyadic())
        c["inplace"] = rng.random() < 0.5
        c["future"] = c["inplace"] and rng.random() < 0.6   # inplace=False on a pending set blocks (it copies)
        # storage dtype of the sample array: unsigned / bool storage cannot hold -1 and must be widened
        c["bad_target"] = rng.choice([None, None, 'INTEGER', 'REAL'])     # a conversion that must be refused
        c["sdtype"] = rng.choice(['int8', 'uint8', 'uint16', 'uint32', 'bool', 'int32', 'float64', 'int64'] if c["vartype"] == 'BINARY'
                                 else ['int8', 'int16', 'int32', 'float64', 'float32', 'int64'])
        return c
    if kind == 'flip':
        c["sub"] = rng.choice(['qm', 'bqm', 'cqm', 'cqm'])
        if c["sub"] == 'bqm':
            c["dtype"] = rng.choice(['f64', 'f32', 'obj'])
            c["desc"] = gen.rand_desc(rng, nmax=5, nmin=1, kinds=('BINARY', 'SPIN'), single_vartype=True,
                                      kmax=4 if c["dtype"] == 'f32' else 8, jmax=0 if c["dtype"] == 'f32' else 2)
        else:
            c["desc"] = gen.rand_desc(rng, nmax=5, nmin=1)
        sb = [v[0] for v in c["desc"]["vars"] if v[1] in ('SPIN', 'BINARY')]
        other = [v[0] for v in c["desc"]["vars"] if v[1] not in ('SPIN', 'BINARY')]
        c["targets"] = [rng.choice(sb) for _ in range(rng.randint(1, 2))] if sb else []
        c["bad_target"] = rng.choice(other) if other and rng.random() < 0.3 else None
        if c["sub"] == 'cqm':
            base = c["desc"]
            keep = {str(v[0]) for v in base["vars"] if rng.random() < 0.7}
            sub = gen.rand_desc(rng, nmax=0)
            sub["vars"] = [v for v in base["vars"] if str(v[0]) in keep]
            sub["lin"] = [[v[0], str(rng.dyadic())] for v in sub["vars"]]
            sub["quad"] = []
            sub["off"] = str(rng.dyadic())
            c["con"] = sub
            c["discrete"] = rng.random() < 0.6
            c["obj"] = rand_objective(rng, base)
        return c
    if kind.startswith(('bqm', 'view', 'ising')):
        c["dtype"] = rng.choice(['f64', 'f64', 'f32', 'obj'])
        small = c["dtype"] == 'f32'
        c["desc"] = gen.rand_desc(rng, nmax=5, kinds=('BINARY', 'SPIN'), single_vartype=True,
                                  kmax=4 if small else 8, jmax=0 if small else 2)
        if not c["desc"]["vars"]:
            c["desc"]["vartype"] = rng.choice(['BINARY', 'SPIN'])
        c["inplace"] = rng.random() < 0.5
        # dtype of the sample array handed to view.energies (unsigned / bool storage cannot hold 2x-1 = -1)
        c["edtype"] = rng.choice(['int8', 'uint8', 'uint16', 'uint32', 'uint64', 'bool', 'int64', 'float64', 'uint8'])
        labels = [v[0] for v in c["desc"]["vars"]]
        if kind in ('view_write', 'view_same') and labels:
            ops = []
            for _ in range(rng.randint(1, 4)):
                r = rng.random()
                b = str(rng.dyadic(4, 0) * 4)     # multiples of 4 keep /4 factors exact even in float32
                if r < 0.25:
                    ops.append(["add_linear", rng.choice(labels), b])
                elif r < 0.4:
                    ops.append(["set_linear", rng.choice(labels), b])
                elif r < 0.65 and len(labels) > 1:
                    u, v = rng.sample(labels, 2)
                    ops.append(["add_quadratic", u, v, b])
                elif r < 0.8 and len(labels) > 1:
                    u, v = rng.sample(labels, 2)
                    ops.append(["set_quadratic", u, v, b])
                elif r < 0.84:
                    ops.append(["offset", b])
                elif r < 0.87 and kind == 'view_write' and len(labels) > 1:
                    # remove_interaction through the view (present or absent: the latter must raise ValueError)
                    u, v = rng.sample(labels, 2)
                    ops.append(["remove_interaction", u, v])
                elif r < 0.89 and kind == 'view_write':
                    # add_variable(v, bias) through the view: a new label, or an existing one (bias is added)
                    new = rng.choice([enc_label(('n', len(ops))), rng.choice(labels)])
                    ops.append(["add_variable", new, b])
                    if new not in labels:
                        labels = list(labels) + [new]
                elif r < 0.92 and kind == 'view_write' and len(labels) > 1:
                    # removing a variable through the view (named, or popping the last one)
                    # (popping through a view of an object-dtype BQM raises TypeError: open finding C04-d6)
                    ops.append(["remove", rng.choice(labels) if c["dtype"] == 'obj' else rng.choice([None, None, rng.choice(labels)])])
                    labels = list(labels)
                    labels.remove(ops[-1][1]) if ops[-1][1] is not None else labels.pop()
                elif r < 0.96 and kind == 'view_write':
                    k = rng.randint(1, len(labels))
                    ops.append(["add_eq", [[l, str(rng.randint(-3, 3) * 2)] for l in rng.sample(labels, k)],
                                str(rng.choice([2, 4])), str(rng.randint(-2, 2) * 2)])
                else:
                    ops.append(["scale", str(rng.choice([2, -1, Fraction(1, 2), 3]))])
            c["ops"] = ops
        else:
            c["ops"] = []
        return c
    # qm / cqm
    c["desc"] = gen.rand_desc(rng, nmax=5, nmin=1)
    if kind.startswith('cqm'):
        base = c["desc"]
        exprs = [rand_objective(rng, base)]
        for _ in range(rng.randint(0, 3)):
            keep = {str(v[0]) for v in base["vars"] if rng.random() < 0.6}
            sub = gen.rand_desc(rng, nmax=0)
            sub["vars"] = [v for v in base["vars"] if str(v[0]) in keep]
            sub["lin"] = [[v[0], str(rng.dyadic())] for v in sub["vars"]]
            sub["quad"] = []
            for i in range(len(sub["vars"])):
                for j in range(i + 1, len(sub["vars"])):
                    if 'REAL' not in (sub["vars"][i][1], sub["vars"][j][1]) and rng.random() < 0.5:
                        sub["quad"].append([sub["vars"][i][0], sub["vars"][j][0], str(rng.dyadic())])
            sub["off"] = str(rng.dyadic())
            exprs.append(sub)
        c["exprs"] = exprs
    sb = [v for v in c["desc"]["vars"] if v[1] in ('SPIN', 'BINARY')]
    c["target"] = rng.choice(sb)[0] if sb else None
    c["inplace"] = rng.random() < 0.5
    if kind in ('qm_change', 'cqm_change'):
        # SPIN -> INTEGER goes through BINARY (x = (s+1)/2), BINARY -> INTEGER only re-types; every other change of a
        # variable's vartype must be refused (TypeError) and leave the model as it was
        c["to_integer"] = rng.random() < 0.2
        v = rng.choice(c["desc"]["vars"])
        bad = [t for t in ('SPIN', 'BINARY', 'INTEGER', 'REAL')
               if t != v[1] and (v[1], t) not in (('SPIN', 'BINARY'), ('BINARY', 'SPIN'), ('SPIN', 'INTEGER'), ('BINARY', 'INTEGER'))]
        c["refused"] = [v[0], rng.choice(bad)] if rng.random() < 0.3 else None
    return c


DT = {'f64': np.float64, 'f32': np.float32, 'obj': object}


def coq_hdict(h, T):
    return clist([cpair(cnat(T.idx(v)), cq(F(b))) for v, b in h.items()])


def coq_qdict(q, T):
    return clist([f"(({cnat(T.idx(u))}, {cnat(T.idx(v))}), {cq(F(b))})" for (u, v), b in q.items()])


def coq_sset(ss, T):
    rec = ss.record
    nl = len(ss.variables)
    rows = clist(["(SSet.mkRow %s %s %s %s [])" % (clist([cq(F(int(x))) for x in np.asarray(rec.sample[i]).reshape(nl)]),
                                                  cq(F(rec.energy[i])), "(%d)%%Z" % int(rec.num_occurrences[i]), cnat(i))
                  for i in range(len(rec))])
    return "(SSet.mkSS %s %s %s 0%%nat [])" % (clist([cnat(T.idx(v)) for v in ss.variables]), ss.vartype.name, rows)


def coq_pybqm(bqm, T):
    """the dict back-end state (_adj in insertion order, diagonal = linear bias) as a Coq PyBqm.pybqm term"""
    adj = clist([cpair(cnat(T.idx(u)), clist([cpair(cnat(T.idx(v)), cq(F(b))) for v, b in Nu.items()]))
                 for u, Nu in bqm.data._adj.items()])
    return f"(PyBqm.mkPyBqm {adj} {cq(F(bqm.data.offset))})"


def raw_qmi(qm):
    """raw QM state: adjacency structure + varinfo, as a Coq VartypeOps.qmi term"""
    d = qm.data
    n = qm.num_variables
    vs = list(qm.variables)
    lin = clist([cq(F(x)) for x in np.asarray(d._ilinear())])
    adj = clist([clist([cpair(cnat(int(e[0])), cq(F(e[1]))) for e in np.asarray(d._ineighborhood(i))]) for i in range(n)])
    vts = clist([qm.vartype(v).name for v in vs])
    info = clist(["(Expr.mkI %s %s %s)" % (qm.vartype(v).name, cq(F(qm.lower_bound(v))), cq(F(qm.upper_bound(v)))) for v in vs])
    return f"(VartypeOps.mkQI (Adj.mkQM {lin} {adj} {cq(F(qm.offset))} {vts}) {info})"


SENSE = {'<=': 0, 'Le': 0, '>=': 1, 'Ge': 1, '==': 2, 'Eq': 2}


def raw_mexpr(e):
    idx = [int(x) for x in e._iindices()]
    cidx = clist([cnat(i) for i in idx])
    lin = clist([cq(F(x)) for x in e._ilinear()])
    quad = clist([f"({cnat(int(u))}, {cnat(int(v))}, {cq(F(b))})" for u, v, b in e._iquadratic()])
    return f"(Expr.mkE {cidx} (Expr.rebuild_idx {cidx}) {lin} {quad} {cq(F(e.offset))})"


def raw_mcqm(cqm, labs):
    """raw index-level CQM state as a Coq Expr.mcqm term (marks = is_discrete)"""
    info = clist(["(Expr.mkI %s %s %s)" % (cqm.vartype(v).name, cq(F(cqm.lower_bound(v))), cq(F(cqm.upper_bound(v))))
                  for v in cqm.variables])
    cons = []
    for l in labs:
        k = cqm.constraints[l]
        sv = k.sense.value if hasattr(k.sense, 'value') else str(k.sense)
        w = k.lhs.weight()
        pen = {None: 0, 'linear': 1, 'quadratic': 2}[None if k.lhs.penalty() is None else str(k.lhs.penalty())]
        cons.append("(Expr.mkMC %s %s %s %s %s %s)" % (raw_mexpr(k.lhs), cnat(SENSE[sv]), cq(F(k.rhs)),
                                                     "None" if w == float('inf') else "(Some %s)" % cq(F(w)), cnat(pen),
                                                     "true" if k.lhs.is_discrete() else "false"))
    return "(Expr.mkM %s %s %s)" % (info, raw_mexpr(cqm.objective), clist(cons))


def raw_qm(bqm):
    """the raw adjacency structure of a cyBQM as a Coq Adj.qm term"""
    d = bqm.data
    n = bqm.num_variables
    lin = clist([cq(F(x)) for x in np.asarray(d._ilinear())])
    adj = clist([clist([cpair(cnat(int(e[0])), cq(F(e[1]))) for e in np.asarray(d._ineighborhood(i))]) for i in range(n)])
    vts = clist([bqm.vartype.name] * n)
    return f"(Adj.mkQM {lin} {adj} {cq(F(bqm.offset))} {vts})"


def samples_for(rng_seed, labels, domain_of):
    """a few deterministic assignments (list of [label, value])"""
    import random
    r = random.Random(rng_seed)
    out = []
    for _ in range(3):
        out.append([(l, r.choice(domain_of(l))) for l in labels])
    return out


def coq_samples(samples, T):
    return clist([clist([cpair(cnat(T.idx(l)), cq(F(v))) for l, v in s]) for s in samples])


def dom(vt):
    return {'BINARY': [0, 1], 'SPIN': [-1, 1], 'INTEGER': [0, 1, 2, -1, 3], 'REAL': [0, 0.5, 2, -1.5]}[vt]


def run_case(c):
    kind = c["kind"]
    T = LabelTable()
    feats = {"kind": kind}
    py_fail = None
    if kind == 'poly':
        poly = dimod.BinaryPolynomial({tuple(dec_label(x) for x in t): float(F(b)) for t, b in c["terms"]}, c["vartype"])
        before = [(list(k), F(v)) for k, v in poly.items()]
        if c["vartype"] == 'SPIN':
            new, d = poly.to_binary(copy=True), 'S2B'
        else:
            new, d = poly.to_spin(copy=True), 'B2S'
        after = [(list(k), F(v)) for k, v in new.items()]
        if [(list(k), F(v)) for k, v in poly.items()] != before:
            py_fail = "to_spin/to_binary(copy=True) modified the receiver"
        back = new.to_spin(copy=True) if d == 'S2B' else new.to_binary(copy=True)
        # copy=False: a conversion to the polynomial's own vartype returns the polynomial itself, copy=True a detached equal one;
        # a real conversion never returns (or edits) the receiver
        ident = poly.to_spin if c["vartype"] == 'SPIN' else poly.to_binary
        conv_nc = (poly.to_binary(copy=False) if c["vartype"] == 'SPIN' else poly.to_spin(copy=False))
        if ident(copy=False) is not poly:
            py_fail = "to_<own vartype>(copy=False) did not return the polynomial itself"
        cp = ident(copy=True)
        if cp is poly or cp != poly or cp.vartype is not poly.vartype:
            py_fail = "to_<own vartype>(copy=True) is not a detached equal copy"
        if conv_nc is poly or [(list(k), F(v)) for k, v in conv_nc.items()] != after:
            py_fail = "conversion with copy=False differs from the one with copy=True"
        if [(list(k), F(v)) for k, v in poly.items()] != before:
            py_fail = "to_spin/to_binary modified the receiver"
        if {frozenset(k): F(v) for k, v in back.items() if v} != {frozenset(k): F(v) for k, v in poly.items() if v}:
            py_fail = "round trip does not restore the coefficients"

        def hp(p):
            return clist([cpair(clist([cnat(T.idx(x)) for x in k]), cq(b)) for k, b in p])
        return {"coq": f"(HConv {d} {hp(before)} {hp(after)})", "py_fail": py_fail, "features": feats,
                "nontrivial": any(len(k) for k, _ in before)}
    if kind == 'sampleset':
        labels = [dec_label(l) for l in c["labels"]]
        rows = np.array(c["rows"], dtype=np.int64).reshape(len(c["rows"]), len(labels))     # exact integers, for the oracle
        stored = rows.astype(np.dtype(c.get("sdtype", "int8")))
        en = [float(F(e)) for e in c["energy"]]
        ss = dimod.SampleSet.from_samples((stored, labels), energy=en, vartype=c["vartype"], sort_labels=False)
        feats["sdtype"] = str(ss.record.sample.dtype)
        other = 'SPIN' if c["vartype"] == 'BINARY' else 'BINARY'
        off = float(F(c["offset"]))
        snap = ss.record.copy()
        sset_before = coq_sset(ss, T)
        if c.get("future") and c["inplace"]:
            # a not-yet-resolved sample set: the conversion is captured and applied at resolution
            import concurrent.futures
            fut = concurrent.futures.Future()
            pending = dimod.SampleSet.from_future(fut)
            new = pending.change_vartype(other, energy_offset=off, inplace=c["inplace"])
            fut.set_result(ss.copy())
            feats["future"] = True
        else:
            new = ss.change_vartype(other, energy_offset=off, inplace=c["inplace"])
        want_rows = (2 * rows - 1) if other == 'SPIN' else (rows + 1) // 2
        ok = (new.vartype is gen.VT[other] and list(new.variables) == labels
              and np.array_equal(np.asarray(new.record.sample).reshape(want_rows.shape), want_rows)
              and [F(e) for e in new.record.energy] == [F(e) + F(off) for e in en])
        if not ok:
            py_fail = "SampleSet.change_vartype: rows/energies/labels not as specified"
        if not c["inplace"] and not c.get("future") and (ss.vartype is not gen.VT[c["vartype"]] or ss.record.tobytes() != snap.tobytes()):
            py_fail = "SampleSet.change_vartype(inplace=False) modified the receiver"
        coq = None
        if ok:
            coq = f"(SSConv {other} {cq(F(off))} {sset_before} {coq_sset(new, T)})"
        extra = []
        if c.get("bad_target"):
            # a refused conversion: must raise ValueError; the receiver's rows / vartype must be untouched
            ss2 = dimod.SampleSet.from_samples((stored, labels), energy=en, vartype=c["vartype"], sort_labels=False)
            b2 = coq_sset(ss2, T)
            e0 = [F(e) for e in ss2.record.energy]
            try:
                ss2.change_vartype(c["bad_target"], energy_offset=off, inplace=True)
                py_fail = py_fail or f"change_vartype({c['bad_target']}) on a {c['vartype']} sample set did not raise"
            except ValueError:
                pass
            feats["fail_energy_shifted"] = bool(len(e0)) and F(off) != 0 and [F(e) for e in ss2.record.energy] != e0
            extra.append(f"(SSFail {c['bad_target']} {cq(F(off))} {b2} {coq_sset(ss2, T)})")
        return {"coq": coq, "extra_coq": extra, "py_fail": py_fail, "features": feats,
                "nontrivial": len(c["rows"]) > 0 and len(labels) > 0}

    if kind == 'flip':
        desc = c["desc"]
        sub = c["sub"]
        feats["sub"] = sub
        vtmap = {str(dec_label(v[0])): v[1] for v in desc["vars"]}
        coqs = []
        if sub in ('qm', 'bqm'):
            m = gen.build_qm(desc) if sub == 'qm' else gen.build_bqm(desc, dtype=DT[c["dtype"]])
            for t in c["targets"]:
                t = dec_label(t)
                b0 = gen.observe(m)
                m.flip_variable(t)
                coqs.append(("Flip", vtmap[str(t)], cnat(T.idx(t)), coq_obs(b0, T), coq_obs(gen.observe(m), T)))
            if c.get("bad_target") is not None and sub == 'qm':
                try:
                    m.flip_variable(dec_label(c["bad_target"]))
                    py_fail = "flip_variable of an INTEGER/REAL variable did not raise"
                except ValueError:
                    pass
            n = cnat(len(T) + 1)
            terms = [f"({k} {n} {vt} {v} {b} {a})" for k, vt, v, b, a in coqs]
        else:
            cqm = dimod.ConstrainedQuadraticModel()
            for l, vt, lb, ub in desc["vars"]:
                if vt in ('INTEGER', 'REAL'):
                    cqm.add_variable(vt, dec_label(l), lower_bound=lb, upper_bound=ub)
                else:
                    cqm.add_variable(vt, dec_label(l))
            cqm.set_objective(gen.build_qm(c.get("obj", desc)))
            labs = [cqm.add_constraint_from_model(gen.build_qm(c["con"]), '<=', rhs=1.0, label='c1')]
            bins = [dec_label(v[0]) for v in desc["vars"] if v[1] == 'BINARY']
            if c.get("discrete") and len(bins) >= 2:
                labs.append(cqm.add_discrete(bins, label="disc"))
                feats["discrete"] = True
            cvars = list(cqm.variables)
            exprs = lambda: [cqm.objective] + [cqm.constraints[l].lhs for l in labs]
            terms = []
            for t in c["targets"]:
                t = dec_label(t)
                raw0 = raw_mcqm(cqm, labs)
                obs0 = [gen.observe(x) for x in exprs()]
                cqm.flip_variable(t)
                terms.append(f"(CqmFlip {cnat(cvars.index(t))} {raw0} (Some {raw_mcqm(cqm, labs)}))")
                coqs += [("Flip", vtmap[str(t)], cnat(T.idx(t)), coq_obs(b, T), coq_obs(gen.observe(x), T)) for b, x in zip(obs0, exprs())]
            if c.get("bad_target") is not None:
                raw0 = raw_mcqm(cqm, labs)
                try:
                    cqm.flip_variable(dec_label(c["bad_target"]))
                    py_fail = "CQM.flip_variable of an INTEGER/REAL variable did not raise"
                except ValueError:
                    terms.append(f"(CqmFlip {cnat(cvars.index(dec_label(c['bad_target'])))} {raw0} None)")
            n = cnat(len(T) + 1)
            terms += [f"({k} {n} {vt} {v} {b} {a})" for k, vt, v, b, a in coqs]
        if not terms:
            return {"coq": None, "py_fail": py_fail, "nontrivial": False, "features": feats}
        return {"coq": terms[-1], "extra_coq": terms[:-1], "py_fail": py_fail, "features": feats, "nontrivial": True}

    if kind.startswith(('bqm', 'view', 'ising')):
        desc = c["desc"]
        bqm = gen.build_bqm(desc, dtype=DT[c["dtype"]])
        labels = list(bqm.variables)
        vt = 'SPIN' if bqm.vartype is dimod.SPIN else 'BINARY'
        other = 'BINARY' if vt == 'SPIN' else 'SPIN'
        d = 'S2B' if vt == 'SPIN' else 'B2S'
        vars_ = clist([cnat(T.idx(l)) for l in labels])
        before = gen.observe(bqm)
        n = cnat(len(labels) + 1 + len(c.get("ops", [])))       # room for variables added through the view
        samples = samples_for(1, labels, lambda l: dom(other))
        feats["dtype"] = c["dtype"]
        if kind == 'bqm_change':
            raw_before = raw_qm(bqm) if c["dtype"] in ('f64', 'f32') else None
            py_before = coq_pybqm(bqm, T) if c["dtype"] == 'obj' else None
            new = bqm.change_vartype(other, inplace=c["inplace"])
            after = gen.observe(new)
            if not c["inplace"] and gen.observe(bqm) != before:
                py_fail = "change_vartype(inplace=False) modified the receiver"
            back = new.change_vartype(vt, inplace=False)
            if gen.observe(back)["lin"] != before["lin"] or {(frozenset((str(u), str(v)))): b for u, v, b in gen.observe(back)["quad"]} != {frozenset((str(u), str(v))): b for u, v, b in before["quad"]} or gen.observe(back)["off"] != before["off"]:
                py_fail = "there-and-back does not restore the coefficients exactly (dyadic data)"
            en = new.energies((np.array([[v for _, v in s] for s in samples]).reshape(len(samples), len(labels)), labels)) if labels else []
            extra = []
            if c["dtype"] in ('f64', 'f32') and raw_before is not None:
                # the C++ path on the raw adjacency structure (abc.h substitute_variables)
                extra.append(f"(AdjConv {other} {raw_before} {raw_qm(new)})")
            if py_before is not None:
                # the dict back-end path (pyBQM.change_vartype)
                extra.append(f"(PyConv {'Gen_PyBQM.ToBinary' if other == 'BINARY' else 'Gen_PyBQM.ToSpin'} {py_before} {coq_pybqm(new, T)})")
            return {"coq": f"(Conv {n} {d} {vars_} {coq_obs(before, T)} {coq_obs(after, T)} {coq_samples(samples, T)})",
                    "extra_coq": extra, "py_fail": py_fail, "features": feats, "nontrivial": bool(before["lin"])}
        if kind == 'bqm_to_from':
            if vt == 'SPIN':
                Q, off = bqm.to_qubo()
                o2 = {"lin": [[enc_label(u), fs(b)] for (u, v), b in Q.items() if u == v],
                      "quad": [[enc_label(u), enc_label(v), fs(b)] for (u, v), b in Q.items() if u != v], "off": fs(off)}
                again = dimod.BQM.from_qubo(Q, off)
                h2, J2, off2 = dimod.qubo_to_ising(Q, off)
            else:
                h, J, off = bqm.to_ising()
                o2 = {"lin": [[enc_label(u), fs(b)] for u, b in h.items()],
                      "quad": [[enc_label(u), enc_label(v), fs(b)] for (u, v), b in J.items()], "off": fs(off)}
                again = dimod.BQM.from_ising(h, J, off)
                Q2, off2 = dimod.ising_to_qubo(h, J, off)
            if vt == 'SPIN':
                extra = [f"(QI {coq_qdict(Q, T)} {cq(F(off))} {coq_hdict(h2, T)} {coq_qdict(J2, T)} {cq(F(off2))})"]
            else:
                extra = [f"(IQ {coq_hdict(h, T)} {coq_qdict(J, T)} {cq(F(off))} {coq_qdict(Q2, T)} {cq(F(off2))})"]
            ob = gen.observe(again)
            if (sorted(map(str, ob["lin"])) != sorted(map(str, [x for x in o2["lin"]])) and
                    {str(l): F(b) for l, b in ob["lin"] if F(b)} != {str(l): F(b) for l, b in o2["lin"] if F(b)}):
                py_fail = "from_ising/from_qubo does not reproduce the dict it was given"
            return {"coq": f"(Conv {n} {d} {vars_} {coq_obs(before, T)} {coq_obs(o2, T)} {coq_samples(samples, T)})",
                    "extra_coq": extra, "py_fail": py_fail, "features": feats, "nontrivial": bool(before["lin"])}
        if kind == 'ising_qubo':
            lin = {dec_label(l): float(F(b)) for l, b in before["lin"]}
            quad = {(dec_label(u), dec_label(v)): float(F(b)) for u, v, b in before["quad"]}
            off = float(F(before["off"]))
            if vt == 'SPIN':
                Q, off2 = dimod.ising_to_qubo(lin, quad, off)
                o2 = {"lin": [[enc_label(u), fs(b)] for (u, v), b in Q.items() if u == v],
                      "quad": [[enc_label(u), enc_label(v), fs(b)] for (u, v), b in Q.items() if u != v], "off": fs(off2)}
                extra = [f"(IQ {coq_hdict(lin, T)} {coq_qdict(quad, T)} {cq(F(off))} {coq_qdict(Q, T)} {cq(F(off2))})"]
            else:
                Q = {(u, u): b for u, b in lin.items()}
                Q.update(quad)
                h, J, off2 = dimod.qubo_to_ising(Q, off)
                o2 = {"lin": [[enc_label(u), fs(b)] for u, b in h.items()],
                      "quad": [[enc_label(u), enc_label(v), fs(b)] for (u, v), b in J.items()], "off": fs(off2)}
                extra = [f"(QI {coq_qdict(Q, T)} {cq(F(off))} {coq_hdict(h, T)} {coq_qdict(J, T)} {cq(F(off2))})"]
            return {"coq": f"(Conv {n} {d} {vars_} {coq_obs(before, T)} {coq_obs(o2, T)} {coq_samples(samples, T)})",
                    "extra_coq": extra, "features": feats, "nontrivial": bool(before["lin"])}
        # views
        view = bqm.binary if other == 'BINARY' else bqm.spin
        if kind == 'view_read':
            vobs = gen.observe(view)
            # every read path of the view
            lin2 = {enc_label(v) if not isinstance(v, tuple) else str(v): fs(view.get_linear(v)) for v in labels}
            if [[l, b] for l, b in vobs["lin"]] != [[enc_label(v), fs(view.get_linear(v))] for v in labels]:
                py_fail = "view.linear and view.get_linear disagree"
            for u, v, b in vobs["quad"]:
                if fs(view.get_quadratic(dec_label(u), dec_label(v))) != b:
                    py_fail = "view.quadratic and view.get_quadratic disagree"
            extra = []
            # energies THROUGH the view, sample array in the generated dtype: the base model's energy at the converted row
            if labels:
                edt = np.dtype(c.get("edtype", "int8"))
                erows = [[x for _, x in smp] for smp in samples_for(5, labels, lambda l: dom(other))]
                if edt.kind in 'ub' and other == 'SPIN':
                    erows = [[1 for _ in r] for r in erows[:1]]        # the only spin row unsigned storage can hold
                arr = np.array(erows, dtype=np.int64).reshape(len(erows), len(labels)).astype(edt)
                feats["edtype"] = edt.name
                try:
                    keep = arr.copy()
                    ven = view.energies((arr, labels))
                    if arr.dtype != keep.dtype or not np.array_equal(arr, keep):
                        py_fail = "view.energies modified the caller's sample array"
                    rows_c = clist([clist([cpair(cnat(T.idx(l)), cq(F(int(x)))) for l, x in zip(labels, r)]) for r in erows])
                    extra.append(f"(ViewEn {d} {vars_} {coq_obs(before, T)} {rows_c} {clist([cq(F(e)) for e in ven])})")
                    one = view.energy((arr[:1], labels))
                    if F(one) != F(ven[0]):
                        py_fail = "view.energy and view.energies disagree"
                except Exception as e:
                    py_fail = f"view.energies on a {edt.name} sample array raised {type(e).__name__}: {e}"
            # copies of the view are detached models of the VIEW's vartype (VartypeView.__copy__ converts a copy of the
            # base); change_vartype(inplace=False) back to the base's vartype gives the base's own coefficients
            for how in ('copy', 'deepcopy', 'change_back', 'change_same'):
                cp = {'copy': lambda: view.copy(), 'deepcopy': lambda: view.copy(deep=True),
                      'change_back': lambda: view.change_vartype(vt, inplace=False),
                      'change_same': lambda: view.change_vartype(other, inplace=False)}[how]()
                want_vt = vt if how == 'change_back' else other
                if cp.vartype is not gen.VT[want_vt]:
                    py_fail = f"view.{how}: vartype {cp.vartype}, expected {want_vt}"
                smp = samples_for(4, labels, lambda l: dom(want_vt))
                extra.append(f"(Conv {n} {d} {'[]' if how == 'change_back' else vars_} {coq_obs(before, T)} {coq_obs(gen.observe(cp), T)} {coq_samples(smp, T)})")
                # aliasing: editing the copy must not reach the base model or the view
                if labels:
                    cp.add_linear(labels[0], 4.0)
                cp.offset += 8.0
                if gen.observe(bqm) != before or gen.observe(view) != vobs:
                    py_fail = f"editing the result of view.{how} changed the base model"
            if view.vartype is not gen.VT[other] or bqm.vartype is not gen.VT[vt]:
                py_fail = "copying the view changed a vartype"
            return {"coq": f"(ViewRead {n} {d} {vars_} {coq_obs(before, T)} {coq_obs(vobs, T)})", "extra_coq": extra, "py_fail": py_fail,
                    "features": feats, "nontrivial": bool(before["lin"])}
        if kind == 'view_same':
            # the base changes vartype in place: the cached view now has the base's vartype
            bqm.change_vartype(other, inplace=True)
            before = gen.observe(bqm)
            vars_ = "[]"
            feats["same_vartype"] = True
        coqs = []
        for op in c["ops"]:
            b0 = gen.observe(bqm)
            name = op[0]
            try:
                if name == "remove_interaction":
                    u, v = dec_label(op[1]), dec_label(op[2])
                    if (u, v) in bqm.quadratic:
                        view.remove_interaction(u, v)
                        if (u, v) in bqm.quadratic or (u, v) in view.quadratic:
                            return {"py_fail": "the interaction is still there after view.remove_interaction", "features": feats}
                        o = f"(VSetQuad {cnat(T.idx(op[1]))} {cnat(T.idx(op[2]))} {cq(F(0))})"
                        feats["remove_interaction"] = True
                    else:
                        try:
                            view.remove_interaction(u, v)
                            return {"py_fail": "view.remove_interaction of an absent interaction did not raise", "features": feats}
                        except ValueError:
                            pass
                        if gen.observe(bqm) != b0:
                            return {"py_fail": "a refused view.remove_interaction changed the base model", "features": feats}
                        continue
                elif name == "add_variable":
                    got = view.add_variable(dec_label(op[1]), float(F(op[2])))
                    if got != dec_label(op[1]):
                        return {"py_fail": f"view.add_variable returned {got!r}", "features": feats}
                    o = f"(VAddLin {cnat(T.idx(op[1]))} {cq(F(op[2]))})"
                    feats["add_variable"] = True
                elif name == "add_linear":
                    view.add_linear(dec_label(op[1]), float(F(op[2])))
                    o = f"(VAddLin {cnat(T.idx(op[1]))} {cq(F(op[2]))})"
                elif name == "set_linear":
                    view.set_linear(dec_label(op[1]), float(F(op[2])))
                    o = f"(VSetLin {cnat(T.idx(op[1]))} {cq(F(op[2]))})"
                elif name == "add_quadratic":
                    view.add_quadratic(dec_label(op[1]), dec_label(op[2]), float(F(op[3])))
                    o = f"(VAddQuad {cnat(T.idx(op[1]))} {cnat(T.idx(op[2]))} {cq(F(op[3]))})"
                elif name == "set_quadratic":
                    view.set_quadratic(dec_label(op[1]), dec_label(op[2]), float(F(op[3])))
                    o = f"(VSetQuad {cnat(T.idx(op[1]))} {cnat(T.idx(op[2]))} {cq(F(op[3]))})"
                elif name == "remove":
                    last = list(bqm.variables)[-1]
                    target_v = last if op[1] is None else dec_label(op[1])
                    if op[1] is None:
                        got = view.remove_variable()
                        if got != last:
                            return {"py_fail": f"view.remove_variable() returned {got!r}, the last variable is {last!r}", "features": feats}
                    else:
                        view.remove_variable(target_v)
                    o = f"(VRemove {cnat(T.idx(target_v))})"
                elif name == "add_eq":
                    view.add_linear_equality_constraint([(dec_label(l), float(F(b))) for l, b in op[1]],
                                                        float(F(op[2])), float(F(op[3])))
                    terms = clist([cpair(cnat(T.idx(l)), cq(F(b))) for l, b in op[1]])
                    o = f"(VAddEq {terms} {cq(F(op[2]))} {cq(F(op[3]))})"
                elif name == "offset":
                    view.offset = float(F(op[1]))
                    o = f"(VSetOff {cq(F(op[1]))})"
                else:
                    view.scale(float(F(op[1])))
                    o = f"(VScale {cq(F(op[1]))})"
            except Exception as e:
                return {"py_fail": f"edit {op} through the view raised {type(e).__name__}: {e}", "features": feats}
            if vars_ != "[]":
                vars_ = clist([cnat(T.idx(l)) for l in dict.fromkeys(labels + [dec_label(x) for x in b0["vars"]] + list(bqm.variables))])
            coqs.append(f"(ViewWrite {n} {d} {vars_} {coq_obs(b0, T)} {o} {coq_obs(gen.observe(bqm), T)} {coq_obs(gen.observe(view), T)})")
        if not coqs:
            return {"coq": None, "nontrivial": False, "features": feats}
        # several ops -> one Coq case each; pack as the conjunction by returning the last, others via 'extra'
        return {"coq": coqs[-1], "extra_coq": coqs[:-1], "features": feats, "nontrivial": True}

    # QM / CQM
    desc = c["desc"]
    target = dec_label(c["target"]) if c["target"] is not None else None
    allvars = desc["vars"]
    vtmap = {str(dec_label(v[0])): v[1] for v in allvars}
    n = cnat(len(allvars) + 1)
    if kind.startswith('qm'):
        qm = gen.build_qm(desc)
        before = gen.observe(qm)
        rawq_before = raw_qmi(qm)
        qvars = list(qm.variables)
        if kind == 'qm_change':
            if target is None:
                return {"coq": None, "nontrivial": False, "features": feats}
            tv = vtmap[str(target)]
            refused_terms = []
            if c.get("refused"):
                rv, rt = dec_label(c["refused"][0]), c["refused"][1]
                raw0, obs0 = raw_qmi(qm), gen.observe(qm)
                try:
                    qm.change_vartype(rt, rv)
                    py_fail = f"change_vartype({rt}) of a {vtmap[str(rv)]} variable did not raise"
                except TypeError:
                    refused_terms.append(f"(QmCv {rt} {cnat(qvars.index(rv))} {raw0} None)")
                    if gen.observe(qm) != obs0 or raw_qmi(qm) != raw0:
                        py_fail = "a refused change_vartype modified the model"
                feats["refused"] = True
            new_vt = 'BINARY' if tv == 'SPIN' else 'SPIN'
            d = 'S2B' if tv == 'SPIN' else 'B2S'
            conv = [target]
            if c.get("to_integer"):
                new_vt = 'INTEGER'
                feats["to_integer"] = True
                if tv == 'BINARY':
                    conv = []                      # only the declared vartype changes
            qm.change_vartype(new_vt, target)
            if qm.vartype(target) is not gen.VT[new_vt]:
                py_fail = "vartype not updated"
            if new_vt == 'INTEGER' and (qm.lower_bound(target), qm.upper_bound(target)) != (0, 1):
                py_fail = "bounds after the change to INTEGER are not [0, 1]"
            new = qm
        else:
            new = qm.spin_to_binary(inplace=c["inplace"])
            conv = [dec_label(v[0]) for v in allvars if v[1] == 'SPIN']
            d = 'S2B'
            if not c["inplace"] and gen.observe(qm) != before:
                py_fail = "spin_to_binary(inplace=False) modified the receiver"
            if any(new.vartype(v) is dimod.SPIN for v in new.variables):
                py_fail = "a SPIN variable is left after spin_to_binary"
        for v in allvars:
            l = dec_label(v[0])
            if l not in conv and l != target and new.vartype(l) is not gen.VT[v[1]]:
                py_fail = f"vartype of unrelated variable {l!r} changed"
        after = gen.observe(new)
        vtnew = dict(vtmap)
        for l in conv:
            vtnew[str(l)] = 'BINARY' if d == 'S2B' else 'SPIN'
        labels = [dec_label(v[0]) for v in allvars]
        samples = samples_for(2, labels, lambda l: dom(vtnew[str(l)]))
        vars_ = clist([cnat(T.idx(l)) for l in conv])
        # the C++ / python loops on the raw state (adjacency structure + varinfo)
        if kind == 'qm_change':
            extra = [f"(QmCv {new_vt} {cnat(qvars.index(target))} {rawq_before} (Some {raw_qmi(new)}))"] + refused_terms
        else:
            extra = [f"(QmS2B {rawq_before} {raw_qmi(new)})"]
        return {"coq": f"(Conv {n} {d} {vars_} {coq_obs(before, T)} {coq_obs(after, T)} {coq_samples(samples, T)})",
                "extra_coq": extra, "py_fail": py_fail, "features": feats, "nontrivial": bool(conv) and bool(before["lin"])}
    # cqm
    cqm = dimod.ConstrainedQuadraticModel()
    for l, vt, lb, ub in allvars:
        if vt in ('INTEGER', 'REAL'):
            cqm.add_variable(vt, dec_label(l), lower_bound=lb, upper_bound=ub)
        else:
            cqm.add_variable(vt, dec_label(l))
    labs = []
    for i, e in enumerate(c["exprs"]):
        qm = gen.build_qm(e)
        if i == 0:
            cqm.set_objective(qm)
        else:
            labs.append(cqm.add_constraint_from_model(qm, ['<=', '>=', '=='][i % 3], rhs=float(i)))

    # a constraint marked discrete over binary variables (change_vartype must convert it like any other)
    bins = [dec_label(v[0]) for v in allvars if v[1] == 'BINARY']
    if len(bins) >= 2 and (len(c["exprs"]) + len(bins)) % 2 == 0:
        labs.append(cqm.add_discrete(bins, label="disc"))
        feats["discrete"] = True

    def exprs(m):
        return [m.objective] + [m.constraints[l].lhs for l in labs]
    objvars = set(cqm.objective.variables)
    feats["spin_outside_objective"] = any(v[1] == 'SPIN' and dec_label(v[0]) not in objvars for v in allvars)
    before = [gen.observe(x) for x in exprs(cqm)]
    attrs = [(str(cqm.constraints[l].sense), fs(cqm.constraints[l].rhs)) for l in labs]
    rawc_before = raw_mcqm(cqm, labs)
    cvars = list(cqm.variables)
    if kind == 'cqm_change':
        if target is None:
            return {"coq": None, "nontrivial": False, "features": feats}
        tv = vtmap[str(target)]
        refused_terms = []
        if c.get("refused"):
            rv, rt = dec_label(c["refused"][0]), c["refused"][1]
            raw0 = raw_mcqm(cqm, labs)
            try:
                cqm.change_vartype(rt, rv)
                py_fail = f"CQM.change_vartype({rt}) of a {vtmap[str(rv)]} variable did not raise"
            except TypeError:
                refused_terms.append(f"(CqmCv {rt} {cnat(cvars.index(rv))} {raw0} None)")
                if raw_mcqm(cqm, labs) != raw0:
                    py_fail = "a refused CQM.change_vartype modified the model"
            feats["refused"] = True
        new_vt = 'BINARY' if tv == 'SPIN' else 'SPIN'
        conv = [target]
        if c.get("to_integer"):
            new_vt = 'INTEGER'
            feats["to_integer"] = True
            if tv == 'BINARY':
                conv = []
        cqm.change_vartype(new_vt, target)
        new, d = cqm, ('S2B' if tv == 'SPIN' else 'B2S')
        if new_vt == 'INTEGER' and (cqm.lower_bound(target), cqm.upper_bound(target)) != (0, 1):
            py_fail = "bounds after the change to INTEGER are not [0, 1]"
    else:
        snapshot = copy.deepcopy(cqm)
        new = cqm.spin_to_binary(inplace=c["inplace"])
        conv, d = [dec_label(v[0]) for v in allvars if v[1] == 'SPIN'], 'S2B'
        if not c["inplace"] and not cqm.is_equal(snapshot):
            py_fail = "CQM.spin_to_binary(inplace=False) modified the receiver"
    after = [gen.observe(x) for x in exprs(new)]
    if [(str(new.constraints[l].sense), fs(new.constraints[l].rhs)) for l in labs] != attrs:
        py_fail = "sense/rhs changed by the conversion"
    for v in allvars:
        l = dec_label(v[0])
        want = ('BINARY' if d == 'S2B' else 'SPIN') if l in conv else v[1]
        if kind == 'cqm_change' and c.get("to_integer") and l == target:
            want = 'INTEGER'
        if new.vartype(l) is not gen.VT[want]:
            py_fail = f"vartype of {l!r} is {new.vartype(l)}, expected {want}"
    vtnew = dict(vtmap)
    for l in conv:
        vtnew[str(l)] = 'BINARY' if d == 'S2B' else 'SPIN'
    labels = [dec_label(v[0]) for v in allvars]
    samples = samples_for(3, labels, lambda l: dom(vtnew[str(l)]))
    vars_ = clist([cnat(T.idx(l)) for l in conv])
    coqs = [f"(Conv {n} {d} {vars_} {coq_obs(b, T)} {coq_obs(a, T)} {coq_samples(samples, T)})" for b, a in zip(before, after)]
    # the C++ / python loops on the raw index-level state of objective and every constraint
    if kind == 'cqm_change':
        coqs.insert(0, f"(CqmCv {new_vt} {cnat(cvars.index(target))} {rawc_before} (Some {raw_mcqm(new, labs)}))")
        coqs[0:0] = refused_terms
    else:
        coqs.insert(0, f"(CqmS2B {rawc_before} {raw_mcqm(new, labs)})")
    return {"coq": coqs[-1], "extra_coq": coqs[:-1], "py_fail": py_fail, "features": feats,
            "nontrivial": bool(conv)}


if __name__ == "__main__":
    wlib.main(gen_case, run_case)
