PID = "C08"
WORKER = "w_c08"
HEADER = "From Coq Require Import List ZArith QArith Qcanon.\nFrom Dimod Require Import Base.Util Model.Poly Model.Samples Model.Feas Model.EnergyCy Model.FeasCy Model.ChkC08.\nImport ListNotations."
CHECK_FN = "check"
N_QUICK = 960
N_THOROUGH = 16000
SHARD = 60
SHRINK_KEYS = ["cons", "rows"]
RULE = ("random CQMs over <= 5 binary/spin/small-integer variables, 0..4 constraints of all senses, hard/soft mixes with linear and "
        "quadratic penalties, linear and quadratic left-hand sides, constant-only constraints and objectives; 1..6 sample rows with "
        "mixed satisfaction; tolerances from {0, 1/1024, 1/4, 1} or the defaults (then integer data, Coq uses 0/0); every entry point "
        "(violations, iter_violations with skip_satisfied/clip, iter_constraint_data, check_feasible, from_samples_cqm, "
        "ExactCQMSolver) compared with the spec evaluated in Coq on the reported coefficients; non-trivial = at least one constraint; "
        "distinct by canonical JSON of the case")
TRUSTED = ["spec and loop structure: coq/theories/Model/Feas.v, Poly.v, ChkC08.v (hand written, tied by this correspondence); the formulas of both code paths "
           "(activity, violation per sense, tolerance, skip/clip, soft penalties) are GENERATED from constrained.py / sampleset.py by translators/feas_formulas.py (Gen/Gen_Feas.v, fail-closed)",
           "float arithmetic of the implementation is exact on the generated dyadic data (not verified)",
           "with the default tolerances (1e-8, 1e-6) all data are integers, so the comparison violation <= tol equals violation <= 0"]
ASSUMPTIONS = ["the coefficients an expression reports define its energy (property C01)",
               "IEEE-754 arithmetic is exact on the small dyadic coefficients generated",
               "check_feasible is compared with the spec only on rows without a violated soft constraint (it counts soft constraints: known finding, corpus case)"]
PARTIAL = ["C08_check_feasible_eq_spec_partial / C08_paths_agree: check_feasible equals the definition only when no soft constraint is violated "
           "(C08_check_feasible_counts_soft_refuted, C08_paths_agree_unconditioned_refuted give the witness)"]
