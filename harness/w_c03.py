"""C03 worker: fix variables on the implementation, observe coefficients before/after.

Coverage (property clause -> stream):
  fix_variable / fix_variables on a BQM      kinds bqm64 / bqm32 / bqmobj (one variable -> fix_variable, several -> fix_variables
                                             given as dict or as list of pairs), also through the live view of the other vartype
  ... on a QM                                kind qm (float64 and float32 storage: "qdtype")
  ... on a CQM, in place                     cqm_inplace (fix_variable one by one), cqm_inplace_many (fix_variables(inplace=True))
  ... on ONE expression of a CQM             cqm_view (objective / constraint lhs view .fix_variable(s); the other expressions and
                                             the model's variables must not change; the result is also read through qm.update(view))
  ... on a CQM, new model                    cqm_copy (fix_variables(inplace=False)); receiver compared with a deep copy, and the
                                             result is edited afterwards to show it shares no state with the receiver ("alias")
  `fixed` argument forms                     "fix_form": dict / list of pairs / one-shot generator, zip, list iterator - for CQM (both
                                             paths) and for BQM (3 dtypes, through views) / QM fix_variables alike
  rarely used keyword                        the deprecated `cascade=` of CQM.fix_variable(s) ("cascade_kw"), legacy {} return value
  nothing fixed                              nf = 0 (all kinds except the one-by-one path, where it is the empty loop)
  every variable (of an expression) fixed    nf up to n; expressions keep a random 70% of the variables
  squared terms, constants                   rand_desc self-loops on INTEGER, offsets
  variables in only some expressions         expressions over random subsets; variable orders of expressions are shuffled
                                             independently of the CQM's order ("expr_shuffled"), labels sometimes range(n)
  sense / rhs / weight / penalty / label     compared in python and inside Coq (mcon_sim); 30% soft constraints; discrete marks
  PolyFixedVariableComposite                 kind poly (the fixing helper on the dict items) and kind poly_composite (sample_poly
                                             over ExactPolySolver: every returned row carries the fixed values and the energy of
                                             the ORIGINAL polynomial at that row, incl. all variables fixed / nothing fixed / None)
"""
import copy
import json
from fractions import Fraction
import numpy as np
import dimod
from dimod.reference.composites.higherordercomposites import fix_variables as poly_fix

import wlib
from wlib import cq, clist, cnat, cpair
import gen
from gen import F, enc_label, dec_label, LabelTable, coq_obs

KINDS = ['bqm64', 'bqm32', 'bqmobj', 'qm', 'cqm_inplace', 'cqm_inplace_many', 'cqm_copy', 'cqm_copy', 'cqm_view', 'poly', 'poly_composite']


def rand_value(rng, vt):
    if vt == 'BINARY':
        return rng.choice([0, 1])
    if vt == 'SPIN':
        return rng.choice([-1, 1])
    if vt == 'INTEGER':
        return rng.choice([0, 1, 2, 3, -2, 5, 9])
    return str(rng.choice([Fraction(1, 2), Fraction(2), Fraction(-3, 2), Fraction(0), Fraction(3)]))


def gen_case(rng, tier):
    kind = rng.choice(KINDS)
    if kind == 'poly_composite':
        n = rng.randint(1, 4)
        labels = gen.rand_labels(rng, n)
        vartype = rng.choice(['BINARY', 'SPIN'])
        terms = []
        if rng.random() < 0.6:
            terms.append([[], str(rng.dyadic())])
        for _ in range(rng.randint(0, 6)):
            k = rng.randint(1, min(3, n))
            terms.append([[enc_label(x) for x in rng.sample(labels, k)], str(rng.dyadic())])
        r = rng.random()
        nf = n if r < 0.2 else (0 if r < 0.3 else rng.randint(0, n))
        fixes = [[enc_label(l), rand_value(rng, vartype)] for l in rng.sample(labels, nf)]
        return {"kind": kind, "vartype": vartype, "terms": terms, "fixes": fixes, "none": nf == 0 and rng.random() < 0.5}
    if kind == 'poly':
        n = rng.randint(1, 6)
        labels = gen.rand_labels(rng, n)
        vartype = rng.choice(['BINARY', 'SPIN'])
        terms = []
        if rng.random() < 0.6:
            terms.append([[], str(rng.dyadic())])
        for _ in range(rng.randint(0, 7)):
            k = rng.randint(1, min(4, n))
            terms.append([[enc_label(x) for x in rng.sample(labels, k)], str(rng.dyadic())])
        nf = rng.randint(0, n)
        fixes = [[enc_label(l), rand_value(rng, vartype)] for l in rng.sample(labels, nf)]
        return {"kind": kind, "vartype": vartype, "terms": terms, "fixes": fixes}
    if kind.startswith('bqm'):
        desc = gen.rand_desc(rng, nmax=6, kinds=('BINARY', 'SPIN'), single_vartype=True, nmin=1,
                             kmax=6 if kind == 'bqm32' else 8, jmax=1 if kind == 'bqm32' else 2)
        exprs = [desc]
        allvars = desc["vars"]
    elif kind == 'qm':
        qdtype = rng.choice(['f64', 'f64', 'f32'])
        desc = gen.rand_desc(rng, nmax=6, nmin=1, kmax=4 if qdtype == 'f32' else 8, jmax=1 if qdtype == 'f32' else 2)
        exprs = [desc]
        allvars = desc["vars"]
    else:
        base = gen.rand_desc(rng, nmax=6, nmin=1, kinds=('BINARY', 'SPIN', 'INTEGER', 'INTEGER', 'REAL'))
        allvars = base["vars"]
        exprs = []
        for _ in range(rng.randint(1, 4)):
            keep = {str(v[0]) for v in allvars if rng.random() < 0.7}
            e = {"vars": [v for v in allvars if str(v[0]) in keep],
                 "lin": [t for t in base["lin"] if str(t[0]) in keep],
                 "quad": [], "off": str(rng.dyadic())}
            # fresh quadratic part over the kept variables
            sub = [v for v in allvars if str(v[0]) in keep]
            for i in range(len(sub)):
                for j in range(i, len(sub)):
                    vi, vj = sub[i], sub[j]
                    if i == j and vi[1] in ('BINARY', 'SPIN'):
                        continue
                    if 'REAL' in (vi[1], vj[1]):
                        continue
                    if rng.random() < (0.5 if i == j else 0.4):
                        e["quad"].append([vi[0], vj[0], str(rng.dyadic())])
            e["sense"] = rng.choice(['<=', '>=', '=='])
            e["rhs"] = str(rng.dyadic())
            if rng.random() < 0.3:
                e["weight"] = str(abs(rng.dyadic(8, 1)) + 1)
                e["penalty"] = rng.choice(['linear', 'quadratic']) if not e["quad"] or True else 'linear'
            if rng.random() < 0.5:
                # the expression's own variable order is independent of the CQM's
                vs = list(e["vars"])
                rng.shuffle(vs)
                e["vars"] = vs
                e["shuffled"] = True
            exprs.append(e)
    nf = rng.randint(1, len(allvars)) if rng.random() < 0.93 else 0
    chosen = rng.sample(allvars, nf)
    fixes = [[v[0], rand_value(rng, v[1])] for v in chosen]
    c = {"kind": kind, "exprs": exprs, "allvars": allvars, "fixes": fixes,
         "fix_form": rng.choice(['dict', 'dict', 'pairs', 'gen', 'zip', 'iter'])}
    if kind == 'qm':
        c["qdtype"] = qdtype
    if kind.startswith('cqm'):
        # a one-hot constraint marked discrete over some binary variables: fixing inside it exercises the markers
        bins = [v[0] for v in allvars if v[1] == 'BINARY']
        if kind == 'cqm_view':
            # fixing through the view of ONE expression (cqm.objective / cqm.constraints[l].lhs .fix_variable(s)): the generic
            # python path of views/quadratic.py followed by Expression::remove_variable; round-6 miss C03 r6m2
            c["which"] = rng.randrange(len(exprs))
            c["one_by_one"] = rng.random() < 0.5
        elif len(bins) >= 2 and rng.random() < 0.5:
            c["discrete"] = rng.sample(bins, rng.randint(2, len(bins)))
    # label shapes: sometimes the default integer labels 0..n-1 in order (a range-labelled Variables object)
    if rng.random() < 0.3:
        c = relabel_range(c)
    # BQMs are also fixed through the live view of the opposite vartype (values in the view's domain)
    if kind.startswith('bqm'):
        c["via_view"] = rng.random() < 0.4
        if c["via_view"]:
            vt = c["exprs"][0].get("vartype") or (c["allvars"][0][1] if c["allvars"] else 'BINARY')
            other = 'SPIN' if vt == 'BINARY' else 'BINARY'
            c["fixes"] = [[l, rand_value(rng, other)] for l, _ in c["fixes"]]
    return c


def relabel_range(c):
    """rename the variables to 0..n-1 in the order they are added"""
    key = lambda l: json.dumps(l, sort_keys=True)
    m = {key(v[0]): i for i, v in enumerate(c["allvars"])}
    r = lambda l: m[key(l)]

    def rex(e):
        e = dict(e)
        e["vars"] = [[r(v[0])] + list(v[1:]) for v in e["vars"]]
        e["lin"] = [[r(t[0]), t[1]] for t in e["lin"]]
        e["quad"] = [[r(t[0]), r(t[1]), t[2]] for t in e["quad"]]
        return e
    out = dict(c)
    out["exprs"] = [rex(e) for e in c["exprs"]]
    # the model variables must come first and in order for the labels to form a range
    out["allvars"] = [[r(v[0])] + list(v[1:]) for v in c["allvars"]]
    out["fixes"] = [[r(l), x] for l, x in c["fixes"]]
    if c.get("discrete"):
        out["discrete"] = [r(l) for l in c["discrete"]]
    out["range_labels"] = True
    return out


def build_cqm(c):
    cqm = dimod.ConstrainedQuadraticModel()
    for l, vt, lb, ub in c["allvars"]:
        if vt in ('INTEGER', 'REAL'):
            cqm.add_variable(vt, dec_label(l), lower_bound=lb, upper_bound=ub)
        else:
            cqm.add_variable(vt, dec_label(l))
    labels = []
    for i, e in enumerate(c["exprs"]):
        qm = gen.build_qm(e)
        if i == 0:
            cqm.set_objective(qm)
        else:
            kw = {}
            if "weight" in e:
                kw = dict(weight=float(F(e["weight"])), penalty=e["penalty"])
                if e["penalty"] == 'quadratic' and any(v[1] not in ('BINARY', 'SPIN') for v in e["vars"]):
                    kw["penalty"] = 'linear'
            lab = cqm.add_constraint_from_model(qm, e["sense"], rhs=float(F(e["rhs"])), label=f"c{i}", **kw)
            labels.append(lab)
    if c.get("discrete"):
        labels.append(cqm.add_discrete([dec_label(l) for l in c["discrete"]], label="disc"))
    return cqm, labels


def cqm_exprs(cqm, labels):
    return [cqm.objective] + [cqm.constraints[l].lhs for l in labels]


def cqm_attrs(cqm, labels):
    out = []
    for l in labels:
        c = cqm.constraints[l]
        out.append([str(c.sense.value) if hasattr(c.sense, 'value') else str(c.sense), gen.fs(c.rhs),
                    None if c.lhs.weight() == float('inf') else gen.fs(c.lhs.weight()),
                    None if c.lhs.penalty() is None else str(c.lhs.penalty())])
    return out


SENSE = {'<=': 0, 'Le': 0, '>=': 1, 'Ge': 1, '==': 2, 'Eq': 2}


def raw_mexpr(e):
    idx = clist([cnat(int(x)) for x in e._iindices()])
    lin = clist([cq(F(x)) for x in e._ilinear()])
    quad = clist([f"({cnat(int(u))}, {cnat(int(v))}, {cq(F(b))})" for u, v, b in e._iquadratic()])
    return f"(mexpr_of_raw {idx} {lin} {quad} {cq(F(e.offset))})"


def raw_mcqm(cqm, labels):
    """raw index-level state of a CQM as a Coq Expr.mcqm term"""
    info = clist(["(Expr.mkI %s %s %s)" % (cqm.vartype(v).name, cq(F(cqm.lower_bound(v))), cq(F(cqm.upper_bound(v))))
                  for v in cqm.variables])
    cons = []
    for l in labels:
        k = cqm.constraints[l]
        sv = k.sense.value if hasattr(k.sense, 'value') else str(k.sense)
        w = k.lhs.weight()
        pen = {None: 0, 'linear': 1, 'quadratic': 2}[None if k.lhs.penalty() is None else str(k.lhs.penalty())]
        cons.append("(Expr.mkMC %s %s %s %s %s %s)" % (raw_mexpr(k.lhs), cnat(SENSE[sv]), cq(F(k.rhs)),
                                                        "None" if w == float('inf') else "(Some %s)" % cq(F(w)), cnat(pen),
                                                        "true" if k.lhs.is_discrete() else "false"))
    return "(Expr.mkM %s %s %s)" % (info, raw_mexpr(cqm.objective), clist(cons))


def one_shot(form, fixes):
    """`fixed` as an iterable that can be walked only once: generator / zip of labels and values / list iterator"""
    if form == 'zip':
        return zip([l for l, _ in fixes], [v for _, v in fixes])
    if form == 'iter':
        return iter(list(fixes))
    return (f for f in list(fixes))


def run_poly_composite(c, fixes, feats):
    """PolyFixedVariableComposite(ExactPolySolver()).sample_poly(poly, fixed_variables=...)"""
    T = LabelTable()
    poly = dimod.BinaryPolynomial({tuple(dec_label(x) for x in t): float(F(b)) for t, b in c["terms"]}, c["vartype"])
    terms = [(list(k), F(v)) for k, v in poly.items()]
    sampler = dimod.PolyFixedVariableComposite(dimod.ExactPolySolver())
    fv = None if c.get("none") else dict(fixes)
    ss = sampler.sample_poly(poly, fixed_variables=fv)
    py_fail = None
    labels = list(ss.variables)
    free = [v for v in poly.variables if v not in dict(fixes)]
    if set(labels) != set(poly.variables) | set(dict(fixes)):
        py_fail = f"returned variables {labels!r}, expected the polynomial's plus the fixed ones"
    want_rows = 2 ** len(free) if (free or not fixes) else 1
    if free == [] and not fixes:
        want_rows = len(ss)           # a variable-free polynomial with nothing fixed: whatever the child returns
    if len(ss) != want_rows:
        py_fail = f"{len(ss)} rows returned, expected {want_rows} (free variables {free!r})"
    if len({tuple(r) for r in ss.record.sample.tolist()}) != len(ss):
        py_fail = "duplicate rows returned"
    hp = clist([cpair(clist([cnat(T.idx(x)) for x in k]), cq(b)) for k, b in terms])
    cf = clist([cpair(cnat(T.idx(l)), cq(F(v))) for l, v in fixes])
    ls = clist([cnat(T.idx(v)) for v in labels])
    rows = clist([clist([cq(F(x)) for x in r]) for r in ss.record.sample])
    en = clist([cq(F(e)) for e in ss.record.energy])
    feats["all_fixed"] = bool(fixes) and not free
    feats["none"] = bool(c.get("none"))
    return {"coq": f"(mkPCase {cf} {hp} {ls} {rows} {en})", "check_fn": "pcheck", "py_fail": py_fail, "features": feats,
            "nontrivial": len(terms) > 0 and len(ss) > 0}


def run_cqm_view(c, cqm, labels, fixes, feats, before, attrs_before, vars_before, form, arg):
    """fix_variable(s) on the view of one expression of a CQM: that expression becomes its restriction, every other
    expression, the CQM's variables and the constraint attributes stay as they were"""
    py_fail = None
    w = c["which"] % len(before)
    views = cqm_exprs(cqm, labels)
    ev = views[w]
    own_before = list(ev.variables)
    feats["which"] = "objective" if w == 0 else "constraint"
    feats["one_by_one"] = bool(c.get("one_by_one"))
    if c.get("one_by_one"):
        for f in fixes:
            ev.fix_variable(*f)
    else:
        ev.fix_variables(arg)
    after = [gen.observe(x) for x in cqm_exprs(cqm, labels)]
    want = [v for v in own_before if v not in dict(fixes)]
    if list(cqm_exprs(cqm, labels)[w].variables) != want:
        py_fail = f"variables of the fixed expression are {list(cqm_exprs(cqm, labels)[w].variables)!r}, expected {want!r}"
    if list(cqm.variables) != vars_before:
        py_fail = "fixing through an expression view changed the variables of the CQM"
    if cqm_attrs(cqm, labels) != attrs_before or list(cqm.constraints) != labels:
        py_fail = "constraint sense/rhs/weight/penalty/labels changed"
    # the fixed expression copied into a stand-alone model reads the same coefficients (label -> position map intact)
    qm = dimod.QuadraticModel()
    qm.update(cqm_exprs(cqm, labels)[w])
    o2 = gen.observe(qm)
    if (sorted(map(json.dumps, o2["lin"])), sorted(json.dumps([sorted([json.dumps(u), json.dumps(v)]), b]) for u, v, b in o2["quad"]), o2["off"]) != \
            (sorted(map(json.dumps, after[w]["lin"])), sorted(json.dumps([sorted([json.dumps(u), json.dumps(v)]), b]) for u, v, b in after[w]["quad"]), after[w]["off"]):
        py_fail = f"QuadraticModel.update(view) reads {o2} but the view reports {after[w]}"
    T = LabelTable([v[0] for v in c["allvars"]])
    cf = clist([cpair(cnat(T.idx(l)), cq(F(v))) for l, v in fixes])
    coq = f"(mkCase {cnat(len(T))} {cf} {clist([cpair(coq_obs(before[w], T), coq_obs(after[w], T))])})"
    rest = [cpair(coq_obs(b, T), coq_obs(a, T)) for i, (b, a) in enumerate(zip(before, after)) if i != w]
    extra = [f"(mkCase {cnat(len(T))} [] {clist(rest)})"] if rest else []
    return {"coq": coq, "extra_coq": extra, "check_fn": "check", "py_fail": py_fail, "features": feats,
            "nontrivial": bool(before[w]["lin"] or before[w]["quad"]) and any(enc_label(l) in before[w]["vars"] for l, _ in fixes),
            "observed": {"before": before, "after": after}}


def run_case(c):
    kind = c["kind"]
    fixes = [(dec_label(l), float(F(v))) for l, v in c["fixes"]]
    feats = {"kind": kind}
    if kind == 'poly':
        T = LabelTable()
        poly = dimod.BinaryPolynomial({tuple(dec_label(x) for x in t): float(F(b)) for t, b in c["terms"]}, c["vartype"])
        before = [(list(k), F(v)) for k, v in poly.items()]
        out = poly_fix(poly, dict(fixes))
        after = [(list(k), F(v)) for k, v in out.items()]

        def hp(p):
            return clist([cpair(clist([cnat(T.idx(x)) for x in k]), cq(b)) for k, b in p])
        cf = clist([cpair(cnat(T.idx(l)), cq(F(v))) for l, v in fixes])
        coq = f"(mkHCase {cf} {hp(before)} {hp(after)})"
        feats["has_const"] = any(len(k) == 0 for k, _ in before)
        return {"coq": coq, "check_fn": "hcheck", "features": feats,
                "nontrivial": bool(fixes) and len(before) > 0,
                "observed": {"before": str(before), "after": str(after)}}
    py_fail = None
    if kind == 'poly_composite':
        return run_poly_composite(c, fixes, feats)
    feats["nfixed"] = min(len(fixes), 2)
    if kind.startswith('bqm') or kind == 'qm':
        e = c["exprs"][0]
        if kind == 'qm':
            m = gen.build_qm(e, dtype=np.float32 if c.get("qdtype") == 'f32' else None)
            feats["qdtype"] = c.get("qdtype", 'f64')
        else:
            m = gen.build_bqm(e, dtype={'bqm64': np.float64, 'bqm32': np.float32, 'bqmobj': object}[kind])
        handle = m
        if c.get("via_view") and kind != 'qm':
            # fix through the live view of the opposite vartype; coefficients are read through the same view
            handle = m.binary if m.vartype is dimod.SPIN else m.spin
            feats["via_view"] = True
        before = [gen.observe(handle)]
        vars_before = list(m.variables)
        form = c.get("fix_form", 'dict')
        feats["fix_form"] = form
        if form in ('gen', 'zip', 'iter'):
            # one-shot iterables of pairs (a documented form of `fixed`), also for a single / no assignment
            handle.fix_variables(one_shot(form, fixes))
        elif len(fixes) == 1:
            handle.fix_variable(*fixes[0])
        else:
            handle.fix_variables(dict(fixes) if form == 'dict' else list(fixes))
        after = [gen.observe(handle)]
        want = [v for v in vars_before if v not in dict(fixes)]
        if list(m.variables) != want:
            py_fail = f"variables after fixing are {list(m.variables)!r}, expected {want!r}"
    else:
        cqm, labels = build_cqm(c)
        before = [gen.observe(x) for x in cqm_exprs(cqm, labels)]
        attrs_before = cqm_attrs(cqm, labels)
        vars_before = list(cqm.variables)
        vinfo_before = {v: (cqm.vartype(v), cqm.lower_bound(v), cqm.upper_bound(v)) for v in cqm.variables}
        snapshot = copy.deepcopy(cqm)
        raw_before = raw_mcqm(cqm, labels)
        fixed_idx = clist([cpair(cnat(vars_before.index(l)), cq(F(v))) for l, v in fixes])
        form = c.get("fix_form", 'dict')
        feats["fix_form"] = form
        feats["expr_shuffled"] = any(e.get("shuffled") for e in c["exprs"])
        arg = dict(fixes) if form == 'dict' else (list(fixes) if form == 'pairs' else one_shot(form, fixes))
        # the deprecated `cascade` keyword (does nothing but warn) is passed now and then
        kw = {} if (len(fixes) + len(labels)) % 4 else {"cascade": bool(len(labels) % 2)}
        feats["cascade_kw"] = bool(kw)
        import warnings
        warnings.simplefilter('ignore', DeprecationWarning)
        if kind == 'cqm_view':
            return run_cqm_view(c, cqm, labels, fixes, feats, before, attrs_before, vars_before, form, arg)
        if kind == 'cqm_inplace':
            for f in fixes:
                if cqm.fix_variable(*f, **kw) != {}:
                    py_fail = "CQM.fix_variable did not return the (legacy) empty dict"
            new = cqm
        elif kind == 'cqm_inplace_many':
            new = cqm.fix_variables(arg, inplace=True, **kw)
            if new is not cqm:
                py_fail = "fix_variables(inplace=True) did not return the receiver"
        else:
            new = cqm.fix_variables(arg, inplace=False, **kw)
            if not cqm.is_equal(snapshot) or list(cqm.variables) != vars_before or raw_mcqm(cqm, labels) != raw_before:
                py_fail = "fix_variables(inplace=False) modified the receiver"
            if new is cqm:
                py_fail = "fix_variables(inplace=False) returned the receiver"
        after = [gen.observe(x) for x in cqm_exprs(new, labels)]
        want = [v for v in vars_before if v not in dict(fixes)]
        if list(new.variables) != want:
            py_fail = f"variables after fixing are {list(new.variables)!r}, expected {want!r}"
        if cqm_attrs(new, labels) != attrs_before:
            py_fail = f"constraint sense/rhs/weight/penalty changed: {attrs_before} -> {cqm_attrs(new, labels)}"
        if list(new.constraints) != labels:
            py_fail = "constraint labels changed"
        for v in new.variables:
            if (new.vartype(v), new.lower_bound(v), new.upper_bound(v)) != vinfo_before[v]:
                py_fail = f"vartype/bounds of remaining variable {v!r} changed"
        raw_after = raw_mcqm(new, labels)
        if kind == 'cqm_copy':
            # the new model shares no state with the receiver: editing it leaves the receiver as it was
            for v in list(new.variables):
                try:
                    new.fix_variable(v, 1)
                except ValueError:
                    pass
            new.objective.offset += 1
            if raw_mcqm(cqm, labels) != raw_before or list(cqm.variables) != vars_before:
                py_fail = "editing the model returned by fix_variables(inplace=False) changed the receiver"
        feats["selfloop_fixed"] = any(u == v and u == enc_label(f[0]) for o in before for u, v, _ in o["quad"] for f in fixes)
    T = LabelTable([v[0] for v in c["allvars"]] if "allvars" in c else [])
    pairs = clist([cpair(coq_obs(b, T), coq_obs(a, T)) for b, a in zip(before, after)])
    cf = clist([cpair(cnat(T.idx(l)), cq(F(v))) for l, v in fixes])
    coq = f"(mkCase {cnat(len(T))} {cf} {pairs})"
    fn = "check"
    if kind.startswith('cqm'):
        # the same observation plus the two code paths run on the raw index-level state
        coq = f"(mkCC {coq} {'true' if kind == 'cqm_copy' else 'false'} {fixed_idx} {raw_before} {raw_after})"
        fn = "ccheck"
    return {"coq": coq, "check_fn": fn, "py_fail": py_fail, "features": feats,
            "nontrivial": any(o["lin"] or o["quad"] for o in before),
            "observed": {"before": before, "after": after}}


if __name__ == "__main__":
    wlib.main(gen_case, run_case)
