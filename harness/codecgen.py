"""Shared by the C09 / C10 workers: model generators with rich label pools, exact model state
observers (`state_of`), Coq rendering of the file-level records of Model/Codec.v, loaders."""
import io
import json
import warnings
import zipfile
from fractions import Fraction

import numpy as np
import dimod
from dimod.serialization.fileview import load as fv_load

import gen
from gen import F


def enc_label(v):
    """label -> JSON-able; keeps tuples, NumPy scalar types and floats apart"""
    if isinstance(v, tuple):
        return {"t": [enc_label(x) for x in v]}
    if isinstance(v, np.integer):
        return {"np": type(v).__name__, "v": int(v)}
    if isinstance(v, np.floating):
        return {"np": type(v).__name__, "v": float(v)}
    return v


def dec_label(j):
    if isinstance(j, dict):
        if "np" in j:
            return getattr(np, j["np"])(j["v"])
        return tuple(dec_label(x) for x in j["t"])
    if isinstance(j, list):
        return tuple(dec_label(x) for x in j)
    return j

from wlib import clist, cpair

warnings.simplefilter("ignore")

# labels whose JSON text the Coq label codec models (ints, printable-ASCII strings, nested tuples)
MODELLED_LABELS = [0, 1, 2, 3, 5, 7, -1, -12, 10 ** 12, 255, 64,
                   'a', 'b', 'x0', 'a/b', '', 'q"uote', 'back\\slash', 'sp ace', '[', ', ', '17', ']"', '//',
                   ('t', 1), ('t', 2), (), ('a', ('b', 2)), (1,), ((),), ('x/y', -3), ('a', 'b', ('c', ('d',)))]
# labels the format accepts but whose JSON is outside the modelled subset (tie-only)
WILD_LABELS = [1.5, -0.25, 'é', 'tab\t', 'nl\n', 'ü/ß', ('f', 2.5), 0.001953125, 'del\x7f', '☃', ('é', 1), '\x01']
# labels that are numbers.Integral but not `int`, and integers beyond 2**53: the format stores them as JSON integers and
# they come back as Python ints of the same value
NP_SCALARS = [np.int64(123), np.int32(-7), np.uint8(200), np.int16(300), np.int64(2 ** 53 + 1), np.int64(2 ** 62 + 3),
              2 ** 53 + 3, -(2 ** 60) - 1]
NP_IN_TUPLES = [('n', np.int64(9)), (np.int8(-3), 'm'), ('big', np.int64(2 ** 53 + 5)), 2 ** 53 + 3]
NP_LABELS = NP_SCALARS + NP_IN_TUPLES[:3]
VT = gen.VT


def is_modelled_label(v):
    if isinstance(v, bool):
        return False
    if isinstance(v, (int, np.integer)):
        return True
    if isinstance(v, str):
        return all(32 <= ord(c) <= 126 for c in v)
    if isinstance(v, tuple):
        return all(is_modelled_label(x) for x in v)
    return False


def pick_labels(rng, n, wild_p=0.3, range_p=0.2, np_p=0.0):
    """n distinct labels. Sometimes exactly range(n), sometimes a permutation of small ints."""
    r = rng.random()
    if r < range_p:
        return list(range(n))
    if r < range_p + 0.08:
        p = list(range(n))
        rng.shuffle(p)
        return p
    pool = list(MODELLED_LABELS)
    if rng.random() < wild_p:
        pool += WILD_LABELS
    rng.shuffle(pool)
    out = pool[:n]
    if np_p and rng.random() < np_p:
        # replace some labels by NumPy-integer / very large integer labels.  A bare NumPy scalar label next to a tuple
        # label cannot be used: `u == v` inside add_quadratic is then an array (reported separately), so either bare
        # scalars without tuples, or NumPy integers inside tuples
        if rng.random() < 0.6:
            extra = list(NP_SCALARS)
            out = [('s%d' % i if isinstance(v, tuple) else v) for i, v in enumerate(out)]
        else:
            extra = list(NP_IN_TUPLES)
        rng.shuffle(extra)
        for i in range(len(out)):
            if extra and rng.random() < 0.6:
                out[i] = extra.pop()
    return out


def rand_desc(rng, labels, kinds=('BINARY', 'SPIN', 'INTEGER', 'REAL'), single_vartype=False, kmax=8, jmax=2,
              density=0.5, real_q=False):
    n = len(labels)
    if single_vartype:
        k = rng.choice(kinds)
        vts = [k] * n
    else:
        vts = [rng.choice(kinds) for _ in range(n)]
    vars_ = []
    for l, vt in zip(labels, vts):
        if vt == 'INTEGER':
            lb = rng.choice([0, 0, -3, 1]); ub = lb + rng.choice([1, 2, 5, 7])
        elif vt == 'REAL':
            lb = rng.choice([0, -2, -0.5]); ub = lb + rng.choice([1, 2.5, 4])
        elif vt == 'SPIN':
            lb, ub = -1, 1
        else:
            lb, ub = 0, 1
        vars_.append([enc_label(l), vt, lb, ub])
    lin = [[enc_label(l), str(Fraction(0) if rng.random() < 0.15 else rng.dyadic(kmax, jmax))] for l in labels]
    quad = []
    for i in range(n):
        for j in range(i, n):
            if i == j:
                if not (vts[i] == 'INTEGER' or (real_q and vts[i] == 'REAL')) or rng.random() > 0.4:
                    continue
            else:
                if rng.random() > density or (not real_q and 'REAL' in (vts[i], vts[j])):
                    continue
            b = rng.dyadic(kmax, jmax) if rng.random() > 0.1 else Fraction(0)
            u, v = (labels[i], labels[j]) if rng.random() < 0.5 else (labels[j], labels[i])
            quad.append([enc_label(u), enc_label(v), str(b)])
    off = rng.dyadic(kmax, jmax) if rng.random() < 0.7 else Fraction(0)
    d = {"vars": vars_, "lin": lin, "quad": quad, "off": str(off)}
    if real_q:
        d["real_interactions"] = True
    return d


class real_interactions:
    """context: dimod.REAL_INTERACTIONS switched on while a model with REAL quadratic terms is built"""

    def __init__(self, on):
        self.on = on

    def __enter__(self):
        self.old = dimod.REAL_INTERACTIONS
        if self.on:
            dimod.REAL_INTERACTIONS = True

    def __exit__(self, *a):
        dimod.REAL_INTERACTIONS = self.old


DTYPES = {'float64': np.float64, 'float32': np.float32, 'object': object}


def build_bqm(desc, dtype='float64'):
    vt = desc.get("vartype") or (desc["vars"][0][1] if desc["vars"] else "BINARY")
    bqm = dimod.BinaryQuadraticModel(VT[vt], dtype=DTYPES[dtype])
    for l, _, _, _ in desc["vars"]:
        bqm.add_variable(dec_label(l))
    for l, b in desc["lin"]:
        bqm.add_linear(dec_label(l), float(F(b)))
    for u, v, b in desc["quad"]:
        bqm.add_quadratic(dec_label(u), dec_label(v), float(F(b)))
    bqm.offset = float(F(desc["off"]))
    return bqm


def build_qm(desc, dtype='float64'):
    with real_interactions(desc.get("real_interactions")):
        qm = dimod.QuadraticModel(dtype=DTYPES[dtype])
        for l, vt, lb, ub in desc["vars"]:
            if vt in ('INTEGER', 'REAL'):
                qm.add_variable(vt, dec_label(l), lower_bound=lb, upper_bound=ub)
            else:
                qm.add_variable(vt, dec_label(l))
        for l, b in desc["lin"]:
            qm.add_linear(dec_label(l), float(F(b)))
        for u, v, b in desc["quad"]:
            qm.add_quadratic(dec_label(u), dec_label(v), float(F(b)))
        qm.offset = float(F(desc["off"]))
    return qm


def rand_cqm_desc(rng, nmax=4, cmax=3, wild_p=0.3, shaped_p=0.0, np_p=0.0, real_q_p=0.0):
    n = rng.randint(0, nmax)
    labels = pick_labels(rng, n, wild_p=wild_p, np_p=np_p)
    real_q = bool(real_q_p) and rng.random() < real_q_p
    base = rand_desc(rng, labels, kinds=('BINARY', 'SPIN', 'INTEGER', 'INTEGER', 'REAL'))
    allvars = base["vars"]

    def sub_expr(p_keep):
        # with REAL interactions enabled, each expression independently may or may not contain them
        real_here = real_q and rng.random() < 0.6
        keep = [v for v in allvars if rng.random() < p_keep]
        ks = {json.dumps(v[0], sort_keys=True) for v in keep}
        e = {"vars": keep, "lin": [[v[0], str(rng.dyadic(8, 2))] for v in keep if rng.random() < 0.8], "quad": [],
             "off": str(rng.dyadic(8, 2) if rng.random() < 0.6 else Fraction(0))}
        for i in range(len(keep)):
            for j in range(i, len(keep)):
                vi, vj = keep[i], keep[j]
                if i == j and not (vi[1] == 'INTEGER' or (real_here and vi[1] == 'REAL')):
                    continue
                if not real_here and 'REAL' in (vi[1], vj[1]):
                    continue
                if rng.random() < (0.6 if real_here and 'REAL' in (vi[1], vj[1]) else 0.35):
                    e["quad"].append([vi[0], vj[0], str(rng.dyadic(8, 2))])
        return e
    obj = sub_expr(0.8) if rng.random() < 0.85 else None
    cons = []
    pool = list(MODELLED_LABELS) + (WILD_LABELS if rng.random() < wild_p else []) + ['c0', 'c1', 'con/str/aint', 'constraints/x/lhs']
    if np_p and rng.random() < np_p:
        pool = pool[:6] + [l for l in NP_LABELS if not any(key(l) == key(x) for x in labels + pool[:6])]
    rng.shuffle(pool)
    for ci in range(rng.randint(0, cmax)):
        e = sub_expr(rng.choice([0.0, 0.5, 0.9]))        # 0.0: constant-only constraint
        e["label"] = enc_label(pool[ci])
        e["sense"] = rng.choice(['<=', '>=', '=='])
        e["rhs"] = str(rng.dyadic(8, 2))
        if rng.random() < 0.4:
            e["weight"] = str(abs(rng.dyadic(8, 1)) + 1)
            pen = rng.choice(['linear', 'quadratic'])
            if pen == 'quadratic' and any(v[1] not in ('BINARY', 'SPIN') for v in e["vars"]):
                pen = 'linear'
            e["penalty"] = pen
        cons.append(e)
    # discrete (one-hot) constraints over binary variables
    disc = []
    bins = [v for v in allvars if v[1] == 'BINARY']
    if len(bins) >= 2 and rng.random() < 0.4:
        disc.append({"label": enc_label(pool[cmax + 1]), "vars": [v[0] for v in bins[:rng.randint(2, len(bins))]]})
    d = {"allvars": allvars, "objective": obj, "constraints": cons, "discrete": disc}
    if real_q:
        d["real_interactions"] = True
    if shaped_p and rng.random() < shaped_p:
        add_shaped(rng, d, pool[cmax + 2:])
    return d


SHAPED_ROUTES = ['iterable', 'model', 'comparison', 'iterable_offset',      # one-hot shaped, never marked
                 'discrete_unmarked',                                       # add_discrete, then mark_discrete(False)
                 'marked_later',                                            # plain, then lhs.mark_discrete()
                 'discrete',                                                # add_discrete
                 'discrete_edited',                                         # add_discrete, then an edit of the lhs
                 'near_sum2', 'near_le', 'near_coeff', 'near_extra']        # almost one-hot


def add_shaped(rng, d, label_pool):
    """Constraints exercising the difference between the SHAPE of a constraint (sum of binaries == 1) and its
    discrete MARK: every combination the API can produce, over dedicated and shared binary variables."""
    allvars = d["allvars"]
    used = {json.dumps(v[0], sort_keys=True) for v in allvars}
    ints = all(type(v[0]) is int for v in allvars) and [v[0] for v in allvars] == list(range(len(allvars)))
    k = rng.randint(2, 6)
    fresh = []
    for i in range(k):
        lab = (len(allvars) if ints else ('oh', i))
        if json.dumps(enc_label(lab), sort_keys=True) in used:
            lab = ('oh', 'x', i)
        allvars.append([enc_label(lab), 'BINARY', 0, 1])
        fresh.append(enc_label(lab))
    marked_used = {json.dumps(v, sort_keys=True) for dd in d["discrete"] for v in dd["vars"]}
    bins = [v[0] for v in allvars if v[1] == 'BINARY']
    items = []
    taken = {json.dumps(e["label"], sort_keys=True) for e in d["constraints"]} | \
            {json.dumps(dd["label"], sort_keys=True) for dd in d["discrete"]}
    labels = [l for l in label_pool if json.dumps(enc_label(l), sort_keys=True) not in taken]
    for j in range(rng.randint(1, 4)):
        if j >= len(labels):
            break
        route = rng.choice(SHAPED_ROUTES)
        will_mark = route in ('marked_later', 'discrete', 'discrete_unmarked', 'discrete_edited')
        cand = [v for v in bins if not (will_mark and json.dumps(v, sort_keys=True) in marked_used)]
        if len(cand) < 2:
            continue
        vs = rng.sample(cand, rng.randint(2, min(4, len(cand))))
        if will_mark:
            marked_used |= {json.dumps(v, sort_keys=True) for v in vs}
        it = {"label": enc_label(labels[j]), "vars": vs, "route": route}
        if route == 'near_extra':
            others = [v[0] for v in allvars if v[1] != 'BINARY']
            if not others:
                it["route"] = 'near_coeff'
            else:
                it["extra"] = rng.choice(others)
        items.append(it)
    d["shaped"] = items


def apply_shaped(cqm, items):
    for it in items:
        lab = dec_label(it["label"])
        vs = [dec_label(v) for v in it["vars"]]
        r = it["route"]
        if r == 'iterable':
            cqm.add_constraint_from_iterable([(v, 1) for v in vs], '==', 1, label=lab)
        elif r == 'iterable_offset':
            cqm.add_constraint_from_iterable([(v, 1) for v in vs] + [(-1,)], '==', 0, label=lab)
        elif r == 'model':
            qm = dimod.QuadraticModel()
            for v in vs:
                qm.add_variable('BINARY', v)
                qm.set_linear(v, 1)
            cqm.add_constraint_from_model(qm, '==', 1, label=lab)
        elif r == 'comparison':
            cqm.add_constraint(sum(dimod.Binary(v) for v in vs) == 1, label=lab)
        elif r in ('discrete', 'discrete_unmarked', 'discrete_edited'):
            cqm.add_discrete(vs, label=lab)
            if r == 'discrete_unmarked':
                cqm.constraints[lab].lhs.mark_discrete(False)
            elif r == 'discrete_edited':
                cqm.constraints[lab].lhs.set_linear(vs[0], 2.0)
        elif r == 'marked_later':
            cqm.add_constraint_from_iterable([(v, 1) for v in vs], '==', 1, label=lab)
            cqm.constraints[lab].lhs.mark_discrete()
        elif r == 'near_sum2':
            cqm.add_constraint_from_iterable([(v, 1) for v in vs], '==', 2, label=lab)
        elif r == 'near_le':
            cqm.add_constraint_from_iterable([(v, 1) for v in vs], '<=', 1, label=lab)
        elif r == 'near_coeff':
            cqm.add_constraint_from_iterable([(v, 2 if i == 0 else 1) for i, v in enumerate(vs)], '==', 1, label=lab)
        elif r == 'near_extra':
            cqm.add_constraint_from_iterable([(v, 1) for v in vs] + [(dec_label(it["extra"]), 1)], '==', 1, label=lab)
        else:
            raise ValueError(r)


def _expr_qm(c, e):
    e = dict(e)
    if c.get("real_interactions"):
        e["real_interactions"] = True
    return build_qm(e)


def build_cqm(c):
    with real_interactions(c.get("real_interactions")):
        return _build_cqm(c)


def _build_cqm(c):
    cqm = dimod.ConstrainedQuadraticModel()
    for l, vt, lb, ub in c["allvars"]:
        if vt in ('INTEGER', 'REAL'):
            cqm.add_variable(vt, dec_label(l), lower_bound=lb, upper_bound=ub)
        else:
            cqm.add_variable(vt, dec_label(l))
    if c["objective"] is not None:
        cqm.set_objective(_expr_qm(c, c["objective"]))
    for e in c["constraints"]:
        kw = {}
        if "weight" in e:
            kw = dict(weight=float(F(e["weight"])), penalty=e["penalty"])
        cqm.add_constraint_from_model(_expr_qm(c, e), e["sense"], rhs=float(F(e["rhs"])), label=dec_label(e["label"]), **kw)
    for d in c["discrete"]:
        cqm.add_discrete([dec_label(v) for v in d["vars"]], label=dec_label(d["label"]))
    apply_shaped(cqm, c.get("shaped", []))
    return cqm


def rand_dqm_desc(rng, nmax=4, wild_p=0.3, np_p=0.0):
    n = rng.randint(0, nmax)
    labels = pick_labels(rng, n, wild_p=wild_p, np_p=np_p)
    vars_ = [[enc_label(l), rng.randint(1, 3)] for l in labels]
    lin = [[v[0], k, str(rng.dyadic(8, 2))] for v in vars_ for k in range(v[1]) if rng.random() < 0.7]
    quad = []
    for i in range(n):
        for j in range(i + 1, n):
            if rng.random() < 0.5:
                for a in range(vars_[i][1]):
                    for b in range(vars_[j][1]):
                        if rng.random() < 0.5:
                            quad.append([vars_[i][0], a, vars_[j][0], b, str(rng.dyadic(8, 2))])
    return {"vars": vars_, "lin": lin, "quad": quad, "off": str(rng.dyadic(8, 2) if rng.random() < 0.5 else Fraction(0))}


def build_dqm(d, cls=None):
    dqm = (cls or dimod.DiscreteQuadraticModel)()
    for l, k in d["vars"]:
        dqm.add_variable(k, label=dec_label(l))
    for l, k, b in d["lin"]:
        dqm.set_linear_case(dec_label(l), k, float(F(b)))
    for u, a, v, b, bias in d["quad"]:
        dqm.set_quadratic_case(dec_label(u), a, dec_label(v), b, float(F(bias)))
    dqm.offset = float(F(d["off"]))
    return dqm


# ------------------------------------------------------------------------------------------------
# exact state
# ------------------------------------------------------------------------------------------------

def tl(v):
    """typed label: distinguishes 1 / 1.0 / True / '1' / numpy scalars, tuples vs lists"""
    if isinstance(v, bool):
        return ['bool', v]
    # what the format stores: numbers.Integral -> JSON integer, other numbers -> JSON float; a loaded label is compared
    # with the Python value the original label denotes (type-aware: 5 and 5.0 differ)
    if isinstance(v, np.integer):
        return ['i', str(int(v))]
    if isinstance(v, np.floating):
        return ['f', repr(float(v))]
    if isinstance(v, int):
        return ['i', str(v)]
    if isinstance(v, float):
        return ['f', repr(v)]
    if isinstance(v, str):
        return ['s', v]
    if isinstance(v, tuple):
        return ['t', [tl(x) for x in v]]
    return [type(v).__name__, repr(v)]


def fx(x):
    return str(F(x))


def key(v):
    return json.dumps(tl(v), sort_keys=True)


def expr_state(m, with_vars=True):
    lin = {key(v): fx(b) for v, b in m.linear.items()}
    quad = {}
    for (u, v), b in m.quadratic.items():
        k = json.dumps(sorted([key(u), key(v)]))
        quad[k] = fx(b)
    s = {"lin": lin, "quad": quad, "off": fx(m.offset)}
    if with_vars:
        s["vars"] = [tl(v) for v in m.variables]
    return s


def state_of(m):
    """JSON-able exact state; two models are 'the same model' iff their states are equal."""
    if isinstance(m, (dimod.BinaryQuadraticModel, dimod.QuadraticModel)):
        _idx = {key(v): i for i, v in enumerate(m.variables)}
        _nbh = [[[_idx[key(u)], fx(b)] for u, b in m.iter_neighborhood(v)] for v in m.variables]
    if isinstance(m, dimod.BinaryQuadraticModel):
        s = expr_state(m)
        s["nbh"] = _nbh
        s.update(type="BQM", dtype=np.dtype(m.dtype).name, vartype=m.vartype.name)
        return s
    if isinstance(m, dimod.QuadraticModel):
        s = expr_state(m)
        s["nbh"] = _nbh
        s.update(type="QM", dtype=np.dtype(m.dtype).name,
                 vinfo=[[m.vartype(v).name, fx(m.lower_bound(v)), fx(m.upper_bound(v))] for v in m.variables])
        return s
    if isinstance(m, dimod.ConstrainedQuadraticModel):
        s = {"type": "CQM", "vars": [tl(v) for v in m.variables],
             "vinfo": [[m.vartype(v).name, fx(m.lower_bound(v)), fx(m.upper_bound(v))] for v in m.variables],
             "objective": expr_state(m.objective, with_vars=False), "constraints": {}}
        s["objective"]["vars"] = sorted(key(v) for v in m.objective.variables)
        for lab, c in m.constraints.items():
            e = expr_state(c.lhs, with_vars=False)
            e["vars"] = sorted(key(v) for v in c.lhs.variables)
            w = c.lhs.weight()
            e.update(sense=c.sense.value, rhs=fx(c.rhs), soft=bool(c.lhs.is_soft()),
                     weight=None if w == float('inf') else fx(w),
                     penalty=c.lhs.penalty() if c.lhs.is_soft() else None,
                     discrete=bool(c.lhs.is_discrete()), in_discrete=lab in m.discrete,
                     onehot=bool(c.lhs.is_onehot()))
            s["constraints"][key(lab)] = e
        s["n_constraints"] = len(m.constraints)
        return s
    if isinstance(m, dimod.DiscreteQuadraticModel):
        s = {"type": "DQM", "vars": [tl(v) for v in m.variables], "cases": [int(m.num_cases(v)) for v in m.variables],
             "lin": [[fx(x) for x in m.get_linear(v)] for v in m.variables], "quad": {}, "off": fx(m.offset)}
        vs = list(m.variables)
        for i, u in enumerate(vs):
            for j in range(i):
                v = vs[j]
                try:
                    q = m.get_quadratic(u, v)
                except Exception:
                    continue
                if q:
                    s["quad"][f"{i},{j}"] = sorted([int(a), int(b), fx(x)] for (a, b), x in q.items())
        return s
    raise TypeError(type(m))


def relabelled_state(s, n):
    """expected state after a round trip with ignore_labels=True (BQM / DQM)"""
    s = json.loads(json.dumps(s))
    old = [json.dumps(v, sort_keys=True) for v in s["vars"]]
    new = [tl(i) for i in range(n)]
    mp = {o: json.dumps(nw, sort_keys=True) for o, nw in zip(old, new)}
    s["vars"] = new
    if isinstance(s.get("lin"), dict):
        s["lin"] = {mp[k]: b for k, b in s["lin"].items()}
        s["quad"] = {json.dumps(sorted(mp[x] for x in json.loads(k))): b for k, b in s["quad"].items()}
    return s


def diff_state(a, b, path=""):
    """first difference between two states, as text (None when equal)"""
    if type(a) != type(b):
        return f"{path}: {a!r} != {b!r}"
    if isinstance(a, dict):
        for k in sorted(set(a) | set(b)):
            if k not in a or k not in b:
                return f"{path}/{k}: present on one side only ({a.get(k)!r} vs {b.get(k)!r})"
            d = diff_state(a[k], b[k], path + "/" + str(k))
            if d:
                return d
        return None
    if isinstance(a, list):
        if len(a) != len(b):
            return f"{path}: lengths {len(a)} != {len(b)} ({a!r} vs {b!r})"
        for i, (x, y) in enumerate(zip(a, b)):
            d = diff_state(x, y, f"{path}[{i}]")
            if d:
                return d
        return None
    return None if a == b else f"{path}: {a!r} != {b!r}"


LOADERS = {
    'bqm': dimod.BinaryQuadraticModel.from_file,
    'qm': dimod.QuadraticModel.from_file,
    'cqm': dimod.ConstrainedQuadraticModel.from_file,
    'dqm': dimod.DiscreteQuadraticModel.from_file,
}


def load_as(kind, data, how='bytes'):
    """how: bytes | bytearray | memoryview | file | load_bytes | load_file"""
    if how in ('bytes', 'load_bytes'):
        src = bytes(data)
    elif how == 'bytearray':
        src = bytearray(data)
    elif how == 'memoryview':
        src = memoryview(bytes(data))
    else:
        src = io.BytesIO(bytes(data))
    if how.startswith('load'):
        return fv_load(src)
    return LOADERS[kind](src)


# ------------------------------------------------------------------------------------------------
# Coq rendering
# ------------------------------------------------------------------------------------------------

def cbytes(b):
    return "[" + ";".join(str(x) for x in bytes(b)) + "]%N"


def cN(n):
    return f"{int(n)}%N"


def clabel(v):
    if isinstance(v, (int, np.integer)):
        v = int(v)
        return f"(LInt ({v})%Z)"
    if isinstance(v, str):
        return f"(LStr {cbytes(v.encode('ascii'))})"
    return "(LTup " + clist([clabel(x) for x in v]) + ")"


def clabels(ls):
    return "None" if ls is None else "(Some " + clist([clabel(x) for x in ls]) + ")"


def is_range(labels):
    return all(type(v) is int and v == i for i, v in enumerate(labels))


def fdt(m):
    dt = np.dtype(m.dtype)
    return np.dtype(np.float64) if dt == np.dtype(object) else dt


def cdtype(dt):
    return {'float32': 'F32', 'float64': 'F64'}[np.dtype(dt).name]


def bqm_file_term(bqm, version, ignore_labels):
    """Coq `bqmfile` for the observed state of `bqm` as `to_file(version, ignore_labels)` should write it"""
    dt = fdt(bqm)
    t = dt.type
    vs = list(bqm.variables)
    idx = {key(v): i for i, v in enumerate(vs)}
    lin = clist([cbytes(t(bqm.get_linear(v)).tobytes()) for v in vs])
    adj = clist([clist([cpair(cN(idx[key(u)]), cbytes(t(b).tobytes())) for u, b in bqm.iter_neighborhood(v)]) for v in vs])
    if version == 1:
        labels = (list(range(len(vs))) if ignore_labels else vs) if vs else None
    else:
        labels = None if (ignore_labels or is_range(vs)) else vs
    return (f"(mkBqmFile ({cN(version)}, 0%N) {cdtype(dt)} {'BSPIN' if bqm.vartype is dimod.SPIN else 'BBINARY'} "
            f"{cN(bqm.num_interactions)} {cbytes(t(bqm.offset).tobytes())} {lin} {adj} {clabels(labels)})")


def full_adj_term(m):
    """Coq list (list (N * bytes)): every neighbourhood of m in iteration order"""
    t = fdt(m).type
    vs = list(m.variables)
    idx = {key(v): i for i, v in enumerate(vs)}
    return clist([clist([cpair(cN(idx[key(u)]), cbytes(t(b).tobytes())) for u, b in m.iter_neighborhood(v)]) for v in vs])


def neig_term(qm):
    t = fdt(qm).type
    vs = list(qm.variables)
    idx = {key(v): i for i, v in enumerate(vs)}
    return clist([clist([cpair(cN(idx[key(u)]), cbytes(t(b).tobytes())) for u, b in qm.iter_neighborhood(v)
                         if idx[key(u)] <= i]) for i, v in enumerate(vs)])


def qm_file_term(qm):
    dt = fdt(qm)
    t = dt.type
    vs = list(qm.variables)
    idx = {key(v): i for i, v in enumerate(vs)}
    vinfo = clist([f"(VT_{qm.vartype(v).name}, ({cbytes(t(qm.lower_bound(v)).tobytes())}, {cbytes(t(qm.upper_bound(v)).tobytes())}))"
                   for v in vs])
    lin = clist([cbytes(t(qm.get_linear(v)).tobytes()) for v in vs])
    neig = clist([clist([cpair(cN(idx[key(u)]), cbytes(t(b).tobytes())) for u, b in qm.iter_neighborhood(v)
                         if idx[key(u)] <= i]) for i, v in enumerate(vs)])
    labels = None if is_range(vs) else vs
    return (f"(mkQmFile {cdtype(dt)} {cN(qm.num_interactions)} {vinfo} {cbytes(t(qm.offset).tobytes())} {lin} {neig} "
            f"{clabels(labels)})")


def expr_file_term(expr, parent_vars):
    """expression view of a CQM (objective or constraint lhs)"""
    t = np.float64
    vs = list(expr.variables)
    pidx = {key(v): i for i, v in enumerate(parent_vars)}
    loc = {key(v): i for i, v in enumerate(vs)}
    idx = clist([cN(pidx[key(v)]) for v in vs])
    lin = clist([cbytes(t(expr.get_linear(v)).tobytes()) for v in vs])
    quads = []
    for u, v, b in expr.iter_quadratic():
        a, c = loc[key(u)], loc[key(v)]
        quads.append((max(a, c), min(a, c), b))
    quads.sort(key=lambda q: (q[0], q[1]))
    quad = clist([f"({cN(a)}, ({cN(c)}, {cbytes(t(b).tobytes())}))" for a, c, b in quads])
    return (f"(mkExprFile F64 {cbytes(type(expr).__name__.encode())} {idx} {cbytes(t(expr.offset).tobytes())} "
            f"{lin} {quad})")


def cqm_header_len(cqm_bytes):
    from dimod.serialization.fileview import read_header
    f = io.BytesIO(cqm_bytes)
    read_header(f, b'DIMODCQM')
    return f.tell()


def cut_member(cqm_bytes, member, k):
    """the same CQM file with a VALID zip container in which `member` holds only its first k bytes"""
    h = cqm_header_len(cqm_bytes)
    out = io.BytesIO()
    out.write(cqm_bytes[:h])
    with zipfile.ZipFile(io.BytesIO(cqm_bytes)) as zin, zipfile.ZipFile(out, mode='a') as zout:
        for info in zin.infolist():
            data = zin.read(info.filename)
            if info.filename == member:
                data = data[:k]
            zout.writestr(info.filename, data, compress_type=info.compress_type)
    return out.getvalue()


def zip_members(cqm_bytes):
    with zipfile.ZipFile(io.BytesIO(cqm_bytes)) as zf:
        return {n: zf.read(n) for n in zf.namelist()}
