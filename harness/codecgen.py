"""Shared by the C09 / C10 workers: model generators with rich label pools, exact model state
observers (`state_of`), Coq rendering of the file-level records of Model/Codec.v, loaders."""
import io
import json
import warnings
import zipfile
from fractions import Fraction

import numpy as np
import dimod
from dimod.serialization.fileview import load as fv_load

import gen
from gen import F


def enc_label(v):
    """label -> JSON-able; keeps tuples, NumPy scalar types and floats apart"""
    if isinstance(v, tuple):
        return {"t": [enc_label(x) for x in v]}
    if isinstance(v, np.integer):
        return {"np": type(v).__name__, "v": int(v)}
    if isinstance(v, np.floating):
        return {"np": type(v).__name__, "v": float(v)}
    return v


def dec_label(j):
    if isinstance(j, dict):
        if "np" in j:
            return getattr(np, j["np"])(j["v"])
        return tuple(dec_label(x) for x in j["t"])
    if isinstance(j, list):
        return tuple(dec_label(x) for x in j)
    return j

from wlib import clist, cpair

warnings.simplefilter("ignore")

# labels whose JSON text the Coq label codec models (ints, printable-ASCII strings, nested tuples)
MODELLED_LABELS = [0, 1, 2, 3, 5, 7, -1, -12, 10 ** 12, 255, 64,
                   'a', 'b', 'x0', 'a/b', '', 'q"uote', 'back\\slash', 'sp ace', '[', ', ', '17', ']"', '//',
                   ('t', 1), ('t', 2), (), ('a', ('b', 2)), (1,), ((),), ('x/y', -3), ('a', 'b', ('c', ('d',)))]
# labels the format accepts but whose JSON is outside the modelled subset (tie-only)
WILD_LABELS = [1.5, -0.25, 'é', 'tab\t', 'nl\n', 'ü/ß', ('f', 2.5), 0.001953125, 'del\x7f', '☃', ('é', 1), '\x01']
# labels that are numbers.Integral but not `int`, and integers beyond 2**53: the format stores them as JSON integers and
# they come back as Python ints of the same value
NP_SCALARS = [np.int64(123), np.int32(-7), np.uint8(200), np.int16(300), np.int64(2 ** 53 + 1), np.int64(2 ** 62 + 3),
              2 ** 53 + 3, -(2 ** 60) - 1]
NP_IN_TUPLES = [('n', np.int64(9)), (np.int8(-3), 'm'), ('big', np.int64(2 ** 53 + 5)), 2 ** 53 + 3]
NP_LABELS = NP_SCALARS + NP_IN_TUPLES[:3]
VT = gen.VT


def is_modelled_label(v):
    if isinstance(v, bool):
        return False
    if isinstance(v, (int, np.integer)):
        return True
    if isinstance(v, str):
        return all(32 <= ord(c) <= 126 for c in v)
    if isinstance(v, tuple):
        return all(is_modelled_label(x) for x in v)
    return False


def pick_labels(rng, n, wild_p=0.3, range_p=0.2, np_p=0.0, idx_p=0.0):
    """n distinct labels. Sometimes exactly range(n), sometimes a permutation of small ints."""
    r = rng.random()
    if r < range_p:
        return list(range(n))
    if r < range_p + 0.08:
        p = list(range(n))
        rng.shuffle(p)
        return p
    if n and r < range_p + 0.08 + idx_p:
        # labels that LOOK like the index labelling without being it: the fast paths keyed on `is_range`
        # (no VARS section / no variable_labels.json) must not swallow them
        # (a FLOAT label equal to its own index is not generated: Variables stores it as the index label - 2.0 == 2 and
        # hash(2.0) == hash(2) - so the saved model already has the int label, except for dtype=object BQMs where the
        # label comes back as int 2: equal as a dictionary key, reported as an observation, not a violation)
        mode = rng.choice(['gap', 'tail_str', 'np_idx', 'shift', 'swap2', 'float_off'])
        out = list(range(n))
        if mode == 'float_off':
            out = [i + 0.5 for i in out]
        elif mode == 'gap':
            out[-1] = n
        elif mode == 'tail_str':
            out[-1] = str(n - 1)
        elif mode == 'np_idx':
            out = [np.int64(i) for i in out]
        elif mode == 'shift':
            out = [i + 1 for i in out]
        elif n >= 2:
            out[0], out[1] = out[1], out[0]
        return out
    pool = list(MODELLED_LABELS)
    if rng.random() < wild_p:
        pool += WILD_LABELS
    rng.shuffle(pool)
    out = pool[:n]
    if np_p and rng.random() < np_p:
        # replace some labels by NumPy-integer / very large integer labels.  A bare NumPy scalar label next to a tuple
        # label cannot be used: `u == v` inside add_quadratic is then an array (reported separately), so either bare
        # scalars without tuples, or NumPy integers inside tuples
        if rng.random() < 0.6:
            extra = list(NP_SCALARS)
            out = [('s%d' % i if isinstance(v, tuple) else v) for i, v in enumerate(out)]
        else:
            extra = list(NP_IN_TUPLES)
        rng.shuffle(extra)
        for i in range(len(out)):
            if extra and rng.random() < 0.6:
                out[i] = extra.pop()
    return out


def rand_desc(rng, labels, kinds=('BINARY', 'SPIN', 'INTEGER', 'REAL'), single_vartype=False, kmax=8, jmax=2,
              density=0.5, real_q=False):
    n = len(labels)
    if single_vartype:
        k = rng.choice(kinds)
        vts = [k] * n
    else:
        vts = [rng.choice(kinds) for _ in range(n)]
    vars_ = []
    for l, vt in zip(labels, vts):
        if vt == 'INTEGER':
            lb = rng.choice([0, 0, -3, 1]); ub = lb + rng.choice([1, 2, 5, 7])
        elif vt == 'REAL':
            lb = rng.choice([0, -2, -0.5]); ub = lb + rng.choice([1, 2.5, 4])
        elif vt == 'SPIN':
            lb, ub = -1, 1
        else:
            lb, ub = 0, 1
        vars_.append([enc_label(l), vt, lb, ub])
    lin = [[enc_label(l), str(Fraction(0) if rng.random() < 0.15 else rng.dyadic(kmax, jmax))] for l in labels]
    quad = []
    for i in range(n):
        for j in range(i, n):
            if i == j:
                if not (vts[i] == 'INTEGER' or (real_q and vts[i] == 'REAL')) or rng.random() > 0.4:
                    continue
            else:
                if rng.random() > density or (not real_q and 'REAL' in (vts[i], vts[j])):
                    continue
            b = rng.dyadic(kmax, jmax) if rng.random() > 0.1 else Fraction(0)
            u, v = (labels[i], labels[j]) if rng.random() < 0.5 else (labels[j], labels[i])
            quad.append([enc_label(u), enc_label(v), str(b)])
    off = rng.dyadic(kmax, jmax) if rng.random() < 0.7 else Fraction(0)
    d = {"vars": vars_, "lin": lin, "quad": quad, "off": str(off)}
    if real_q:
        d["real_interactions"] = True
    return d


class real_interactions:
    """context: dimod.REAL_INTERACTIONS switched on while a model with REAL quadratic terms is built"""

    def __init__(self, on):
        self.on = on

    def __enter__(self):
        self.old = dimod.REAL_INTERACTIONS
        if self.on:
            dimod.REAL_INTERACTIONS = True

    def __exit__(self, *a):
        dimod.REAL_INTERACTIONS = self.old


DTYPES = {'float64': np.float64, 'float32': np.float32, 'object': object}


def build_bqm(desc, dtype='float64'):
    vt = desc.get("vartype") or (desc["vars"][0][1] if desc["vars"] else "BINARY")
    bqm = dimod.BinaryQuadraticModel(VT[vt], dtype=DTYPES[dtype])
    for l, _, _, _ in desc["vars"]:
        bqm.add_variable(dec_label(l))
    for l, b in desc["lin"]:
        bqm.add_linear(dec_label(l), float(F(b)))
    for u, v, b in desc["quad"]:
        bqm.add_quadratic(dec_label(u), dec_label(v), float(F(b)))
    bqm.offset = float(F(desc["off"]))
    return bqm


def build_qm(desc, dtype='float64'):
    with real_interactions(desc.get("real_interactions")):
        qm = dimod.QuadraticModel(dtype=DTYPES[dtype])
        for l, vt, lb, ub in desc["vars"]:
            if vt in ('INTEGER', 'REAL'):
                qm.add_variable(vt, dec_label(l), lower_bound=lb, upper_bound=ub)
            else:
                qm.add_variable(vt, dec_label(l))
        for l, b in desc["lin"]:
            qm.add_linear(dec_label(l), float(F(b)))
        for u, v, b in desc["quad"]:
            qm.add_quadratic(dec_label(u), dec_label(v), float(F(b)))
        qm.offset = float(F(desc["off"]))
    return qm


def rand_cqm_desc(rng, nmax=4, cmax=3, wild_p=0.3, shaped_p=0.0, np_p=0.0, real_q_p=0.0, idx_p=0.0):
    n = rng.randint(0, nmax)
    labels = pick_labels(rng, n, wild_p=wild_p, np_p=np_p, idx_p=idx_p)
    real_q = bool(real_q_p) and rng.random() < real_q_p
    base = rand_desc(rng, labels, kinds=('BINARY', 'SPIN', 'INTEGER', 'INTEGER', 'REAL'))
    allvars = base["vars"]

    def sub_expr(p_keep):
        # with REAL interactions enabled, each expression independently may or may not contain them
        real_here = real_q and rng.random() < 0.6
        keep = [v for v in allvars if rng.random() < p_keep]
        ks = {json.dumps(v[0], sort_keys=True) for v in keep}
        e = {"vars": keep, "lin": [[v[0], str(rng.dyadic(8, 2))] for v in keep if rng.random() < 0.8], "quad": [],
             "off": str(rng.dyadic(8, 2) if rng.random() < 0.6 else Fraction(0))}
        for i in range(len(keep)):
            for j in range(i, len(keep)):
                vi, vj = keep[i], keep[j]
                if i == j and not (vi[1] == 'INTEGER' or (real_here and vi[1] == 'REAL')):
                    continue
                if not real_here and 'REAL' in (vi[1], vj[1]):
                    continue
                if rng.random() < (0.6 if real_here and 'REAL' in (vi[1], vj[1]) else 0.35):
                    e["quad"].append([vi[0], vj[0], str(rng.dyadic(8, 2))])
        return e
    obj = sub_expr(0.8) if rng.random() < 0.85 else None
    cons = []
    pool = list(MODELLED_LABELS) + (WILD_LABELS if rng.random() < wild_p else []) + ['c0', 'c1', 'con/str/aint', 'constraints/x/lhs']
    if np_p and rng.random() < np_p:
        pool = pool[:6] + [l for l in NP_LABELS if not any(key(l) == key(x) for x in labels + pool[:6])]
    rng.shuffle(pool)
    for ci in range(rng.randint(0, cmax)):
        e = sub_expr(rng.choice([0.0, 0.5, 0.9]))        # 0.0: constant-only constraint
        e["label"] = enc_label(pool[ci])
        e["sense"] = rng.choice(['<=', '>=', '=='])
        e["rhs"] = str(rng.dyadic(8, 2))
        if rng.random() < 0.4:
            e["weight"] = str(abs(rng.dyadic(8, 1)) + 1)
            pen = rng.choice(['linear', 'quadratic'])
            if pen == 'quadratic' and any(v[1] not in ('BINARY', 'SPIN') for v in e["vars"]):
                pen = 'linear'
            e["penalty"] = pen
        cons.append(e)
    # discrete (one-hot) constraints over binary variables
    disc = []
    bins = [v for v in allvars if v[1] == 'BINARY']
    if len(bins) >= 2 and rng.random() < 0.4:
        disc.append({"label": enc_label(pool[cmax + 1]), "vars": [v[0] for v in bins[:rng.randint(2, len(bins))]]})
    d = {"allvars": allvars, "objective": obj, "constraints": cons, "discrete": disc}
    if real_q:
        d["real_interactions"] = True
    if shaped_p and rng.random() < shaped_p:
        add_shaped(rng, d, pool[cmax + 2:])
    return d


SHAPED_ROUTES = ['iterable', 'model', 'comparison', 'iterable_offset',      # one-hot shaped, never marked
                 'discrete_unmarked',                                       # add_discrete, then mark_discrete(False)
                 'marked_later',                                            # plain, then lhs.mark_discrete()
                 'discrete',                                                # add_discrete
                 'discrete_edited',                                         # add_discrete, then an edit of the lhs
                 'discrete_soft', 'discrete_soft',                          # add_discrete, then lhs.set_weight(w, penalty): marked AND soft (r6 C09 m3)
                 'near_sum2', 'near_le', 'near_coeff', 'near_extra']        # almost one-hot


def add_shaped(rng, d, label_pool):
    """Constraints exercising the difference between the SHAPE of a constraint (sum of binaries == 1) and its
    discrete MARK: every combination the API can produce, over dedicated and shared binary variables."""
    allvars = d["allvars"]
    used = {json.dumps(v[0], sort_keys=True) for v in allvars}
    ints = all(type(v[0]) is int for v in allvars) and [v[0] for v in allvars] == list(range(len(allvars)))
    k = rng.randint(2, 6)
    fresh = []
    for i in range(k):
        lab = (len(allvars) if ints else ('oh', i))
        if json.dumps(enc_label(lab), sort_keys=True) in used:
            lab = ('oh', 'x', i)
        allvars.append([enc_label(lab), 'BINARY', 0, 1])
        fresh.append(enc_label(lab))
    marked_used = {json.dumps(v, sort_keys=True) for dd in d["discrete"] for v in dd["vars"]}
    bins = [v[0] for v in allvars if v[1] == 'BINARY']
    items = []
    taken = {json.dumps(e["label"], sort_keys=True) for e in d["constraints"]} | \
            {json.dumps(dd["label"], sort_keys=True) for dd in d["discrete"]}
    labels = [l for l in label_pool if json.dumps(enc_label(l), sort_keys=True) not in taken]
    for j in range(rng.randint(1, 4)):
        if j >= len(labels):
            break
        route = rng.choice(SHAPED_ROUTES)
        will_mark = route in ('marked_later', 'discrete', 'discrete_unmarked', 'discrete_edited', 'discrete_soft')
        cand = [v for v in bins if not (will_mark and json.dumps(v, sort_keys=True) in marked_used)]
        if len(cand) < 2:
            continue
        vs = rng.sample(cand, rng.randint(2, min(4, len(cand))))
        if will_mark:
            marked_used |= {json.dumps(v, sort_keys=True) for v in vs}
        it = {"label": enc_label(labels[j]), "vars": vs, "route": route}
        if route == 'near_extra':
            others = [v[0] for v in allvars if v[1] != 'BINARY']
            if not others:
                it["route"] = 'near_coeff'
            else:
                it["extra"] = rng.choice(others)
        items.append(it)
    d["shaped"] = items


def apply_shaped(cqm, items):
    for it in items:
        lab = dec_label(it["label"])
        vs = [dec_label(v) for v in it["vars"]]
        r = it["route"]
        if r == 'iterable':
            cqm.add_constraint_from_iterable([(v, 1) for v in vs], '==', 1, label=lab)
        elif r == 'iterable_offset':
            cqm.add_constraint_from_iterable([(v, 1) for v in vs] + [(-1,)], '==', 0, label=lab)
        elif r == 'model':
            qm = dimod.QuadraticModel()
            for v in vs:
                qm.add_variable('BINARY', v)
                qm.set_linear(v, 1)
            cqm.add_constraint_from_model(qm, '==', 1, label=lab)
        elif r == 'comparison':
            cqm.add_constraint(sum(dimod.Binary(v) for v in vs) == 1, label=lab)
        elif r in ('discrete', 'discrete_unmarked', 'discrete_edited', 'discrete_soft'):
            cqm.add_discrete(vs, label=lab)
            if r == 'discrete_soft':
                cqm.constraints[lab].lhs.set_weight(1.5 + len(vs), penalty='quadratic' if len(vs) % 2 else 'linear')
            if r == 'discrete_unmarked':
                cqm.constraints[lab].lhs.mark_discrete(False)
            elif r == 'discrete_edited':
                cqm.constraints[lab].lhs.set_linear(vs[0], 2.0)
        elif r == 'marked_later':
            cqm.add_constraint_from_iterable([(v, 1) for v in vs], '==', 1, label=lab)
            cqm.constraints[lab].lhs.mark_discrete()
        elif r == 'near_sum2':
            cqm.add_constraint_from_iterable([(v, 1) for v in vs], '==', 2, label=lab)
        elif r == 'near_le':
            cqm.add_constraint_from_iterable([(v, 1) for v in vs], '<=', 1, label=lab)
        elif r == 'near_coeff':
            cqm.add_constraint_from_iterable([(v, 2 if i == 0 else 1) for i, v in enumerate(vs)], '==', 1, label=lab)
        elif r == 'near_extra':
            cqm.add_constraint_from_iterable([(v, 1) for v in vs] + [(dec_label(it["extra"]), 1)], '==', 1, label=lab)
        else:
            raise ValueError(r)


def _expr_qm(c, e):
    e = dict(e)
    if c.get("real_interactions"):
        e["real_interactions"] = True
    return build_qm(e)


def build_cqm(c):
    with real_interactions(c.get("real_interactions")):
        return _build_cqm(c)


def _build_cqm(c):
    cqm = dimod.ConstrainedQuadraticModel()
    for l, vt, lb, ub in c["allvars"]:
        if vt in ('INTEGER', 'REAL'):
            cqm.add_variable(vt, dec_label(l), lower_bound=lb, upper_bound=ub)
        else:
            cqm.add_variable(vt, dec_label(l))
    if c["objective"] is not None:
        cqm.set_objective(_expr_qm(c, c["objective"]))
    for e in c["constraints"]:
        kw = {}
        if "weight" in e:
            kw = dict(weight=float(F(e["weight"])), penalty=e["penalty"])
        cqm.add_constraint_from_model(_expr_qm(c, e), e["sense"], rhs=float(F(e["rhs"])), label=dec_label(e["label"]), **kw)
    for d in c["discrete"]:
        cqm.add_discrete([dec_label(v) for v in d["vars"]], label=dec_label(d["label"]))
    apply_shaped(cqm, c.get("shaped", []))
    return cqm


def rand_dqm_desc(rng, nmax=4, wild_p=0.3, np_p=0.0, idx_p=0.0):
    n = rng.randint(0, nmax)
    labels = pick_labels(rng, n, wild_p=wild_p, np_p=np_p, idx_p=idx_p)
    vars_ = [[enc_label(l), rng.randint(1, 3)] for l in labels]
    lin = [[v[0], k, str(rng.dyadic(8, 2))] for v in vars_ for k in range(v[1]) if rng.random() < 0.7]
    quad = []
    for i in range(n):
        for j in range(i + 1, n):
            if rng.random() < 0.5:
                for a in range(vars_[i][1]):
                    for b in range(vars_[j][1]):
                        if rng.random() < 0.5:
                            quad.append([vars_[i][0], a, vars_[j][0], b, str(rng.dyadic(8, 2))])
    return {"vars": vars_, "lin": lin, "quad": quad, "off": str(rng.dyadic(8, 2) if rng.random() < 0.5 else Fraction(0))}


def build_dqm(d, cls=None):
    dqm = (cls or dimod.DiscreteQuadraticModel)()
    for l, k in d["vars"]:
        dqm.add_variable(k, label=dec_label(l))
    for l, k, b in d["lin"]:
        dqm.set_linear_case(dec_label(l), k, float(F(b)))
    for u, a, v, b, bias in d["quad"]:
        dqm.set_quadratic_case(dec_label(u), a, dec_label(v), b, float(F(bias)))
    dqm.offset = float(F(d["off"]))
    return dqm


# ------------------------------------------------------------------------------------------------
# exact state
# ------------------------------------------------------------------------------------------------

def tl(v):
    """typed label: distinguishes 1 / 1.0 / True / '1' / numpy scalars, tuples vs lists"""
    if isinstance(v, bool):
        return ['bool', v]
    # what the format stores: numbers.Integral -> JSON integer, other numbers -> JSON float; a loaded label is compared
    # with the Python value the original label denotes (type-aware: 5 and 5.0 differ)
    if isinstance(v, np.integer):
        return ['i', str(int(v))]
    if isinstance(v, np.floating):
        return ['f', repr(float(v))]
    if isinstance(v, int):
        return ['i', str(v)]
    if isinstance(v, float):
        return ['f', repr(v)]
    if isinstance(v, str):
        return ['s', v]
    if isinstance(v, tuple):
        return ['t', [tl(x) for x in v]]
    return [type(v).__name__, repr(v)]


def fx(x):
    return str(F(x))


def key(v):
    return json.dumps(tl(v), sort_keys=True)


def expr_state(m, with_vars=True):
    lin = {key(v): fx(b) for v, b in m.linear.items()}
    quad = {}
    for (u, v), b in m.quadratic.items():
        k = json.dumps(sorted([key(u), key(v)]))
        quad[k] = fx(b)
    s = {"lin": lin, "quad": quad, "off": fx(m.offset)}
    if with_vars:
        s["vars"] = [tl(v) for v in m.variables]
    return s


def state_of(m):
    """JSON-able exact state; two models are 'the same model' iff their states are equal."""
    if isinstance(m, (dimod.BinaryQuadraticModel, dimod.QuadraticModel)):
        _idx = {key(v): i for i, v in enumerate(m.variables)}
        _nbh = [[[_idx[key(u)], fx(b)] for u, b in m.iter_neighborhood(v)] for v in m.variables]
    if isinstance(m, dimod.BinaryQuadraticModel):
        s = expr_state(m)
        s["nbh"] = _nbh
        s.update(type="BQM", dtype=np.dtype(m.dtype).name, vartype=m.vartype.name)
        return s
    if isinstance(m, dimod.QuadraticModel):
        s = expr_state(m)
        s["nbh"] = _nbh
        s.update(type="QM", dtype=np.dtype(m.dtype).name,
                 vinfo=[[m.vartype(v).name, fx(m.lower_bound(v)), fx(m.upper_bound(v))] for v in m.variables])
        return s
    if isinstance(m, dimod.ConstrainedQuadraticModel):
        s = {"type": "CQM", "vars": [tl(v) for v in m.variables],
             "vinfo": [[m.vartype(v).name, fx(m.lower_bound(v)), fx(m.upper_bound(v))] for v in m.variables],
             "objective": expr_state(m.objective, with_vars=False), "constraints": {}}
        s["objective"]["vars"] = sorted(key(v) for v in m.objective.variables)
        for lab, c in m.constraints.items():
            e = expr_state(c.lhs, with_vars=False)
            e["vars"] = sorted(key(v) for v in c.lhs.variables)
            w = c.lhs.weight()
            e.update(sense=c.sense.value, rhs=fx(c.rhs), soft=bool(c.lhs.is_soft()),
                     weight=None if w == float('inf') else fx(w),
                     penalty=c.lhs.penalty() if c.lhs.is_soft() else None,
                     discrete=bool(c.lhs.is_discrete()), in_discrete=lab in m.discrete,
                     onehot=bool(c.lhs.is_onehot()))
            s["constraints"][key(lab)] = e
        s["n_constraints"] = len(m.constraints)
        return s
    if isinstance(m, dimod.DiscreteQuadraticModel):
        s = {"type": "DQM", "vars": [tl(v) for v in m.variables], "cases": [int(m.num_cases(v)) for v in m.variables],
             "lin": [[fx(x) for x in m.get_linear(v)] for v in m.variables], "quad": {}, "off": fx(m.offset)}
        vs = list(m.variables)
        for i, u in enumerate(vs):
            for j in range(i):
                v = vs[j]
                try:
                    q = m.get_quadratic(u, v)
                except Exception:
                    continue
                if q:
                    s["quad"][f"{i},{j}"] = sorted([int(a), int(b), fx(x)] for (a, b), x in q.items())
        return s
    raise TypeError(type(m))


def relabelled_state(s, n):
    """expected state after a round trip with ignore_labels=True (BQM / DQM)"""
    s = json.loads(json.dumps(s))
    old = [json.dumps(v, sort_keys=True) for v in s["vars"]]
    new = [tl(i) for i in range(n)]
    mp = {o: json.dumps(nw, sort_keys=True) for o, nw in zip(old, new)}
    s["vars"] = new
    if isinstance(s.get("lin"), dict):
        s["lin"] = {mp[k]: b for k, b in s["lin"].items()}
        s["quad"] = {json.dumps(sorted(mp[x] for x in json.loads(k))): b for k, b in s["quad"].items()}
    return s


def diff_state(a, b, path=""):
    """first difference between two states, as text (None when equal)"""
    if type(a) != type(b):
        return f"{path}: {a!r} != {b!r}"
    if isinstance(a, dict):
        for k in sorted(set(a) | set(b)):
            if k not in a or k not in b:
                return f"{path}/{k}: present on one side only ({a.get(k)!r} vs {b.get(k)!r})"
            d = diff_state(a[k], b[k], path + "/" + str(k))
            if d:
                return d
        return None
    if isinstance(a, list):
        if len(a) != len(b):
            return f"{path}: lengths {len(a)} != {len(b)} ({a!r} vs {b!r})"
        for i, (x, y) in enumerate(zip(a, b)):
            d = diff_state(x, y, f"{path}[{i}]")
            if d:
                return d
        return None
    return None if a == b else f"{path}: {a!r} != {b!r}"


LOADERS = {
    'bqm': dimod.BinaryQuadraticModel.from_file,
    'qm': dimod.QuadraticModel.from_file,
    'cqm': dimod.ConstrainedQuadraticModel.from_file,
    'dqm': dimod.DiscreteQuadraticModel.from_file,
}


def load_as(kind, data, how='bytes'):
    """how: bytes | bytearray | memoryview | file | load_bytes | load_file | diskfile | load_diskfile | spooled"""
    if how in ('bytes', 'load_bytes'):
        src = bytes(data)
    elif how == 'bytearray':
        src = bytearray(data)
    elif how == 'memoryview':
        src = memoryview(bytes(data))
    elif how in ('diskfile', 'load_diskfile', 'spooled'):
        # a REAL file object (open(path, 'rb') of a file on disk, or a SpooledTemporaryFile): readers that special-case
        # files with a descriptor (np.fromfile, readinto, seek past EOF) behave differently from BytesIO (round-6 miss C10 r6m2)
        import tempfile
        if how == 'spooled':
            with tempfile.SpooledTemporaryFile(max_size=1 << 20) as fp:
                fp.write(bytes(data))
                fp.seek(0)
                return LOADERS[kind](fp)
        with tempfile.NamedTemporaryFile(prefix='verif-c10-', delete=True) as tf:
            tf.write(bytes(data))
            tf.flush()
            with open(tf.name, 'rb') as fp:
                return fv_load(fp) if how.startswith('load') else LOADERS[kind](fp)
    else:
        src = io.BytesIO(bytes(data))
    if how.startswith('load'):
        return fv_load(src)
    return LOADERS[kind](src)


# ------------------------------------------------------------------------------------------------
# Coq rendering
# ------------------------------------------------------------------------------------------------

def cbytes(b):
    return "[" + ";".join(str(x) for x in bytes(b)) + "]%N"


def cN(n):
    return f"{int(n)}%N"


def clabel(v):
    if isinstance(v, (int, np.integer)):
        v = int(v)
        return f"(LInt ({v})%Z)"
    if isinstance(v, str):
        return f"(LStr {cbytes(v.encode('ascii'))})"
    return "(LTup " + clist([clabel(x) for x in v]) + ")"


def clabels(ls):
    return "None" if ls is None else "(Some " + clist([clabel(x) for x in ls]) + ")"


def is_range(labels):
    """the labels ARE the index labelling as dimod sees it: integral labels (int or NumPy integer - a dtype=object BQM keeps
    np.int64(2) as such, and it equals and hashes like 2) sitting at their own index"""
    return all(isinstance(v, (int, np.integer)) and not isinstance(v, bool) and int(v) == i for i, v in enumerate(labels))


def fdt(m):
    dt = np.dtype(m.dtype)
    return np.dtype(np.float64) if dt == np.dtype(object) else dt


def cdtype(dt):
    return {'float32': 'F32', 'float64': 'F64'}[np.dtype(dt).name]


def bqm_file_term(bqm, version, ignore_labels):
    """Coq `bqmfile` for the observed state of `bqm` as `to_file(version, ignore_labels)` should write it"""
    dt = fdt(bqm)
    t = dt.type
    vs = list(bqm.variables)
    idx = {key(v): i for i, v in enumerate(vs)}
    lin = clist([cbytes(t(bqm.get_linear(v)).tobytes()) for v in vs])
    adj = clist([clist([cpair(cN(idx[key(u)]), cbytes(t(b).tobytes())) for u, b in bqm.iter_neighborhood(v)]) for v in vs])
    if version == 1:
        labels = (list(range(len(vs))) if ignore_labels else vs) if vs else None
    else:
        labels = None if (ignore_labels or is_range(vs)) else vs
    return (f"(mkBqmFile ({cN(version)}, 0%N) {cdtype(dt)} {'BSPIN' if bqm.vartype is dimod.SPIN else 'BBINARY'} "
            f"{cN(bqm.num_interactions)} {cbytes(t(bqm.offset).tobytes())} {lin} {adj} {clabels(labels)})")


def full_adj_term(m):
    """Coq list (list (N * bytes)): every neighbourhood of m in iteration order"""
    t = fdt(m).type
    vs = list(m.variables)
    idx = {key(v): i for i, v in enumerate(vs)}
    return clist([clist([cpair(cN(idx[key(u)]), cbytes(t(b).tobytes())) for u, b in m.iter_neighborhood(v)]) for v in vs])


def neig_term(qm):
    t = fdt(qm).type
    vs = list(qm.variables)
    idx = {key(v): i for i, v in enumerate(vs)}
    return clist([clist([cpair(cN(idx[key(u)]), cbytes(t(b).tobytes())) for u, b in qm.iter_neighborhood(v)
                         if idx[key(u)] <= i]) for i, v in enumerate(vs)])


def qm_file_term(qm):
    dt = fdt(qm)
    t = dt.type
    vs = list(qm.variables)
    idx = {key(v): i for i, v in enumerate(vs)}
    vinfo = clist([f"(VT_{qm.vartype(v).name}, ({cbytes(t(qm.lower_bound(v)).tobytes())}, {cbytes(t(qm.upper_bound(v)).tobytes())}))"
                   for v in vs])
    lin = clist([cbytes(t(qm.get_linear(v)).tobytes()) for v in vs])
    neig = clist([clist([cpair(cN(idx[key(u)]), cbytes(t(b).tobytes())) for u, b in qm.iter_neighborhood(v)
                         if idx[key(u)] <= i]) for i, v in enumerate(vs)])
    labels = None if is_range(vs) else vs
    return (f"(mkQmFile {cdtype(dt)} {cN(qm.num_interactions)} {vinfo} {cbytes(t(qm.offset).tobytes())} {lin} {neig} "
            f"{clabels(labels)})")


def expr_file_term(expr, parent_vars):
    """expression view of a CQM (objective or constraint lhs)"""
    t = np.float64
    vs = list(expr.variables)
    pidx = {key(v): i for i, v in enumerate(parent_vars)}
    loc = {key(v): i for i, v in enumerate(vs)}
    idx = clist([cN(pidx[key(v)]) for v in vs])
    lin = clist([cbytes(t(expr.get_linear(v)).tobytes()) for v in vs])
    quads = []
    for u, v, b in expr.iter_quadratic():
        a, c = loc[key(u)], loc[key(v)]
        quads.append((max(a, c), min(a, c), b))
    quads.sort(key=lambda q: (q[0], q[1]))
    quad = clist([f"({cN(a)}, ({cN(c)}, {cbytes(t(b).tobytes())}))" for a, c, b in quads])
    return (f"(mkExprFile F64 {cbytes(type(expr).__name__.encode())} {idx} {cbytes(t(expr.offset).tobytes())} "
            f"{lin} {quad})")


def cqm_header_len(cqm_bytes):
    from dimod.serialization.fileview import read_header
    f = io.BytesIO(cqm_bytes)
    read_header(f, b'DIMODCQM')
    return f.tell()


def cut_member(cqm_bytes, member, k):
    """the same CQM file with a VALID zip container in which `member` holds only its first k bytes"""
    h = cqm_header_len(cqm_bytes)
    out = io.BytesIO()
    out.write(cqm_bytes[:h])
    with zipfile.ZipFile(io.BytesIO(cqm_bytes)) as zin, zipfile.ZipFile(out, mode='a') as zout:
        for info in zin.infolist():
            data = zin.read(info.filename)
            if info.filename == member:
                data = data[:k]
            zout.writestr(info.filename, data, compress_type=info.compress_type)
    return out.getvalue()


def zip_members(cqm_bytes):
    with zipfile.ZipFile(io.BytesIO(cqm_bytes)) as zf:
        return {n: zf.read(n) for n in zf.namelist()}


# ------------------------------------------------------------------------------------------------
# CQM serialization version 1.x ("legacy") files, written by hand
# ------------------------------------------------------------------------------------------------
# Layout (dimod 0.10.6 - 0.12.3 ConstrainedQuadraticModel.to_file, read today by _from_file_legacy):
#   header  b'DIMODCQM' + (1, minor) + uint32 length + JSON dict + '\n' + spaces up to a multiple of 64
#           1.0: num_variables num_constraints num_biases | 1.1: + num_quadratic_variables (constraints only)
#           1.2: + num_quadratic_variables_real (with objective), num_linear_biases_real | 1.3: + num_weighted_constraints
#   zip     objective                       a QM file that lists EVERY variable of the model, in model order
#           constraints/<json label>/lhs    a QM or BQM file            .../rhs   float64
#           constraints/<json label>/sense  ascii '<=' '>=' '=='        .../discrete  one byte
#           constraints/<json label>/weight float64, .../penalty ascii  (1.3, soft constraints only)
# There is no `varinfo` member and no `variable_labels.json`: the objective member carries the variable order,
# the vartypes and the bounds.

def _member_qm(expr, variables, vinfo_of, dtype=np.float64):
    qm = dimod.QuadraticModel(dtype=dtype)
    for v in variables:
        vt, lb, ub = vinfo_of(v)
        if vt in ('INTEGER', 'REAL'):
            qm.add_variable(vt, v, lower_bound=lb, upper_bound=ub)
        else:
            qm.add_variable(vt, v)
    for v in expr.variables:
        qm.set_linear(v, expr.get_linear(v))
    for u, v, b in expr.iter_quadratic():
        qm.add_quadratic(u, v, b)
    qm.offset = expr.offset
    return qm


def _member_bqm(expr, vartype):
    bqm = dimod.BinaryQuadraticModel(vartype)
    for v in expr.variables:
        bqm.add_variable(v)
        bqm.set_linear(v, expr.get_linear(v))
    for u, v, b in expr.iter_quadratic():
        bqm.add_quadratic(u, v, b)
    bqm.offset = expr.offset
    return bqm


def legacy_header(version, data):
    js = json.dumps(data, sort_keys=True).encode('ascii') + b'\n'
    n = 8 + 2 + 4 + len(js)
    js += b' ' * ((-n) % 64)
    return b'DIMODCQM' + bytes(version) + len(js).to_bytes(4, 'little') + js


def legacy_cqm_bytes(m, minor, compress=False, bqm_lhs=(), bqm_version=2, member_order=None, f32=()):
    """`m` (built with today's API) as a serialization-version-(1, minor) file, written by hand. bqm_lhs[i]: write the
    i-th constraint's lhs as a BQM file when all its variables have one binary vartype. Returns (bytes, members)."""
    def vinfo_of(v):
        return m.vartype(v).name, m.lower_bound(v), m.upper_bound(v)
    allv = list(m.variables)
    members = [("objective", _member_qm(m.objective, allv, vinfo_of).to_file().read())]
    nb = len(allv) + m.objective.num_interactions
    nqv = 0
    deg_real = sum(1 for v in allv if m.vartype(v) is dimod.REAL and
                   any(v in (a, b) for a, b, _ in m.objective.iter_quadratic()))
    nlin_real = sum(1 for v in allv if m.vartype(v) is dimod.REAL)
    nsoft = 0
    for i, (lab, con) in enumerate(m.constraints.items()):
        lhs = con.lhs
        lv = list(lhs.variables)
        vts = {m.vartype(v) for v in lv}
        as_bqm = i < len(bqm_lhs) and bqm_lhs[i] and len(vts) == 1 and vts <= {dimod.BINARY, dimod.SPIN}
        # a float32 member (old BQM constraints were often float32): only when every number in it is a float32
        narrow = i < len(f32) and f32[i] and all(float(np.float32(x)) == float(x) for x in
                                                 [lhs.offset] + [lhs.get_linear(v) for v in lv] + [b for _, _, b in lhs.iter_quadratic()]
                                                 + [y for v in lv for y in (m.lower_bound(v), m.upper_bound(v))])
        if as_bqm:
            mb = _member_bqm(lhs, next(iter(vts)))
            if narrow:
                mb = dimod.BinaryQuadraticModel(mb, dtype=np.float32)
            mem = mb.to_file(version=bqm_version).read()
        else:
            mq = _member_qm(lhs, lv, vinfo_of, dtype=np.float32 if narrow else np.float64)
            mem = mq.to_file().read()
        lstr = json.dumps(dimod.variables.serialize_variable(lab))
        base = f"constraints/{lstr}/"
        members.append((base + "lhs", mem))
        members.append((base + "rhs", np.float64(con.rhs).tobytes()))
        members.append((base + "sense", con.sense.value.encode('ascii')))
        members.append((base + "discrete", bytes((bool(lhs.is_discrete()),))))
        if lhs.is_soft():
            nsoft += 1
            members.append((base + "weight", np.float64(lhs.weight()).tobytes()))
            members.append((base + "penalty", lhs.penalty().encode('ascii')))
        quads = list(lhs.iter_quadratic())
        nb += len(lv) + len(quads)
        inq = [v for v in lv if any(v in (a, b) for a, b, _ in quads)]
        nqv += len(inq)
        if not as_bqm:
            deg_real += sum(1 for v in inq if m.vartype(v) is dimod.REAL)
            nlin_real += sum(1 for v in lv if m.vartype(v) is dimod.REAL)
    data = dict(num_variables=len(allv), num_constraints=len(m.constraints), num_biases=nb)
    if minor >= 1:
        data.update(num_quadratic_variables=nqv)
    if minor >= 2:
        data.update(num_quadratic_variables_real=deg_real, num_linear_biases_real=nlin_real)
    if minor >= 3:
        data.update(num_weighted_constraints=nsoft)
    if member_order is not None:
        members = [members[0]] + [members[1:][j] for j in member_order]
    out = io.BytesIO()
    out.write(legacy_header((1, minor), data))
    with zipfile.ZipFile(out, mode='a', compression=zipfile.ZIP_DEFLATED if compress else zipfile.ZIP_STORED) as zf:
        for name, b in members:
            zf.writestr(name, b)
    return out.getvalue(), members


def legacy_expected_state(s0):
    """state of the model a version-1.x file of `s0` denotes: the objective lists every variable"""
    s = json.loads(json.dumps(s0))
    keys = [json.dumps(v, sort_keys=True) for v in s["vars"]]
    s["objective"]["vars"] = sorted(keys)
    for k in keys:
        s["objective"]["lin"].setdefault(k, "0")
    return s


VT_CODE = {'BINARY': 'VT_BINARY', 'SPIN': 'VT_SPIN', 'INTEGER': 'VT_INTEGER', 'REAL': 'VT_REAL'}


def nexpr_term(cqm, expr):
    """Coq `nexpr` (Model/CqmFile.v) of an expression of a loaded CQM, in the expression's own variable order"""
    t = np.float64
    vs = list(expr.variables)
    loc = {key(v): i for i, v in enumerate(vs)}
    vars_ = clist([f"({clabel(v)}, ({VT_CODE[cqm.vartype(v).name]}, ({cbytes(t(cqm.lower_bound(v)).tobytes())}, "
                   f"{cbytes(t(cqm.upper_bound(v)).tobytes())})))" for v in vs])
    lin = clist([cbytes(t(expr.get_linear(v)).tobytes()) for v in vs])
    quad = clist([f"({loc[key(u)]}, ({loc[key(v)]}, {cbytes(t(b).tobytes())}))" for u, v, b in expr.iter_quadratic()])
    return f"(mkNexpr {vars_} {lin} {quad} {cbytes(t(expr.offset).tobytes())})"


def lmodel_term(cqm):
    """Coq `lmodel` of a loaded CQM: variables in the loaded order, objective, constraints"""
    t = np.float64
    vars_ = clist([f"({clabel(v)}, ({VT_CODE[cqm.vartype(v).name]}, ({cbytes(t(cqm.lower_bound(v)).tobytes())}, "
                   f"{cbytes(t(cqm.upper_bound(v)).tobytes())})))" for v in cqm.variables])
    cons = []
    for lab, con in cqm.constraints.items():
        lhs = con.lhs
        soft = (f"(Some ({cbytes(t(lhs.weight()).tobytes())}, {cbytes(lhs.penalty().encode('ascii'))}))"
                if lhs.is_soft() else "None")
        cons.append(f"(mkLcon {clabel(lab)} {nexpr_term(cqm, lhs)} {cbytes(t(con.rhs).tobytes())} "
                    f"{cbytes(con.sense.value.encode('ascii'))} {'true' if lhs.is_discrete() else 'false'} {soft})")
    return f"(mkLmodel {vars_} {nexpr_term(cqm, cqm.objective)} {clist(cons)})"


def archive_term(cqm_bytes):
    """Coq `archive`: (member name, member bytes) in directory order"""
    with zipfile.ZipFile(io.BytesIO(cqm_bytes)) as zf:
        return clist([f"({cbytes(n.encode('utf-8'))}, {cbytes(zf.read(n))})" for n in zf.namelist()])


def cqm_all_modelled(cqm):
    return all(is_modelled_label(v) for v in cqm.variables) and all(is_modelled_label(l) for l in cqm.constraints)


def legacy_term(cqm_bytes, loaded):
    return f"(CLegacy {archive_term(cqm_bytes)} {lmodel_term(loaded)})"


def indep_bqm_state(data):
    """A BQM file (format versions 1.0 / 2.0, any index dtypes) read by hand from the format description in
    BinaryQuadraticModel.to_file's docstring - no dimod code involved: header, offset, n x (neighbourhood start, bias),
    the neighbourhoods as (index, bias) records, labels from the header (1.x) or the VARS section (2.0).
    Returns the state (same shape as state_of) the file denotes."""
    assert data[:8] == b'DIMODBQM'
    version = (data[8], data[9])
    hlen = int.from_bytes(data[10:14], 'little')
    hdr = json.loads(data[14:14 + hlen].decode('ascii'))
    pos = 14 + hlen
    dt = np.dtype(hdr["dtype"]); it = np.dtype(hdr["itype"]); nt = np.dtype(hdr["ntype"])
    n, m_ = hdr["shape"]

    def rd(t):
        nonlocal pos
        x = np.frombuffer(data[pos:pos + t.itemsize], t)[0]
        pos += t.itemsize
        return x
    off = rd(dt)
    nidx, lin = [], []
    for _ in range(n):
        nidx.append(int(rd(nt))); lin.append(rd(dt))
    nbh = []
    for v in range(n):
        deg = (nidx[v + 1] if v + 1 < n else 2 * m_) - nidx[v]
        nbh.append([(int(rd(it)), rd(dt)) for _ in range(deg)])

    def lab(x):
        return tuple(lab(y) for y in x) if isinstance(x, list) else x
    if version < (2, 0):
        labels = [lab(x) for x in hdr["variables"]] if hdr["variables"] else list(range(n))
    elif hdr["variables"]:
        i = data.index(b'VARS', pos)
        ln = int.from_bytes(data[i + 4:i + 8], 'little')
        labels = [lab(x) for x in json.loads(data[i + 8:i + 8 + ln].decode('ascii'))]
    else:
        labels = list(range(n))
    ks = [key(v) for v in labels]
    quad = {}
    for v in range(n):
        for u, b in nbh[v]:
            if u < v:
                quad[json.dumps(sorted([ks[u], ks[v]]))] = fx(b)
    return {"lin": {ks[i]: fx(lin[i]) for i in range(n)}, "quad": quad, "off": fx(off), "vars": [tl(v) for v in labels],
            "nbh": [[[u, fx(b)] for u, b in nb] for nb in nbh], "type": "BQM", "dtype": dt.name, "vartype": hdr["vartype"]}


# ------------------------------------------------------------------------------------------------
# DQM files written by hand (format versions 1.0 and 1.1) from a description, without dimod
# ------------------------------------------------------------------------------------------------
# header b'DIMODDQM' (1, minor) uint32 length JSON '\n' padding | b'BIAS' uint32 length, an .npz archive with
# case_starts, linear_biases, quadratic_row_indices, quadratic_col_indices, quadratic_biases[, offset: 1.1 only]
# | b'VARS' uint32 length, JSON list of labels, padding (only when the labels are not range(n))

def dqm_bytes_by_hand(d, minor=1, compress=False, index_dtype=np.int64):
    """-> (bytes, expected state).  Version 1.0 has no offset entry: the file denotes offset 0."""
    labels = [dec_label(l) for l, _ in d["vars"]]
    ncases = [k for _, k in d["vars"]]
    starts = [0]
    for k in ncases[:-1]:
        starts.append(starts[-1] + k)
    pos = {key(l): i for i, l in enumerate(labels)}
    lin = [0.0] * sum(ncases)
    for l, k, b in d["lin"]:
        lin[starts[pos[key(dec_label(l))]] + k] = float(F(b))
    q = {}
    for u, a, v, b, bias in d["quad"]:
        r, c = starts[pos[key(dec_label(u))]] + a, starts[pos[key(dec_label(v))]] + b
        q[(max(r, c), min(r, c))] = float(F(bias))
    rc = sorted(q)
    off = float(F(d["off"])) if minor >= 1 else 0.0
    arrays = dict(case_starts=np.asarray(starts if ncases else [], dtype=index_dtype),
                  linear_biases=np.asarray(lin, dtype=np.float64),
                  quadratic_row_indices=np.asarray([r for r, _ in rc], dtype=index_dtype),
                  quadratic_col_indices=np.asarray([c for _, c in rc], dtype=index_dtype),
                  quadratic_biases=np.asarray([q[x] for x in rc], dtype=np.float64))
    if minor >= 1:
        arrays["offset"] = np.float64(off)
    npz = io.BytesIO()
    (np.savez_compressed if compress else np.savez)(npz, **arrays)
    npz = npz.getvalue()
    var_pairs = {(pos_u, pos_v) for (r, c) in rc
                 for pos_u in [max(i for i, s in enumerate(starts) if s <= r)]
                 for pos_v in [max(i for i, s in enumerate(starts) if s <= c)]}
    hdr = dict(num_variables=len(labels), num_cases=sum(ncases), num_case_interactions=len(rc),
               num_variable_interactions=len(var_pairs), variables=not is_range(labels))
    js = json.dumps(hdr, sort_keys=True).encode('ascii') + b'\n'
    js += b' ' * ((-(8 + 2 + 4 + len(js))) % 64)
    out = b'DIMODDQM' + bytes((1, minor)) + len(js).to_bytes(4, 'little') + js
    out += b'BIAS' + len(npz).to_bytes(4, 'little') + npz
    if not is_range(labels):
        vs = json.dumps([dimod.variables.serialize_variable(v) for v in labels]).encode('ascii')
        vs += b' ' * ((-(8 + len(vs))) % 64)
        out += b'VARS' + len(vs).to_bytes(4, 'little') + vs
    # the state the file denotes, straight from the description
    qs = {}
    for (r, c), bias in q.items():
        i = max(i for i, s in enumerate(starts) if s <= r)
        j = max(i2 for i2, s in enumerate(starts) if s <= c)
        qs.setdefault(f"{i},{j}", []).append([r - starts[i], c - starts[j], fx(bias)])
    exp = {"type": "DQM", "vars": [tl(v) for v in labels], "cases": ncases,
           "lin": [[fx(x) for x in lin[starts[i]:starts[i] + ncases[i]]] for i in range(len(labels))],
           "quad": {k: sorted(v) for k, v in qs.items()}, "off": fx(off)}
    return out, exp


def c2model_term(cqm):
    """Coq `c2model` (Model/CqmFile2.v): what to_file writes for `cqm`, member by member"""
    t = np.float64
    pv = list(cqm.variables)
    vi = clist([f"({VT_CODE[cqm.vartype(v).name]}, ({cbytes(t(cqm.lower_bound(v)).tobytes())}, "
                f"{cbytes(t(cqm.upper_bound(v)).tobytes())}))" for v in pv])
    cons = []
    for lab, con in cqm.constraints.items():
        lhs = con.lhs
        soft = (f"(Some ({cbytes(t(lhs.weight()).tobytes())}, {cbytes(lhs.penalty().encode('ascii'))}))"
                if lhs.is_soft() else "None")
        cons.append(f"(mkC2con {clabel(lab)} {expr_file_term(lhs, pv)} {cbytes(t(con.rhs).tobytes())} "
                    f"{cbytes(con.sense.value.encode('ascii'))} {'true' if lhs.is_discrete() else 'false'} {soft})")
    return f"(mkC2model {vi} {clabels(None if is_range(pv) else pv)} {expr_file_term(cqm.objective, pv)} {clist(cons)})"


def npz_members(dqm_bytes):
    """the .npy members of the BIAS section of a DQM file: {name: bytes} in directory order"""
    i = dqm_bytes.index(b'BIAS')
    n = int.from_bytes(dqm_bytes[i + 4:i + 8], 'little')
    with zipfile.ZipFile(io.BytesIO(dqm_bytes[i + 8:i + 8 + n])) as zf:
        return {nm: zf.read(nm) for nm in zf.namelist()}


def dqm_vectors(m):
    """case_starts, linear biases, (row, col, bias) with row > col, straight from the public accessors of a DQM"""
    vs = list(m.variables)
    starts, tot = [], 0
    for v in vs:
        starts.append(tot)
        tot += int(m.num_cases(v))
    lin = [x for v in vs for x in m.get_linear(v)]
    quad = []
    for i, u in enumerate(vs):
        for j in range(i):
            try:
                q = m.get_quadratic(u, vs[j])
            except Exception:
                continue
            for (a, b), x in q.items():
                quad.append((starts[i] + int(a), starts[j] + int(b), x))
    return starts, lin, quad


def dqmvec_term(m, with_offset=True):
    t = np.float64
    starts, lin, quad = dqm_vectors(m)
    q = clist([f"({cN(r)}, ({cN(c)}, {cbytes(t(x).tobytes())}))" for r, c, x in quad])
    off = f"(Some {cbytes(t(m.offset).tobytes())})" if with_offset else "None"
    return f"(mkDqmvec {clist([cN(x) for x in starts])} {clist([cbytes(t(x).tobytes()) for x in lin])} {q} {off})"


def npz_archive_term(members):
    return clist([f"({cbytes(n.encode('ascii'))}, {cbytes(b)})" for n, b in members.items()])
