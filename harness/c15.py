PID = "C15"
WORKER = "w_c15"
HEADER = "From Coq Require Import List ZArith QArith Qcanon.\nFrom Dimod Require Import Base.Util Model.Poly Model.HPoly Model.HPolyPy Model.PolyCtor Model.Reduce Model.ChkC15.\nImport ListNotations."
CHECK_FN = "check"
N_QUICK = 1600
N_THOROUGH = 30000
SHARD = 200
SHRINK_KEYS = ["terms"]
RULE = ("random polynomials (2-6 variables quick / 2-8 thorough, degree <= 5 / 6, terms sharing a common core so that pairs overlap, "
        "constants, integer labels mixed with their str() forms (0 and '0'), variables repeated up to 6 times inside a term, the same monomial under two key orders, labels that collide with the "
        "invented names 'u*v' / 'auxu,v' incl. namesakes of the pairs of a higher-order term that occur only in low-order terms), both vartypes, strengths {1/2,1,2,3}; kinds: reduce_binary_polynomial, make_quadratic (dict and "
        "BinaryPolynomial input; bqm= unset / same vartype with or without vartype= / other vartype, with linear biases, offset and couplings on "
        "the polynomial's pairs and on extra variables), make_quadratic_cqm (cqm= unset / holding an objective), HigherOrderComposite(ExactSolver or a child returning float32 / integer energies) sample_poly/sample_hising/sample_hubo with "
        "keep_penalty_variables / discard_unsatisfied in {unset, True, False}; "
        "the polynomial of every kind is built (38%) through from_hubo / from_hising with an offset on top of a constant already among the terms, "
        "through BinaryPolynomial(iterable) with repeated / reordered entries, or through copy(); kind ctor: the constructors and exporters on their own "
        "(dict / iterable with tuple, list, frozenset keys and exact duplicates / polynomial / copy / to_spin().to_binary(); from_hubo and from_hising with offset "
        "absent, None, 0, value; () keys, cancelling keys, single-variable keys in J; to_hubo / to_hising of both vartypes), items compared with Model/PolyCtor.v, "
        "energies with the given terms on all (<= 4 variables) or 12 assignments; non-trivial = at least one product constraint / one term; "
        "distinct by canonical JSON of the case")
TRUSTED = ["model: coq/theories/Model/Reduce.v, HPoly.v, Poly.v, PolyCtor.v, HPolyPy.v, ChkC15.v (hand written, tied by this correspondence)",
           "translators/poly_ctors.py (fail-closed ast translator: the expression from_hubo stores under (), the parts from_hising assembles, the parity "
           "vartype of __init__, the defaults of to_hubo / to_hising -> Gen/Gen_PolyCtor.v; statement shapes of the other constructor methods are locked)",
           "translators/spin_product.py and translators/gates_tables.py (fail-closed ast translators): the product penalties of the theorems are proved equal to the tables they emit from _spin_product / and_gate on every run",
           "HigherOrderComposite rows: Coq re-evaluates the polynomial on a seeded sample of <= 48 rows per case; every row's energy and "
           "the multiplicity of each original assignment are decided in the worker with exact Fractions (Python)",
           "float arithmetic of the implementation is exact on the generated dyadic data (not verified)"]
ASSUMPTIONS = ["the coefficients a BQM/CQM reports define its energy (property C01)",
               "ExactSolver returns every assignment of the quadratic model exactly once (property C07)",
               "IEEE-754 arithmetic is exact on the small dyadic coefficients generated"]
PARTIAL = []
