"""C20, Python boundary: catalogue of malformed calls against the real extension and the parent
side runner (short-lived children, 10 s per call, optional valgrind)."""
import json
import os
import re
import subprocess
import sys

CHILD = os.path.join(os.path.dirname(os.path.abspath(__file__)), "c20_pychild.py")
PY = sys.executable

NAN = ["#", "nan"]
INF = ["#", "inf"]
NONE = ["#", "none"]


def arr(x, dt=None):
    return ["#", "arr", x, dt] if dt else ["#", "arr", x]


def tup(*xs):
    return ["#", "tuple", list(xs)]


BAD_SCALARS = ["zzz", NONE, ["#", "obj"], [1, 2], ["#", "dict", []], "1.5x", ["#", "bytes", [1, 2]]]
ODD_NUMBERS = [NAN, INF, ["#", "-inf"], 1e308, -1e308, ["#", "big", 70], ["#", "np", "float32", 3.5], True]
BAD_INDEX = [-1, -7, 4, 99, ["#", "big", 31], ["#", "big", 32], ["#", "big", 62], ["#", "neg", ["#", "big", 31]],
             ["#", "neg", ["#", "big", 40]], "a", NONE]
UNKNOWN = ["nope", 17, -1, ["#", "tuple", ["a", "b"]], 2.5, NONE]

# expectation: "raise"  an exception is required and the model must be unchanged
#              "any"    either a clean result, or an exception with the model unchanged
BQMS = ["bqm64", "bqm32", "bqmobj", "bqm64s"]


def catalogue(rng):
    """one random malformed call: dict(target, path, args, kwargs, expect)"""
    T = rng.choice
    fam = T(["bqm", "bqm", "bqm", "bqmarr", "bqmarr", "bqmvec", "bqmvec", "qm", "qm", "qmarr", "cqm", "cqm", "dqm", "dqm",
             "dqm", "dqmvec", "reduce", "reduce", "fresh", "fresh", "fresh"])
    if fam == "reduce":
        return reduce_call(rng)
    if fam == "fresh":
        return fresh_call(rng)
    if fam == "bqm":
        t = T(BQMS)
        k = T(["get_linear", "get_quadratic", "get_quadratic2", "remove_variable", "remove_interaction", "selfloop",
               "badbias_lin", "badbias_quad", "oddbias", "fix", "fixbad", "relabel_dup", "degree", "scale", "chvt",
               "update", "reduce_nb", "iter_nb", "energies", "energies2", "lineq", "resize", "ineigh", "set_linear_unk",
               "offset", "add_lin_from", "add_quad_from", "contract", "flip", "rm_from", "energy_missing"])
        if k == "get_linear":
            return dict(target=t, path=["get_linear"], args=[T(UNKNOWN)], expect="raise")
        if k == "get_quadratic":
            return dict(target=t, path=["get_quadratic"], args=[T(UNKNOWN), "a"], expect="raise")
        if k == "get_quadratic2":
            return dict(target=t, path=["get_quadratic"], args=["a", "c"], expect="raise")
        if k == "remove_variable":
            return dict(target=t, path=["remove_variable"], args=[T(UNKNOWN[:5])], expect="raise")
        if k == "remove_interaction":
            return dict(target=t, path=["remove_interaction"], args=[T(UNKNOWN), "a"], expect="any")
        if k == "selfloop":
            return dict(target=t, path=[T(["add_quadratic", "set_quadratic"])], args=["a", "a", 1.0], expect="raise")
        if k == "badbias_lin":
            return dict(target=t, path=[T(["add_linear", "set_linear"])], args=["a", T(BAD_SCALARS)],
                        expect="any" if t == "bqmobj" else "raise")
        if k == "badbias_quad":
            return dict(target=t, path=[T(["add_quadratic", "set_quadratic"])], args=["a", "c", T(BAD_SCALARS)],
                        expect="any" if t == "bqmobj" else "raise")
        if k == "oddbias":
            return dict(target=t, path=[T(["add_linear", "set_linear"])], args=["a", T(ODD_NUMBERS)], expect="any")
        if k == "fix":
            return dict(target=t, path=["fix_variable"], args=[T(UNKNOWN), 1], expect="raise")
        if k == "fixbad":
            return dict(target=t, path=["fix_variable"], args=["a", T(BAD_SCALARS)], expect="any")
        if k == "relabel_dup":
            return dict(target=t, path=["relabel_variables"], args=[["#", "dict", [["a", "b"]]]], kwargs={"inplace": True},
                        expect="raise")
        if k == "degree":
            return dict(target=t, path=["degree"], args=[T(UNKNOWN)], expect="raise")
        if k == "scale":
            return dict(target=t, path=["scale"], args=[T(BAD_SCALARS + ODD_NUMBERS)], expect="any")
        if k == "chvt":
            return dict(target=t, path=["change_vartype"], args=[T(["NOPE", 7, NONE, "INTEGER"])], kwargs={"inplace": True},
                        expect="raise")
        if k == "update":
            return dict(target=t, path=["update"], args=[T([["#", "obj"], 5, "abc"])],
                        expect="raise")
        if k == "reduce_nb":
            return dict(target=t, path=["reduce_neighborhood"], args=[T(UNKNOWN), ["#", "lambda"]], expect="raise")
        if k == "iter_nb":
            return dict(target=t, path=["iter_neighborhood"], args=[T(UNKNOWN)], consume=True, expect="raise")
        if k == "energies":
            bad = T([tup(arr([[0, 1]]), ["a", "b"]),
                     tup(arr([[0, 1, 1], [1, 1, 1]]), ["a", "b"]), arr([[[0, 1, 1]]]), "abc", 7,
                     tup(arr([[0, 1, 1]]), ["a", "b", "b"])])
            return dict(target=t, path=["energies"], args=[bad], expect="raise")
        if k == "energies2":
            odd = T([tup(arr([[NAN, 1, 1]]), ["a", "b", "c"]), tup(arr([[5, -3, 1e300]]), ["a", "b", "c"]),
                     tup(arr([["x", "y", "z"]]), ["a", "b", "c"]), tup(arr([[0, 1, 1]], "complex128"), ["a", "b", "c"])])
            return dict(target=t, path=["energies"], args=[odd], expect="any")
        if k == "lineq":
            bad = T([[["a", 1.0], ["zz"]], [["a", "x"]], "abc", [[1, 2, 3]], NONE])
            return dict(target=t, path=["add_linear_equality_constraint"], args=[bad, T([1.0, "x", NONE]), T([0.0, "y"])],
                        expect="any")
        if k == "resize":
            return dict(target=t, path=["resize"], args=[T([-1, -5, "x", NONE, ["#", "neg", ["#", "big", 40]]])],
                        expect="raise")
        if k == "ineigh":
            return dict(target=t, path=["data", "_ineighborhood"], args=[T(BAD_INDEX)], expect="raise")
        if k == "set_linear_unk":
            return dict(target=t, path=["set_linear"], args=[T([[1, 2], ["#", "dict", []], ["#", "set", [1]]]), 1.0], expect="raise")
        if k == "offset":
            return dict(target=t, path=["data", "add_offset_from_array"], args=[T([arr([1.0, 2.0]), arr(["a"]), "x", NONE, arr([[1.0]])])],
                        expect="any")
        if k == "add_lin_from":
            bad = T([[["a"]], [["a", 1, 2]], 5] + ([] if t == "bqmobj" else [[["a", "x"]], ["#", "dict", [["a", NONE]]]]))
            return dict(target=t, path=["add_linear_from"], args=[bad], expect="raise")
        if k == "add_quad_from":
            bad = T([[["a", "b"]], ["#", "dict", [[tup("a", "a"), 1]]], 5, ["#", "dict", [[tup("a",), 1]]]]
                    + ([] if t == "bqmobj" else [["#", "dict", [[tup("a", "b"), "x"]]]]))
            return dict(target=t, path=["add_quadratic_from"], args=[bad], expect="raise")
        if k == "contract":
            return dict(target=t, path=["contract_variables"], args=[T(UNKNOWN), "a"], expect="raise")
        if k == "flip":
            return dict(target=t, path=["flip_variable"], args=[T(UNKNOWN)], expect="raise")
        if k == "rm_from":
            return dict(target=t, path=["remove_interactions_from"], args=[T([[["a"]], 5, [["a", "zz"]], [[1, 2, 3]]])], expect="any")
        return dict(target=t, path=["energy"], args=[["#", "dict", [["a", 1]]]], expect="raise")
    if fam == "bqmarr":
        t = "bqmint"
        k = T(["lin_from_array", "dense", "dense_ok", "quad_arrays", "quad_arrays_neg", "ineigh"])
        if k == "lin_from_array":
            bad = T([arr([[1.0, 2.0]]), arr(["a", "b"]), NONE, "xyz", arr([1.0], "complex128"), arr([["#", "obj"]], "object"), 5,
                     arr([[[1.0]]])])
            return dict(target=t, path=["add_linear_from_array"], args=[bad], expect="raise")
        if k == "dense":
            bad = T([arr([[1.0, 2.0, 3.0], [4.0, 5.0, 6.0]]), arr([1.0, 2.0]), arr([[[0.0]]]), arr([["a", "b"], ["c", "d"]]),
                     arr([[0, 1], [0, 0]], "complex128"), arr([[1.0, 2.0], [3.0, 4.0]]), NONE, "x", arr([[0, 1], [1]], "object"),
                     arr([[NONE, NONE], [NONE, NONE]], "object")])
            return dict(target=t, path=["add_quadratic_from_dense"], args=[bad], expect="raise")
        if k == "dense_ok":
            odd = T([arr([[0.0, NAN], [INF, 0.0]]), arr([[0, 1, 0, 0, 0], [0] * 5, [0] * 5, [0] * 5, [0] * 5]),
                     arr([[0, 2], [3, 0]], "int8"), arr([[0.0, 1.0], [1.0, 0.0]], "float16"), arr([], "float64"),
                     arr([[]], "float64")])
            return dict(target=t, path=["add_quadratic_from_dense"], args=[odd], expect="any")
        if k == "quad_arrays":
            bad = T([[arr([0, 1]), arr([1]), arr([1.0, 2.0])], [arr([0.5]), arr([1]), arr([1.0])],
                     [arr([0]), arr([1]), arr(["x"])], [arr([[0]]), arr([[1]]), arr([[1.0]])], [NONE, NONE, NONE],
                     [arr([0]), arr([0]), arr([1.0])]])
            return dict(target=t, path=["data", "add_quadratic_from_arrays"], args=bad, expect="any")
        if k == "quad_arrays_neg":
            i = T([-1, -4, ["#", "neg", ["#", "big", 31]], ["#", "big", 31], ["#", "big", 32, -1], ["#", "neg", ["#", "big", 33]]])
            rows = T([[0, i], [i, 0], [i], [1, 2, i]])
            cols = [1] * len(rows)
            return dict(target=t, path=["data", "add_quadratic_from_arrays"],
                        args=[arr(rows, "int64"), arr(cols, "int64"), arr([1.0] * len(rows))], expect="raise")
        return dict(target=t, path=["data", "_ineighborhood"], args=[T(BAD_INDEX)], expect="raise")
    if fam == "bqmvec":
        t = T(["bqm64", "bqm32", "bqmint"])
        k = T(["lens", "neg", "neg", "big", "order", "types", "selfloop", "vartype"])
        lin = [0.5, -1.0, 2.0]
        if k == "lens":
            q = T([tup([0, 1], [1], [1.0, 2.0]), tup([0], [1, 2], [1.0]), tup([0, 1], [1, 2], [1.0]), tup([0, 1], [1, 2]),
                   tup([[0, 1]], [[1, 2]], [[1.0, 1.0]])])
            return dict(target=t, path=["@cls", "from_numpy_vectors"], args=[lin, q, 0.0, "BINARY"], expect="raise")
        if k == "neg":
            i = T([-1, -2, -100, ["#", "neg", ["#", "big", 31]], ["#", "neg", ["#", "big", 40]]])
            q = T([tup(arr([0, i], "int64"), arr([1, 2], "int64"), [1.0, 1.0]), tup(arr([0, 1], "int64"), arr([i, 2], "int64"), [1.0, 1.0]),
                   tup(arr([i], "int64"), arr([i], "int64"), [1.0])])
            return dict(target=t, path=["@cls", "from_numpy_vectors"], args=[T([lin, []]), q, 0.0, T(["BINARY", "SPIN"])], expect="raise")
        if k == "big":
            i = T([["#", "big", 31], ["#", "big", 31, 5], ["#", "big", 32], ["#", "big", 32, -1], ["#", "big", 40], ["#", "big", 62],
                   ["#", "big", 31, -1]])
            q = tup(arr([0, i], "int64"), arr([1, 2], "int64"), [1.0, 1.0])
            return dict(target=t, path=["@cls", "from_numpy_vectors"], args=[lin, q, 0.0, "BINARY"], expect="raise")
        if k == "order":
            q = tup([0, 1], [1, 2], [1.0, 2.0])
            return dict(target=t, path=["@cls", "from_numpy_vectors"], args=[lin, q, 0.0, "SPIN"],
                        kwargs={"variable_order": T([["a", "b"], ["a", "a", "b"], ["a"], 5, ["a", "b", [1]]])}, expect="raise")
        if k == "types":
            q = T([tup([0.5, 1], [1, 2], [1.0, 2.0]), tup(["a", "b"], [1, 2], [1.0, 2.0]), tup([0, 1], [1, 2], ["x", "y"]), 5, NONE,
                   tup([0, 1], [1, 2], [NAN, INF]), tup(arr([0, 1], "uint64"), arr([1, 2], "uint64"), [1.0, 2.0]),
                   tup(arr([0, 1], "int8"), arr([1, 2], "int8"), arr([1, 2], "int8"))])
            return dict(target=t, path=["@cls", "from_numpy_vectors"], args=[T([lin, "abc", NONE, [[0.5]], ["x"]]), q, T([0.0, "z", NONE]), "BINARY"],
                        expect="any")
        if k == "selfloop":
            q = tup([0, 1], [0, 2], [1.0, 2.0])
            return dict(target=t, path=["@cls", "from_numpy_vectors"], args=[lin, q, 0.0, T(["BINARY", "SPIN"])], expect="any")
        return dict(target=t, path=["@cls", "from_numpy_vectors"], args=[lin, tup([0], [1], [1.0]), 0.0, T(["NOPE", 3, NONE, "INTEGER"])],
                    expect="raise")
    if fam == "qm":
        t = T(["qm", "qm32"])
        k = T(["addvar_vt", "addvar_bounds", "addvar_clash", "get_linear", "add_linear_unk", "bounds_unk", "bounds_bad", "chvt",
               "selfloop", "badbias", "oddbias", "remove", "fix", "quad_iter", "ineigh", "update", "set_bounds_cross", "degree",
               "energies", "flip", "spin2bin"])
        if k == "addvar_vt":
            return dict(target=t, path=["add_variable"], args=[T(["BOGUS", 5, NONE]), "n"], expect="raise")
        if k == "addvar_bounds":
            return dict(target=t, path=["add_variable"], args=[T(["INTEGER", "REAL"]), "n"],
                        kwargs={"lower_bound": T([5, "x", NAN, INF]), "upper_bound": T([1, -9, NAN, "y"])}, expect="any")
        if k == "addvar_clash":
            return dict(target=t, path=["add_variable"], args=[T(["SPIN", "INTEGER", "REAL"]), "x"], expect="raise")
        if k == "get_linear":
            return dict(target=t, path=[T(["get_linear", "degree", "vartype", "lower_bound", "upper_bound"])], args=[T(UNKNOWN)], expect="raise")
        if k == "add_linear_unk":
            return dict(target=t, path=[T(["add_linear", "set_linear"])], args=[T(UNKNOWN[:5]), 1.0], expect="raise")
        if k == "bounds_unk":
            return dict(target=t, path=[T(["set_lower_bound", "set_upper_bound"])], args=[T(UNKNOWN), 1.0], expect="raise")
        if k == "bounds_bad":
            return dict(target=t, path=[T(["set_lower_bound", "set_upper_bound"])], args=[T(["x", "s", "i", "r"]), T(BAD_SCALARS + ODD_NUMBERS + [0.5, -100, 100])],
                        expect="any")
        if k == "chvt":
            vt, v = T([("SPIN", "i"), ("BINARY", "i"), ("REAL", "i"), ("SPIN", "r"), ("BINARY", "r"), ("INTEGER", "r"),
                       ("NOPE", "i"), (NONE, "r"), ("SPIN", "nope"), ("INTEGER", "nope"), ("NOPE", "nope")])
            return dict(target=t, path=["change_vartype"], args=[vt, v], expect="raise")
        if k == "selfloop":
            return dict(target=t, path=["set_quadratic"], args=[T(["x", "s"]), T(["x", "s"])[0:1][0], 1.0], expect="any")
        if k == "badbias":
            return dict(target=t, path=[T(["add_quadratic", "set_quadratic"])], args=["x", "i", T(BAD_SCALARS)], expect="raise")
        if k == "oddbias":
            return dict(target=t, path=[T(["add_quadratic", "set_quadratic"])], args=["x", "i", T(ODD_NUMBERS)], expect="any")
        if k == "remove":
            return dict(target=t, path=[T(["remove_variable", "remove_interaction"])], args=[T(UNKNOWN[:5])] + ([] if rng.random() < 0.5 else ["x"]),
                        expect="any")
        if k == "fix":
            return dict(target=t, path=["fix_variable"], args=[T(UNKNOWN + ["x"]), T(BAD_SCALARS + [1])], expect="any")
        if k == "quad_iter":
            bad = T([[["x"]], [["x", "i"]], [["x", "nope", 1.0]], 5, [["x", "i", "b"]], [[NONE, NONE, NONE]]])
            return dict(target=t, path=["add_quadratic_from"], args=[bad], expect="raise")
        if k == "ineigh":
            return dict(target=t, path=["data", "_ineighborhood"], args=[T(BAD_INDEX + [4, 5])], expect="raise")
        if k == "update":
            return dict(target=t, path=["update"], args=[T([["#", "obj"], 5, "abc", NONE])], expect="raise")
        if k == "set_bounds_cross":
            return dict(target=t, path=["set_lower_bound"], args=["i", 50], expect="any")
        if k == "degree":
            return dict(target=t, path=["reduce_neighborhood"], args=[T(UNKNOWN), ["#", "lambda"]], expect="raise")
        if k == "energies":
            bad = T([tup(arr([[0, 1]]), ["x", "s"]), "abc", arr([[[1]]])])
            return dict(target=t, path=["energies"], args=[bad], expect="raise")
        if k == "flip":
            return dict(target=t, path=["flip_variable"], args=[T(["i", "r", "nope"])], expect="raise")
        return dict(target=t, path=["spin_to_binary"], args=[T(["zz", 5])], expect="any")
    if fam == "qmarr":
        t = "qmint"
        k = T(["lin_from_array", "quad_arrays", "quad_arrays_neg", "quad_arrays_big"])
        if k == "lin_from_array":
            bad = T([arr([[1.0, 2.0]]), arr(["a", "b"]), "xyz", arr([1.0], "complex128"), 5, arr([1.0, 2.0, 3.0, 4.0, 5.0])])
            return dict(target=t, path=["data", "add_linear_from_array"], args=[bad], expect="raise")
        if k == "quad_arrays":
            bad = T([[arr([0, 1]), arr([1]), arr([1.0, 2.0])], [arr([0.5]), arr([1]), arr([1.0])], [arr([0]), arr([1]), arr(["x"])],
                     [NONE, NONE, NONE], [arr([0]), arr([0]), arr([1.0])], [arr([2]), arr([2]), arr([1.0])]])
            return dict(target=t, path=["data", "add_quadratic_from_arrays"], args=bad, expect="any")
        if k == "quad_arrays_neg":
            i = T([-1, -4, ["#", "neg", ["#", "big", 31]], ["#", "neg", ["#", "big", 33]]])
            rows = T([[0, i], [i, 0], [i]])
            return dict(target=t, path=["data", "add_quadratic_from_arrays"],
                        args=[arr(rows, "int64"), arr([1] * len(rows), "int64"), arr([1.0] * len(rows))], expect="raise")
        i = T([3, 4, 100, ["#", "big", 31], ["#", "big", 32], ["#", "big", 32, 1]])
        rows = T([[0, i], [i]])
        return dict(target=t, path=["data", "add_quadratic_from_arrays"],
                    args=[arr(rows, "int64"), arr([1] * len(rows), "int64"), arr([1.0] * len(rows))], expect="raise")
    if fam == "cqm":
        t = "cqm"
        k = T(["con_unknown", "remove_con", "fix", "fix2", "addvar", "addcon_dup", "addcon_bad", "sense", "setobj", "bounds",
               "relabel_con", "discrete", "discrete2", "lhs_unknown", "lhs_selfloop", "lhs_bias", "violations", "substitute",
               "from_other", "weight", "lhs_remove", "obj_unknown", "lhs_energy", "cqm_chvt", "cqm_flip", "cqm_remove_variable",
               "lhs_quad_unknown", "lhs_iter", "lhs_info", "substitute_real"])
        if k == "substitute_real":
            # no argument at all: whatever it does with a REAL self-loop, a raise must leave the model as it was
            return dict(target="cqmreal", path=["substitute_self_loops"], args=[], expect="any")
        if k == "con_unknown":
            return dict(target=t, path=["constraints", ["item", T(UNKNOWN[:4])]], args=None, expect="raise")
        if k == "remove_con":
            return dict(target=t, path=["remove_constraint"], args=[T(UNKNOWN[:5])], expect="raise")
        if k == "fix":
            return dict(target=t, path=["fix_variable"], args=[T(UNKNOWN[:5]), 1], expect="raise")
        if k == "fix2":
            return dict(target=t, path=["fix_variables"], args=[["#", "dict", [[T(["x", "nope"]), T(BAD_SCALARS)]]]], kwargs={"inplace": True},
                        expect="any")
        if k == "addvar":
            return dict(target=t, path=["add_variable"], args=[T(["BOGUS", 5, NONE]), "n"], expect="raise")
        if k == "addcon_dup":
            return dict(target=t, path=["add_constraint_from_iterable"], args=[[["x", 1.0]], "<="], kwargs={"label": "c0"}, expect="raise")
        if k == "addcon_bad":
            bad = T([[["x"]], [["nope", 1.0]], [["x", "y", "i", 1.0]], 5, [["x", "x2", 1.0]], [["x", "zz"]]])
            return dict(target=t, path=["add_constraint_from_iterable"], args=[bad, T(["<=", "==", ">="])], expect="raise")
        if k == "sense":
            return dict(target=t, path=["add_constraint_from_iterable"], args=[[["x", 1.0]], T(["<", "!=", 5, NONE, "=<"])], expect="raise")
        if k == "setobj":
            return dict(target=t, path=["set_objective"], args=[T([5, "abc", NONE, ["#", "obj"], [["x"]], [["nope", 1.0]]])], expect="raise")
        if k == "bounds":
            return dict(target=t, path=[T(["set_lower_bound", "set_upper_bound", "lower_bound", "upper_bound", "vartype"])],
                        args=[T(UNKNOWN[:5])] + ([] if rng.random() < 0.5 else [1.0]), expect="raise")
        if k == "relabel_con":
            return dict(target=t, path=["relabel_constraints"], args=[["#", "dict", [["c0", "c1"]]]], expect="raise")
        if k == "discrete":
            # d0 is already in a discrete constraint, i is INTEGER, s is SPIN: never legal, whatever the label
            return dict(target=t, path=["add_discrete"], args=[T([["d0", "n1"], ["i", "n2"], ["s", "n3"], 5, [["a"], ["b"]]])],
                        kwargs={"label": T(["dd", "disc"])}, expect="raise")
        if k == "discrete2":
            return dict(target=t, path=["add_discrete"], args=[["n1", "n2"]], kwargs={"label": "c0"}, expect="raise")
        if k == "cqm_chvt":
            return dict(target=t, path=["change_vartype"], args=[T(["SPIN", "BINARY", "INTEGER", "NOPE", NONE]), T(UNKNOWN[:5])], expect="raise")
        if k == "cqm_flip":
            return dict(target=t, path=["flip_variable"], args=[T(UNKNOWN[:5])], expect="raise")
        if k == "cqm_remove_variable":
            return dict(target=t, path=["remove_variable"], args=[T(UNKNOWN[:5])], expect="raise")
        lhs = ["constraints", ["item", T(["c0", "c1", "soft"])], "lhs"]
        if k == "lhs_quad_unknown":
            return dict(target=t, path=lhs + [T(["add_quadratic", "get_quadratic"])], args=[T(UNKNOWN[:5]), "x"] + ([1.0] if rng.random() < 0.5 else []),
                        expect="raise")
        if k == "lhs_iter":
            return dict(target=t, path=lhs + ["iter_neighborhood"], args=[T(UNKNOWN[:5])], consume=True, expect="raise")
        if k == "lhs_info":
            return dict(target=t, path=lhs + [T(["vartype", "lower_bound", "upper_bound"])], args=[T(UNKNOWN[:5])], expect="raise")
        if k == "lhs_unknown":
            return dict(target=t, path=lhs + [T(["add_linear", "set_linear", "get_linear", "degree"])], args=[T(UNKNOWN[:5])] + [1.0], expect="raise")
        if k == "lhs_selfloop":
            return dict(target=t, path=lhs + ["set_quadratic"], args=[T(["x", "y", "s"])] * 1 + [T(["x"])] + [1.0], expect="any")
        if k == "lhs_bias":
            return dict(target=t, path=lhs + [T(["add_linear", "set_linear"])], args=["x", T(BAD_SCALARS + ODD_NUMBERS)], expect="any")
        if k == "violations":
            return dict(target=t, path=["violations"], args=[T([["#", "dict", [["x", 1]]], 5, "abc", ["#", "dict", []]])], expect="raise")
        if k == "substitute":
            return dict(target=t, path=["substitute_self_loops"], args=[], expect="any")
        if k == "from_other":
            return dict(target=t, path=["add_constraint"], args=[T([5, "abc", NONE, True, ["#", "obj"], [1, 2, 3]])], expect="raise")
        if k == "weight":
            return dict(target=t, path=["add_constraint_from_iterable"], args=[[["x", 1.0]], "<="],
                        kwargs={"weight": T([-1, 0, NAN, "x", NONE]), "penalty": T(["linear", "cubic", 5])}, expect="any")
        if k == "lhs_remove":
            return dict(target=t, path=lhs + [T(["remove_variable", "remove_interaction"])], args=[T(UNKNOWN[:5])] + ([] if rng.random() < 0.5 else ["x"]),
                        expect="any")
        if k == "obj_unknown":
            return dict(target=t, path=["objective", T(["add_linear", "set_linear", "get_linear"])], args=[T(UNKNOWN[:5]), 1.0], expect="raise")
        return dict(target=t, path=lhs + ["energy"], args=[["#", "dict", [["x", 1]]]], expect="raise")
    if fam == "dqm" and rng.random() < 0.5:
        return dqm_case_call(rng)
    if fam == "dqm":
        t = "dqm"
        k = T(["addvar", "lin_case", "lin_case_get", "set_linear", "quad_case", "quad_case_get", "quad_self", "quad_shape", "quad_dict",
               "get_quad", "energies_neg", "energies_big", "energies_shape", "num_cases", "unknown", "relabel", "get_cases", "degree",
               "energies_types", "dqm_lineq"])
        if k == "dqm_lineq":
            bad = T([[["u", 0, 1.0], ["zz"]], [["u", 9, 1.0]], [["nope", 0, 1.0]], "abc", [[1, 2]], NONE, [["u", -1, 1.0]]])
            return dict(target=t, path=["add_linear_equality_constraint"], args=[bad, T([1.0, "x"]), T([0.0, "y"])], expect="any")
        if k == "addvar":
            return dict(target=t, path=["add_variable"], args=[T([0, -1, -5, "x", NONE, 1.5, ["#", "neg", ["#", "big", 40]]])], expect="raise")
        badcase = T([-1, -3, 3, 4, 100, ["#", "big", 31], ["#", "neg", ["#", "big", 31]], ["#", "big", 40], "x", NONE])
        if k == "lin_case":
            return dict(target=t, path=["set_linear_case"], args=["u", badcase, 1.0], expect="raise")
        if k == "lin_case_get":
            return dict(target=t, path=["get_linear_case"], args=[T(["u", "v"]), badcase], expect="raise")
        if k == "set_linear":
            return dict(target=t, path=["set_linear"], args=["u", T([[1, 2], [1, 2, 3, 4], "abc", 5, [["a"]], NONE, [NAN, INF, 1]])], expect="any")
        if k == "quad_case":
            a = T([["u", badcase, "v", 0], ["u", 0, "v", badcase], ["u", 0, "u", 1], ["u", 0, "nope", 0], ["nope", 0, "v", 0]])
            return dict(target=t, path=["set_quadratic_case"], args=a + [1.0], expect="raise")
        if k == "quad_case_get":
            a = T([["u", badcase, "v", 0], ["u", 0, "v", badcase], ["u", 0, "nope", 0]])
            return dict(target=t, path=["get_quadratic_case"], args=a, expect="raise")
        if k == "quad_self":
            return dict(target=t, path=["set_quadratic"], args=["u", "u", ["#", "dict", [[tup(0, 1), 1.0]]]], expect="raise")
        if k == "quad_shape":
            bad = T([arr([[1.0, 2.0]]), arr([1.0, 2.0, 3.0]), arr([[1.0] * 3] * 3), arr([[["x"]]]), "abc", 5, arr([[1.0] * 2] * 4)])
            return dict(target=t, path=["set_quadratic"], args=["u", "v", bad], expect="raise")
        if k == "quad_dict":
            bad = T([[[tup(5, 0), 1.0]], [[tup(0, -1), 1.0]], [[tup(0, 7), 1.0]], [[tup(-2, 0), 1.0]], [[tup(0,), 1.0]], [[tup(0, 1), "x"]],
                     [[tup(["#", "big", 31], 0), 1.0]]])
            return dict(target=t, path=["set_quadratic"], args=["u", "v", ["#", "dict", bad]], expect="raise")
        if k == "get_quad":
            return dict(target=t, path=["get_quadratic"], args=[T(["u", "nope", "w"]), T(["w", "nope", "u"])], expect="raise")
        if k == "energies_neg":
            s = T([[[-1, 0, 0]], [[0, -1, 0]], [[0, 0, -4]], [[0, 1, 0], [2, -2, 3]], [[-100, 0, 0]], [[["#", "neg", ["#", "big", 31]], 0, 0]]])
            return dict(target=t, path=["energies"], args=[tup(arr(s, T(["int64", "int32", "int8"]) if not any(isinstance(x, list) for r in s for x in r) else "int64"),
                                                              ["u", "v", "w"])], expect="raise")
        if k == "energies_big":
            s = T([[[3, 0, 0]], [[0, 2, 0]], [[0, 0, 4]], [[2, 1, 3], [2, 1, 99]], [[["#", "big", 31], 0, 0]], [[["#", "big", 40], 0, 0]]])
            return dict(target=t, path=["energies"], args=[tup(arr(s, "int64"), ["u", "v", "w"])], expect="raise")
        if k == "energies_shape":
            bad = T([tup(arr([[0, 0]]), ["u", "v"]), arr([[[0, 0, 0]]]), "abc",
                     tup(arr([[0, 0, 0]]), ["u", "v", "v"])])
            return dict(target=t, path=["energies"], args=[bad], expect="raise")
        if k == "energies_types":
            odd = T([tup(arr([[0.5, 0, 0]]), ["u", "v", "w"]), tup(arr([[NAN, 0, 0]]), ["u", "v", "w"]), tup(arr([["a", "b", "c"]]), ["u", "v", "w"]),
                     tup(arr([[1e30, 0, 0]]), ["u", "v", "w"]), tup(arr([[-0.5, 0, 0]]), ["u", "v", "w"])])
            return dict(target=t, path=["energies"], args=[odd], expect="any")
        if k == "num_cases":
            return dict(target=t, path=["num_cases"], args=[T(UNKNOWN[:5])], expect="raise")
        if k == "unknown":
            return dict(target=t, path=[T(["get_linear", "get_cases", "degree"])], args=[T(UNKNOWN[:5])], expect="raise")
        if k == "relabel":
            return dict(target=t, path=["relabel_variables"], args=[["#", "dict", [["u", "v"]]]], expect="raise")
        if k == "get_cases":
            return dict(target=t, path=["set_linear_case"], args=[T(UNKNOWN[:5]), 0, 1.0], expect="raise")
        return dict(target=t, path=["degree"], args=[T(UNKNOWN[:5])], expect="raise")
    # dqmvec
    t = "dqm"
    k = T(["starts", "lens", "neg", "big", "selfvar", "types"])
    cs, lb = [0, 3, 5], [1.0, 2.0, 3.0, 0.0, 0.0, 0.0, 0.0, -1.5, 0.0]
    if k == "starts":
        bad = T([[0, 5, 3], [2, 3, 5], [0, 3, 99], [-1, 3, 5], [0, 0, 5], [0, 3, 3], [[0, 3, 5]], "abc", [0, 3, 9]])
        return dict(target=t, path=["@cls", "from_numpy_vectors"], args=[bad, lb, tup([0], [4], [1.0])], expect="any")
    if k == "lens":
        q = T([tup([0, 1], [4], [1.0, 2.0]), tup([0], [4, 5], [1.0]), tup([0, 1], [4, 5], [1.0]), tup([0, 1], [4, 5])])
        return dict(target=t, path=["@cls", "from_numpy_vectors"], args=[cs, lb, q], expect="raise")
    if k == "neg":
        i = T([-1, -3, -100, ["#", "neg", ["#", "big", 31]]])
        q = T([tup(arr([0, i], "int64"), arr([4, 5], "int64"), [1.0, 1.0]), tup(arr([0, 1], "int64"), arr([i, 5], "int64"), [1.0, 1.0])])
        return dict(target=t, path=["@cls", "from_numpy_vectors"], args=[cs, lb, q], expect="raise")
    if k == "big":
        i = T([9, 10, 100, ["#", "big", 31], ["#", "big", 32], ["#", "big", 40]])
        q = T([tup(arr([0, i], "int64"), arr([4, 5], "int64"), [1.0, 1.0]), tup(arr([0, 1], "int64"), arr([i, 5], "int64"), [1.0, 1.0])])
        return dict(target=t, path=["@cls", "from_numpy_vectors"], args=[cs, lb, q], expect="raise")
    if k == "selfvar":
        q = T([tup([0], [1], [1.0]), tup([3], [4], [1.0]), tup([0], [0], [1.0])])
        return dict(target=t, path=["@cls", "from_numpy_vectors"], args=[cs, lb, q], expect="raise")
    q = T([tup([0.5], [4], [1.0]), tup(["a"], ["b"], [1.0]), tup([0], [4], ["x"]), 5, NONE, tup([0], [4], [NAN])])
    return dict(target=t, path=["@cls", "from_numpy_vectors"], args=[T([cs, "abc", NONE]), T([lb, "x", [1.0]]), q], expect="any")


# the child's DQM fixture: variables with DIFFERENT numbers of cases
DQM_CASES = {"u": 3, "v": 2, "w": 4}


def dqm_case_call(rng):
    """case-index handling of the DQM for an ordered pair of variables with different case counts:
    exactly one out-of-range / negative case (must raise, model unchanged) or a valid call at the
    upper boundary of both variables (must be accepted and read back)."""
    T = rng.choice
    a, b = rng.sample(sorted(DQM_CASES), 2)
    na, nb = DQM_CASES[a], DQM_CASES[b]
    top = max(DQM_CASES.values())

    def bad(n):
        # includes the values that are valid for ANOTHER variable but not for this one
        return T([-1, -2, n, n + 1] + [x for x in range(n, top + 1)] + [top + 1, 100])

    def good(n):
        return T([0, n - 1, n - 1, rng.randrange(n)])
    form = T(["dict", "dict", "dict", "array", "qcase", "qcase_get", "lcase", "lcase_get"])
    valid = rng.random() < 0.4
    bias = T([2.5, -1.25, 7.0, 0.5])
    if form in ("lcase", "lcase_get"):
        if valid:
            ca = good(na)
            if form == "lcase":
                return dict(target="dqm", path=["set_linear_case"], args=[a, ca, bias], expect="ok",
                            readback={"path": ["get_linear_case"], "args": [a, ca], "value": str(Fraction_s(bias))})
            return dict(target="dqm", path=["get_linear_case"], args=[a, ca], expect="ok")
        ca = bad(na)
        if form == "lcase":
            return dict(target="dqm", path=["set_linear_case"], args=[a, ca, bias], expect="raise")
        return dict(target="dqm", path=["get_linear_case"], args=[a, ca], expect="raise")
    if valid:
        ca, cb = good(na), good(nb)
    elif rng.random() < 0.5:
        ca, cb = bad(na), good(nb)
    else:
        ca, cb = good(na), bad(nb)
    rb = {"path": ["get_quadratic_case"], "args": [a, ca, b, cb], "value": str(Fraction_s(bias))}
    if form == "dict":
        call = dict(target="dqm", path=["set_quadratic"], args=[a, b, ["#", "dict", [[tup(ca, cb), bias]]]])
    elif form == "qcase":
        call = dict(target="dqm", path=["set_quadratic_case"], args=[a, ca, b, cb, bias])
    elif form == "qcase_get":
        call = dict(target="dqm", path=["get_quadratic_case"], args=[a, ca, b, cb])
        rb = None
    else:
        # dense form: shape must be (num_cases(a), num_cases(b)); the transposed / off-by-one shapes are invalid
        if valid:
            mat = [[0.0] * nb for _ in range(na)]
            mat[ca][cb] = bias
            call = dict(target="dqm", path=["set_quadratic"], args=[a, b, arr(mat, "float64")])
        else:
            # the dense form reshapes its argument to (num_cases(a), num_cases(b)): an array with the right
            # number of elements (e.g. the transposed matrix) is accepted by design, any other size must raise
            shape = T([(nb, na), (na, nb + 1), (na + 1, nb), (na - 1, nb), (na, nb - 1)])
            mat = [[1.0] * shape[1] for _ in range(shape[0])]
            return dict(target="dqm", path=["set_quadratic"], args=[a, b, arr(mat, "float64")],
                        expect="any" if shape[0] * shape[1] == na * nb else "raise")
    if valid:
        call["expect"] = "ok"
        if rb:
            call["readback"] = rb
    else:
        call["expect"] = "raise"
    return call


def Fraction_s(x):
    from fractions import Fraction
    return Fraction(float(x))


FN = [["#", "fn", "max"], ["#", "fn", "min"], ["#", "fn", "add"], ["#", "fn", "mul"], ["#", "fn", "first"], ["#", "lambda"]]


def reduce_call(rng):
    c = _reduce_call(rng)
    c["want_before"] = True          # the child sends the dump along: judge() recomputes the value from it
    c["reduce"] = True
    return c


def _reduce_call(rng):
    """reduce_linear / reduce_neighborhood / reduce_quadratic and the aggregations of the linear, quadratic and adj[v]
    views built on them (max, min, sum), on the inputs their empty-case guards exist for: a degree-0 variable inside a
    model that HAS interactions (in the middle and at the end of the index range), a model with variables but no
    interaction, a model with no variable; with and without initializer / default.  Nothing here may crash or change
    the model; without initializer the empty cases must raise."""
    T = rng.choice
    form = T(["nb", "nb", "nb", "adj", "adj", "lin", "quad", "linview", "quadview"])
    iso_t = ["bqmiso", "bqmiso32", "bqmisoobj", "bqmisos", "qmiso"]
    if form == "nb":
        t = T(iso_t + ["bqmlin"])
        v = T(["iso", "end", "iso", "a" if t.startswith("bqm") else "x", "b" if t.startswith("bqm") else "s"])
        if t == "bqmlin":
            v = T(["a", "b"])
        empty = v in ("iso", "end") or t == "bqmlin"
        if rng.random() < 0.5:
            return dict(target=t, path=["reduce_neighborhood"], args=[v, T(FN)], expect="raise" if empty else "any")
        return dict(target=t, path=["reduce_neighborhood"], args=[v, T(FN), T([0, 1.5, -2])], expect="ok")
    if form == "adj":
        t = T(iso_t + ["bqmlin"])
        v = T(["iso", "end"]) if t != "bqmlin" else T(["a", "b"])
        agg = T(["max", "min", "sum"])
        kw = {"default": T([0, -1.5])} if agg != "sum" and rng.random() < 0.5 else {}
        args = [T([0, 2.5])] if agg == "sum" and rng.random() < 0.5 else []
        return dict(target=t, path=["adj", ["item", v], agg], args=args, kwargs=kw,
                    expect="ok" if (kw or agg == "sum") else "raise")
    if form == "lin":
        t = T(iso_t + ["bqmempty", "qmempty", "bqmlin"])
        init = rng.random() < 0.5
        return dict(target=t, path=["reduce_linear"], args=[T(FN)] + ([T([0, 1.5])] if init else []),
                    expect="ok" if init else ("raise" if t in ("bqmempty", "qmempty") else "any"))
    if form == "quad":
        t = T(iso_t + ["bqmempty", "qmempty", "bqmlin"])
        init = rng.random() < 0.5
        return dict(target=t, path=["reduce_quadratic"], args=[T(FN)] + ([T([0, 1.5])] if init else []),
                    expect="ok" if init else ("raise" if t in ("bqmempty", "qmempty", "bqmlin") else "any"))
    t = T(iso_t + ["bqmempty", "qmempty", "bqmlin"])
    agg = T(["max", "min", "sum"])
    kw = {"default": T([0, -1.5])} if agg != "sum" and rng.random() < 0.5 else {}
    view = "linear" if form == "linview" else "quadratic"
    empty = t in ("bqmempty", "qmempty") or (view == "quadratic" and t == "bqmlin")
    return dict(target=t, path=[view, agg], args=[], kwargs=kw, expect="any" if (kw or agg == "sum" or not empty) else "raise")


FRESH = ["zz", 17, ["#", "tuple", ["n", 0]], "new"]
INVALID_LABEL = [NONE, [1, 2], ["#", "dict", []], ["#", "set", [1]]]


def fresh_call(rng):
    """invalid calls that carry a FRESH (unknown, hashable) label in a position where the entry point creates variables
    on the fly - so a wrong order of 'validate' and 'append' shows as a variable / resized model left behind by a call
    that raised.  py_fresh classifies the shape: selfloop (the same fresh label twice), then_invalid (fresh label
    followed by an invalid second label / bias), bulk (an iterable whose later item is malformed), addvar (new variable
    with wrong vartype / bounds / case count), model (a whole model with a fresh variable and a conflicting one)."""
    T = rng.choice
    z = T(FRESH)
    cls = T(["bqm", "bqm", "bqm", "qm", "cqm", "cqm", "dqm"])
    if cls == "bqm":
        t = T(BQMS)
        k = T(["selfloop", "selfloop", "then_invalid", "then_badbias", "bulk_quad", "bulk_lin", "addvar", "lineq", "contract", "relabel"])
        if k == "selfloop":
            return dict(target=t, path=[T(["add_quadratic", "set_quadratic"])], args=[z, z, T([1.0, 0.0, -2.5])], expect="raise",
                        fresh="selfloop")
        if k == "then_invalid":
            a = [z, T(INVALID_LABEL)]
            if rng.random() < 0.5:
                a.reverse()
            # the pure-Python object-dtype class takes any hashable label, None included
            return dict(target=t, path=[T(["add_quadratic", "set_quadratic"])], args=a + [1.0],
                        expect="any" if (t == "bqmobj" and NONE in a) else "raise", fresh="then_invalid")
        if k == "then_badbias":
            two = rng.random() < 0.6
            return dict(target=t, path=[T(["add_quadratic", "set_quadratic"]) if two else T(["add_linear", "set_linear"])],
                        args=([z, T(["a", T(FRESH)])] if two else [z]) + [T(BAD_SCALARS)], expect="any" if t == "bqmobj" else "raise",
                        fresh="then_badbias")
        if k == "bulk_quad":
            bad = T([[[tup(z, "a"), 1.0], [tup("a", "a"), 1.0]], [[tup(z, z), 1.0]], [[tup(z, "b"), 1.0], [tup("a",), 1.0]]])
            return dict(target=t, path=["add_quadratic_from"], args=[["#", "dict", bad]], expect="raise", fresh="bulk")
        if k == "bulk_lin":
            bad = T([[[z, 1.0], ["a"]], [[z, 1.0], ["a", 1.0, 2.0]], [[z, 1.0], [T(INVALID_LABEL), 1.0]]])
            return dict(target=t, path=["add_linear_from"], args=[bad], expect="any" if t == "bqmobj" else "raise", fresh="bulk")
        if k == "addvar":
            return dict(target=t, path=["add_variable"], args=[T(INVALID_LABEL[1:]), 1.0], expect="raise", fresh="addvar")
        if k == "lineq":
            bad = T([[[z, 1.0], ["a"]], [[z, 1.0], ["a", "x"]], [[z, 1.0], [T(INVALID_LABEL[1:]), 1.0]]])
            return dict(target=t, path=["add_linear_equality_constraint"], args=[bad, 1.0, 0.0], expect="raise", fresh="bulk")
        if k == "contract":
            a = [z, "a"] if rng.random() < 0.5 else ["a", z]
            return dict(target=t, path=["contract_variables"], args=a, expect="raise", fresh="then_invalid")
        return dict(target=t, path=["relabel_variables"], args=[["#", "dict", [["a", z], ["b", z]]]], kwargs={"inplace": True}, expect="raise",
                    fresh="relabel")
    if cls == "qm":
        t = T(["qm", "qm32"])
        k = T(["selfloop", "quad", "lin", "addvar_bounds", "addvar_vt", "addvars", "bulk_quad", "update"])
        if k == "selfloop":
            return dict(target=t, path=[T(["add_quadratic", "set_quadratic"])], args=[z, z, 1.0], expect="raise", fresh="selfloop")
        if k == "quad":
            a = [z, T(["x", "i", T(INVALID_LABEL)])]
            if rng.random() < 0.5:
                a.reverse()
            return dict(target=t, path=[T(["add_quadratic", "set_quadratic"])], args=a + [1.0], expect="raise", fresh="then_invalid")
        if k == "lin":
            return dict(target=t, path=[T(["add_linear", "set_linear"])], args=[z, T([1.0] + BAD_SCALARS)], expect="raise", fresh="then_badbias")
        if k == "addvar_bounds":
            vt = T(["INTEGER", "REAL"])
            lb, ub = T([(5, 1), (0.5, 0.75), (NAN, 1), (1, NAN), ("x", 1), (0, "y"), (INF, 1), (1, ["#", "-inf"])])
            if vt == "REAL" and (lb, ub) == (0.5, 0.75):
                lb, ub = 3, 2
            odd = any(isinstance(b, list) for b in (lb, ub))      # non-finite bounds: accepted by design of this catalogue ("any")
            return dict(target=t, path=["add_variable"], args=[vt, z], kwargs={"lower_bound": lb, "upper_bound": ub},
                        expect="any" if odd else "raise", fresh="addvar")
        if k == "addvar_vt":
            return dict(target=t, path=["add_variable"], args=[T(["BOGUS", 5, NONE, "binary "]), z], expect="raise", fresh="addvar")
        if k == "addvars":
            return dict(target=t, path=["add_variables_from"], args=[T(["SPIN", "INTEGER", "REAL"]), [z, "x"]], expect="raise", fresh="bulk")
        if k == "bulk_quad":
            bad = T([[["x", "i", 1.0], [z, "x", 1.0]], [["x", "i", 1.0], ["x", "i"]], [["x", "s", 1.0], ["x", "x", 1.0]]])
            return dict(target=t, path=["add_quadratic_from"], args=[bad], expect="raise", fresh="bulk")
        return dict(target=t, path=["update"], args=[["#", "bqm", "SPIN"]], expect="any", fresh="model")
    if cls == "cqm":
        t = "cqm"
        k = T(["addvar_bounds", "addvar_vt", "addvar_clash", "con_iter", "con_model", "obj_model", "obj_iter", "discrete", "lhs_selfloop", "lhs_quad",
               "con_weight"])
        lhs = ["constraints", ["item", T(["c0", "c1", "soft"])], "lhs"]
        if k == "addvar_bounds":
            lb, ub = T([(5, 1), (NAN, 1), ("x", 1), (0, "y"), (7, -7)])
            return dict(target=t, path=["add_variable"], args=["INTEGER", z], kwargs={"lower_bound": lb, "upper_bound": ub},
                        expect="any" if isinstance(lb, list) else "raise", fresh="addvar")
        if k == "addvar_vt":
            return dict(target=t, path=["add_variable"], args=[T(["BOGUS", 5, NONE]), z], expect="raise", fresh="addvar")
        if k == "addvar_clash":
            return dict(target=t, path=["add_variables"], args=[T(["SPIN", "INTEGER"]), [z, "x"]], expect="raise", fresh="bulk")
        if k == "con_iter":
            bad = T([[[z, 1.0]], [["x", 1.0], [z, "x", 1.0]], [["x", 1.0], ["x"]], [["x", "y", 1.0], ["x", "x", "x", 1.0]]])
            return dict(target=t, path=["add_constraint_from_iterable"], args=[bad, T(["<=", "==", ">="])], kwargs={"label": T(["nc", z])},
                        expect="raise", fresh="bulk")
        if k == "con_model":
            # a model over a fresh variable q and the known variable a... the CQM's x is BINARY: a SPIN model over it conflicts
            vt, sense = T([("SPIN", "<="), ("SPIN", "<<"), ("BINARY", "<<"), ("BINARY", "!="), ("BINARY", 5), ("SPIN", "==")])
            return dict(target=t, path=["add_constraint"], args=[["#", "bqmx", vt], sense], kwargs={"label": "nc"}, expect="raise", fresh="model")
        if k == "obj_model":
            return dict(target=t, path=["set_objective"], args=[["#", "bqmx", "SPIN"]], expect="raise", fresh="model")
        if k == "obj_iter":
            return dict(target=t, path=["set_objective"], args=[[[z, 1.0]]], expect="raise", fresh="bulk")
        if k == "discrete":
            return dict(target=t, path=["add_discrete"], args=[T([[z, "i"], [z, "s"], [z, "d0"], [z, z]])], kwargs={"label": T(["dd", "c0"])},
                        expect="any", fresh="bulk")
        if k == "lhs_selfloop":
            return dict(target=t, path=T([lhs, ["objective"]]) + [T(["add_quadratic", "set_quadratic"])], args=[z, z, 1.0], expect="raise", fresh="selfloop")
        if k == "lhs_quad":
            return dict(target=t, path=T([lhs, ["objective"]]) + ["add_quadratic"], args=[z, "x", 1.0], expect="raise", fresh="then_invalid")
        return dict(target=t, path=["add_constraint_from_iterable"], args=[[["x", 1.0], ["y", 1.0]], "<="],
                    kwargs={"label": z, "weight": T([-1, 0, "x"]), "penalty": T(["linear", "cubic"])}, expect="raise", fresh="addcon")
    t = "dqm"
    k = T(["addvar", "addvar", "quad", "quadcase", "lin", "lineq", "relabel"])
    if k == "addvar":
        return dict(target=t, path=["add_variable"], args=[T([0, -1, -5, "x", NONE, 1.5])], kwargs={"label": z}, expect="raise", fresh="addvar")
    if k == "quad":
        return dict(target=t, path=["set_quadratic"], args=[T(["u", z]), z, ["#", "dict", [[tup(0, 0), 1.0]]]], expect="raise", fresh="then_invalid")
    if k == "quadcase":
        return dict(target=t, path=["set_quadratic_case"], args=[T(["u", z]), 0, z, 0, 1.0], expect="raise", fresh="then_invalid")
    if k == "lin":
        return dict(target=t, path=[T(["set_linear_case", "get_linear_case"])], args=[z, 0] + [1.0], expect="raise", fresh="then_invalid")
    if k == "lineq":
        return dict(target=t, path=["add_linear_equality_constraint"], args=[[["u", 0, 1.0], [z, 0, 1.0]], 1.0, 0.0], expect="raise", fresh="bulk")
    return dict(target=t, path=["relabel_variables"], args=[["#", "dict", [["u", z], ["v", z]]]], expect="raise", fresh="relabel")


def gen_py_calls(rng, n):
    out = []
    for i in range(n):
        c = catalogue(rng)
        if c.get("args") is None:
            c["args"] = []
            c["noargs"] = True
        c["id"] = i
        out.append(c)
    return out


VG_ERR = re.compile(r"^==\d+== (Invalid (read|write|free)|Mismatched free|Jump to the invalid|Source and destination overlap"
                    r"|Conditional jump or move depends on uninitialised|Use of uninitialised|Syscall param)", re.M)


def valgrind_findings(text):
    """error blocks whose stack has a dimod frame"""
    blocks = re.split(r"\n==\d+== \n", text)
    out = []
    for b in blocks:
        m = VG_ERR.search(b)
        if not m:
            continue
        if m.group(1).startswith(("Conditional", "Use of")):
            continue      # CPython / numpy produce these by the dozen; only memory errors count
        frames = [l for l in b.splitlines() if re.search(r"(at|by) 0x", l)]
        if any(("dimod" in f or "cybqm" in f or "cyqm" in f or "cydiscrete" in f or "cyconstrained" in f or "cyexpression" in f
                or "cyvariables" in f) for f in frames[:12]):
            out.append(b[-1500:])
    return out


def run_calls(calls, valgrind=False, per_call_timeout=10.0):
    """returns a list of records, one per call: the child's record, or {'crash': ...} / {'hang': True}"""
    import time
    import select
    results = {}
    todo = list(calls)
    vg_notes = []
    while todo:
        cmd = [PY, "-X", "faulthandler", CHILD]
        env = dict(os.environ)
        env["C20_RLIMIT"] = str(6 << 30)
        if valgrind:
            env.pop("C20_RLIMIT")
            env["PYTHONMALLOC"] = "malloc"
            cmd = ["valgrind", "--error-exitcode=9", "--num-callers=20", "--trace-children=no", PY, CHILD]
        p = subprocess.Popen(cmd, stdin=subprocess.PIPE, stdout=subprocess.PIPE, stderr=subprocess.PIPE, env=env)
        p.stdin.write(json.dumps(todo).encode())
        p.stdin.close()
        fd = p.stdout.fileno()
        buf = b""
        started = None
        last = time.time()
        budget = per_call_timeout * (40 if valgrind else 1)
        first_budget = budget + (240 if valgrind else 30)     # interpreter + numpy + dimod import
        done = False
        hang = False
        seen_any = False
        while True:
            lim = (budget if seen_any else first_budget) - (time.time() - last)
            if lim <= 0:
                hang = True
                p.kill()
                break
            r, _, _ = select.select([fd], [], [], lim)
            if not r:
                continue
            chunk = os.read(fd, 1 << 16)
            if not chunk:
                break
            buf += chunk
            while b"\n" in buf:
                line, buf = buf.split(b"\n", 1)
                try:
                    d = json.loads(line)
                except Exception:
                    continue
                last = time.time()
                seen_any = True
                if d.get("done"):
                    done = True
                elif d.get("started"):
                    started = d["id"]
                else:
                    results[d["id"]] = d
                    started = None
        err = p.stderr.read().decode(errors="replace")
        rc = p.wait()
        if valgrind:
            vg = valgrind_findings(err)
            if vg:
                vg_notes.append({"calls": [c["id"] for c in todo if c["id"] in results or c["id"] == started], "blocks": vg[:3]})
        if done:
            break
        # the child died or hung: blame the call that was started and not finished
        ids = [c["id"] for c in todo]
        if started is None:
            # died outside any call (import, setup): blame the first unfinished one
            rest = [i for i in ids if i not in results]
            if not rest:
                break
            started = rest[0]
        results[started] = {"id": started, "crash": None if hang else rc, "hang": hang, "stderr": err[-2500:]}
        todo = [c for c in todo if c["id"] not in results]
    return [results.get(c["id"], {"id": c["id"], "missing": True}) for c in calls], vg_notes


def reduce_expected(call, before):
    """the value a reduce_* call / view aggregation must return, recomputed from the dump the child took before the
    call (None: not determined - order-dependent function over the whole quadratic view, or an exception is due)"""
    import functools
    from fractions import Fraction as Fr
    path = [p for p in call["path"] if isinstance(p, str)]
    name = path[-1]
    args = call.get("args", [])
    order = {v: i for i, v in enumerate(before["vars"])}
    lin = [Fr(b) for _, b in before["lin"]]

    def nb(v):
        v = repr(v)
        ent = [(order[w if u == v else u], Fr(b)) for u, w, b in before["quad"] if v in (u, w)]
        return [b for _, b in sorted(ent)]
    fns = {"max": max, "min": min, "add": lambda a, b: a + b, "mul": lambda a, b: a * b, "first": lambda a, b: a}
    if name in ("max", "min", "sum"):
        if path[0] == "adj":
            vals = nb(call["path"][1][1])
        elif path[0] == "linear":
            vals = lin
        else:
            vals = [Fr(b) for _, _, b in before["quad"]]
        if name == "sum":
            return sum(vals, Fr(args[0]) if args else Fr(0))
        if not vals:
            d = call.get("kwargs", {}).get("default")
            return None if d is None else Fr(d)
        return (max if name == "max" else min)(vals)
    if name == "reduce_neighborhood":
        vals, rest = nb(args[0]), args[1:]
    elif name == "reduce_linear":
        vals, rest = lin, args
    else:
        vals, rest = [Fr(b) for _, _, b in before["quad"]], args
    fn = rest[0]
    if fn[1] == "lambda":
        f = lambda a, b: Fr(0)
    else:
        f = fns[fn[2]]
        if name == "reduce_quadratic" and fn[2] == "first":
            return None
    init = rest[1:]
    if not vals and not init:
        return None
    return functools.reduce(f, vals, Fr(init[0])) if init else functools.reduce(f, vals)


def judge(call, rec):
    """None when fine, else (reason, feature)"""
    j = _judge(call, rec)
    if j is None and call.get("reduce") and rec.get("exc") is None and rec.get("before") and (rec.get("res") or {}).get("num") is not None:
        from fractions import Fraction as Fr
        want = reduce_expected(call, rec["before"])
        if want is not None and Fr(rec["res"]["num"]) != want:
            return f"returned {rec['res']['num']} where the dumped biases give {want}", "value"
    return j


def _judge(call, rec):
    if rec.get("hang"):
        return "the call did not return within the time limit (hang)", "hang"
    if "crash" in rec:
        return f"the interpreter died (exit status {rec['crash']}) during the call: {rec.get('stderr', '')[-600:]}", "crash"
    if rec.get("missing") or rec.get("setup_error"):
        return None     # harness level; reported separately
    if rec.get("observe_error"):
        return "the model cannot be dumped after the call: " + rec["observe_error"], "unobservable"
    if rec.get("exc") is not None and not rec.get("same", True):
        return f"{rec['exc']} was raised but the model changed", "altered"
    if rec.get("exc") is None and call.get("expect") == "raise":
        return "an invalid argument was accepted without an exception" + ("" if rec.get("same", True) else " and changed the model"), "accepted"
    if rec.get("exc") in ("SystemError", "RecursionError"):
        return f"{rec['exc']}: {rec.get('msg')}", "bad_exception"
    if call.get("expect") == "ok":
        if rec.get("exc") is not None:
            return f"a valid call was rejected with {rec['exc']}: {rec.get('msg')}", "rejected"
        rb = call.get("readback")
        if rb and rec.get("readback") != rb["value"]:
            return f"the value written by a valid call reads back as {rec.get('readback')} instead of {rb['value']}", "readback"
    return None


# ----------------------------------------------------------------------------
# Coverage table read by translators/c20_py_surface.py (fail-closed): every method of the Cython
# classes that takes an argument must be listed here, either with the catalogue entries that reach
# it - (family, name of the called attribute) pairs the generator above must be able to produce -
# or with the reason why it is out of scope.  A method added to a .pyx without a line here, or a
# line whose catalogue entry can no longer be generated, breaks the tie.
# ----------------------------------------------------------------------------
def _cat(*pairs):
    return ("cat", list(pairs))


def _exempt(reason):
    return ("exempt", reason)


_LOADER = "raw-buffer loader behind from_file; truncated / inconsistent files are property C16's stream"
SURFACE = {
    # ---- cyqmbase (shared by BQM and QM) ----
    "cyqmbase.offset": _exempt("property setter typed bias_type: Cython's own conversion rejects non-numbers"),
    "cyqmbase.degree": _cat(("bqm", "degree")),
    "cyqmbase._energies": _exempt("typed helper behind energies()"),
    "cyqmbase.energies": _cat(("bqm", "energies"), ("qm", "energies")),
    "cyqmbase.get_linear": _cat(("bqm", "get_linear"), ("qm", "get_linear")),
    "cyqmbase.get_quadratic": _cat(("bqm", "get_quadratic")),
    "cyqmbase._ineighborhood": _cat(("bqm", "_ineighborhood"), ("qm", "_ineighborhood")),
    "cyqmbase.iter_neighborhood": _cat(("bqm", "iter_neighborhood")),
    "cyqmbase.lower_bound": _cat(("qm", "lower_bound")),
    "cyqmbase.upper_bound": _cat(("qm", "upper_bound")),
    "cyqmbase.vartype": _cat(("qm", "vartype")),
    "cyqmbase.nbytes": _exempt("boolean flag only"),
    "cyqmbase.reduce_linear": _cat(("bqm", "reduce_linear"), ("qm", "reduce_linear")),
    "cyqmbase.reduce_quadratic": _cat(("bqm", "reduce_quadratic"), ("qm", "reduce_quadratic")),
    "cyqmbase.reduce_neighborhood": _cat(("bqm", "reduce_neighborhood"), ("qm", "reduce_neighborhood")),
    "cyqmbase.relabel_variables": _cat(("bqm", "relabel_variables")),
    "cyqmbase.remove_interaction": _cat(("bqm", "remove_interaction"), ("qm", "remove_interaction")),
    "cyqmbase.remove_variable": _cat(("bqm", "remove_variable"), ("qm", "remove_variable")),
    "cyqmbase.scale": _cat(("bqm", "scale")),
    # ---- cyBQM ----
    "cybqm.add_linear": _cat(("bqm", "add_linear")),
    "cybqm.add_linear_equality_constraint": _cat(("bqm", "add_linear_equality_constraint")),
    "cybqm.add_linear_from_array": _cat(("bqm", "add_linear_from_array")),
    "cybqm.add_offset_from_array": _cat(("bqm", "add_offset_from_array")),
    "cybqm.add_quadratic": _cat(("bqm", "add_quadratic")),
    "cybqm.add_quadratic_from_arrays": _cat(("bqm", "add_quadratic_from_arrays")),
    "cybqm.add_quadratic_from_dense": _cat(("bqm", "add_quadratic_from_dense")),
    "cybqm.add_variable": _exempt("any hashable label is a legitimate new variable; bias typed bias_type"),
    "cybqm.change_vartype": _cat(("bqm", "change_vartype")),
    "cybqm._from_numpy_vectors": _exempt("typed helper behind from_numpy_vectors()"),
    "cybqm.from_numpy_vectors": _cat(("bqm", "from_numpy_vectors")),
    "cybqm.resize": _cat(("bqm", "resize")),
    "cybqm.set_linear": _cat(("bqm", "set_linear")),
    "cybqm.set_quadratic": _cat(("bqm", "set_quadratic")),
    "cybqm.to_numpy_vectors": _exempt("read-only export; variable_order mistakes are property C02's stream"),
    "cybqm._update": _exempt("typed cyBQM helper behind update()"),
    "cybqm.update": _cat(("bqm", "update")),
    "cybqm.vartype": _exempt("optional label ignored: a BQM has one vartype"),
    # ---- cyQM ----
    "cyqm._ilower_triangle_load": _exempt(_LOADER),
    "cyqm._ivartypes_load": _exempt(_LOADER),
    "cyqm.add_linear": _cat(("qm", "add_linear")),
    "cyqm.add_linear_from_array": _cat(("qm", "add_linear_from_array")),
    "cyqm.add_quadratic": _cat(("qm", "add_quadratic")),
    "cyqm.add_quadratic_from_arrays": _cat(("qm", "add_quadratic_from_arrays")),
    "cyqm.add_quadratic_from_iterable": _cat(("qm", "add_quadratic_from")),
    "cyqm.add_variable": _cat(("qm", "add_variable")),
    "cyqm.change_vartype": _cat(("qm", "change_vartype")),
    "cyqm.from_cybqm": _exempt("typed cyBQM argument"),
    "cyqm.set_linear": _cat(("qm", "set_linear")),
    "cyqm.set_lower_bound": _cat(("qm", "set_lower_bound")),
    "cyqm.set_upper_bound": _cat(("qm", "set_upper_bound")),
    "cyqm.set_quadratic": _cat(("qm", "set_quadratic")),
    "cyqm.update": _cat(("qm", "update")),
    # ---- cyConstrainedQuadraticModel ----
    "cycqm.add_constraint_from_iterable": _cat(("cqm", "add_constraint_from_iterable")),
    "cycqm.add_constraint_from_model": _cat(("cqm", "add_constraint")),
    "cycqm.add_variables": _cat(("cqm", "add_variable")),
    "cycqm.change_vartype": _cat(("cqm", "change_vartype")),
    "cycqm.from_discrete_quadratic_model": _exempt("conversion constructor taking a whole DQM object and a relabelling function"),
    "cycqm.fix_variable": _cat(("cqm", "fix_variable")),
    "cycqm.fix_variables": _cat(("cqm", "fix_variables")),
    "cycqm.flip_variable": _cat(("cqm", "flip_variable")),
    "cycqm._ivarinfo_load": _exempt(_LOADER),
    "cycqm.lower_bound": _cat(("cqm", "lower_bound")),
    "cycqm.upper_bound": _cat(("cqm", "upper_bound")),
    "cycqm.vartype": _cat(("cqm", "vartype")),
    "cycqm.remove_constraint": _cat(("cqm", "remove_constraint")),
    "cycqm.remove_variable": _cat(("cqm", "remove_variable")),
    "cycqm.set_lower_bound": _cat(("cqm", "set_lower_bound")),
    "cycqm.set_upper_bound": _cat(("cqm", "set_upper_bound")),
    "cycqm._set_objective_from_cyqm": _exempt("typed helper behind set_objective()"),
    "cycqm.set_objective": _cat(("cqm", "set_objective")),
    # ---- cyExpression / cyConstraintView ----
    "cyexpr.offset": _exempt("property setter typed bias_type"),
    "cyexpr.add_linear": _cat(("cqm", "add_linear")),
    "cyexpr.add_quadratic": _cat(("cqm", "add_quadratic")),
    "cyexpr.add_variable": _exempt("forwards *args to the parent's add_variable (catalogued there)"),
    "cyexpr.degree": _cat(("cqm", "degree")),
    "cyexpr._energies": _exempt("typed helper behind energies()"),
    "cyexpr.energies": _cat(("cqm", "energy")),
    "cyexpr._iindices_load": _exempt(_LOADER),
    "cyexpr._ilinear_load": _exempt(_LOADER),
    "cyexpr._iquadratic_load": _exempt(_LOADER),
    "cyexpr._into_file": _exempt("serialisation: property C16"),
    "cyexpr._from_file": _exempt("serialisation: property C16"),
    "cyexpr.get_linear": _cat(("cqm", "get_linear")),
    "cyexpr.get_quadratic": _cat(("cqm", "get_quadratic")),
    "cyexpr.iter_neighborhood": _cat(("cqm", "iter_neighborhood")),
    "cyexpr.lower_bound": _cat(("cqm", "lower_bound")),
    "cyexpr.upper_bound": _cat(("cqm", "upper_bound")),
    "cyexpr.vartype": _cat(("cqm", "vartype")),
    "cyexpr.remove_interaction": _cat(("cqm", "remove_interaction")),
    "cyexpr.remove_variable": _cat(("cqm", "remove_variable")),
    "cyexpr.set_linear": _cat(("cqm", "set_linear")),
    "cyexpr.set_quadratic": _cat(("cqm", "set_quadratic")),
    "cyexpr.mark_discrete": _exempt("boolean flag only"),
    "cyexpr.set_weight": _exempt("weight / penalty validation is catalogued through cqm.add_constraint_from_iterable(weight=, penalty=)"),
    # ---- cyDiscreteQuadraticModel ----
    "cydqm.offset": _exempt("property setter typed bias_type"),
    "cydqm.add_linear_equality_constraint": _cat(("dqm", "add_linear_equality_constraint")),
    "cydqm.add_variable": _cat(("dqm", "add_variable")),
    "cydqm.degree": _cat(("dqm", "degree")),
    "cydqm.energies": _cat(("dqm", "energies")),
    "cydqm._from_numpy_vectors": _exempt("typed helper behind from_numpy_vectors()"),
    "cydqm.from_numpy_vectors": _cat(("dqm", "from_numpy_vectors")),
    "cydqm.get_linear": _cat(("dqm", "get_linear")),
    "cydqm.get_linear_case": _cat(("dqm", "get_linear_case")),
    "cydqm.get_quadratic": _cat(("dqm", "get_quadratic")),
    "cydqm.get_quadratic_case": _cat(("dqm", "get_quadratic_case")),
    "cydqm.num_cases": _cat(("dqm", "num_cases")),
    "cydqm.set_linear": _cat(("dqm", "set_linear")),
    "cydqm.set_linear_case": _cat(("dqm", "set_linear_case")),
    "cydqm.set_quadratic": _cat(("dqm", "set_quadratic")),
    "cydqm.set_quadratic_case": _cat(("dqm", "set_quadratic_case")),
    "cydqm.to_numpy_vectors": _exempt("read-only export, boolean flag only"),
}


def reachable_entries(draws=12000, seed=20):
    """(family, called attribute) pairs the catalogue generates (deterministic sweep)"""
    import random

    class R(random.Random):
        pass
    rng = R(seed)
    out = set()
    for _ in range(draws):
        c = catalogue(rng)
        t = c["target"]
        fam = "bqm" if t.startswith("bqm") else "qm" if t.startswith("qm") else t
        out.add((fam, [p for p in c["path"] if isinstance(p, str)][-1]))
    return out
